#!/bin/sh
# run the two candidate changes of every agent worktree of a round (/tmp/wt<N>_<ID>/mutation{1,2}.diff) against the check of their property,
# WORKERS at a time on scratch worktrees (VERIF_REPO / VERIF_SCRATCH).  usage: tools/roundtest_par.sh <round> [workers]
N=$1; W=${2:-8}; OUT=/verif/.runall/round${N}_first.txt
cd /verif; mkdir -p .runall /tmp/r$N; : > "$OUT"
grep "^finding:" known_findings.txt | sed 's/.*key=\([^ ]*\) .*/[\1]/' > .runall/known_keys.txt
worker() {
  k=$1; shift
  R=/tmp/rtrepo_$k; S=/tmp/rtscratch_$k
  git -C /repo worktree remove --force $R >/dev/null 2>&1; rm -rf $R $S
  git -C /repo worktree add -q --detach $R main || exit 2
  for prop in "$@"; do
    for m in 1 2; do
      p=/tmp/wt${N}_$prop/mutation$m.diff
      [ -f $p ] || { echo "$prop m$m MISSING" >> "$OUT"; continue; }
      if ! git -C $R apply --check $p 2>/dev/null; then echo "$prop m$m DOES-NOT-APPLY" >> "$OUT"; continue; fi
      git -C $R apply $p
      VERIF_REPO=$R VERIF_SCRATCH=$S timeout 1500 ./check $prop --tier quick > /tmp/r$N/$prop.m$m.log 2>&1; code=$?
      git -C $R checkout -q -- . ; git -C $R clean -fdq pyroll 2>/dev/null
      key=$(grep -E "FAILING INPUT" /tmp/r$N/$prop.m$m.log | grep -v -F -f /verif/.runall/known_keys.txt | head -1 | sed 's/.*FAILING INPUT \[\([^]]*\)\].*/\1/')
      nfi=$(grep -c "no-failing-input-found" /tmp/r$N/$prop.m$m.log)
      echo "$prop m$m exit=$code failing-input=[$key] no-failing-input-found=$nfi" >> "$OUT"
    done
  done
  git -C /repo worktree remove --force $R >/dev/null 2>&1; rm -rf $S
}
IDS=$(for i in $(python3 -c "import json;print(' '.join(c['property_id'] for c in json.load(open('MANIFEST.json'))['checks']))"); do [ -d /tmp/wt${N}_$i ] && echo $i; done)
i=0
for k in $(seq 1 $W); do eval "L$k="; done
for id in $IDS; do k=$(( i % W + 1 )); eval "L$k=\"\$L$k $id\""; i=$((i+1)); done
for k in $(seq 1 $W); do eval "worker $k \$L$k" & done
wait
git -C /repo worktree prune
sort "$OUT" -o "$OUT"; cat "$OUT"
