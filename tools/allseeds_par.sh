#!/bin/sh
# run every kept seeded change against the check of its property (quick tier), WORKERS at a time, each worker on its own scratch worktree of /repo
# (VERIF_REPO / VERIF_SCRATCH): /repo itself and /verif's evidence, replay and run directories are not touched.  usage: tools/allseeds_par.sh [workers] [out-file]
W=${1:-5}; OUT=${2:-/verif/.runall/allseeds_par.txt}
cd /verif; mkdir -p .runall; : > "$OUT"
IDS=$(python3 -c "import json;print(' '.join(c['property_id'] for c in json.load(open('MANIFEST.json'))['checks']))")
worker() {
  k=$1; shift
  R=/tmp/seedrepo_$k; S=/tmp/seedscratch_$k
  git -C /repo worktree remove --force $R >/dev/null 2>&1; rm -rf $R $S
  git -C /repo worktree add -q --detach $R main || exit 2
  for prop in "$@"; do
    for d in /verif/seeded/$prop-*/; do
      id=$(basename $d)
      if ! git -C $R apply --check $d/patch.diff 2>/dev/null; then echo "$id DOES-NOT-APPLY" >> "$OUT"; continue; fi
      git -C $R apply $d/patch.diff
      out=$(VERIF_REPO=$R VERIF_SCRATCH=$S timeout 1500 ./check $prop --tier quick 2>&1); code=$?
      git -C $R checkout -q -- . ; git -C $R clean -fdq pyroll 2>/dev/null
      key=$(echo "$out" | grep -E "FAILING INPUT" | grep -v -F -f /verif/.runall/known_keys.txt | head -1 | sed 's/.*FAILING INPUT \[\([^]]*\)\].*/\1/')
      nfi=$(echo "$out" | grep -c "no-failing-input-found")
      echo "$id exit=$code failing-input=[$key] no-failing-input-found=$nfi" >> "$OUT"
    done
  done
  git -C /repo worktree remove --force $R >/dev/null 2>&1; rm -rf $S
}
grep "^finding:" known_findings.txt | sed 's/.*key=\([^ ]*\) .*/[\1]/' > .runall/known_keys.txt
i=0
for k in $(seq 1 $W); do eval "L$k="; done
for id in $IDS; do k=$(( i % W + 1 )); eval "L$k=\"\$L$k $id\""; i=$((i+1)); done
for k in $(seq 1 $W); do eval "worker $k \$L$k" & done
wait
git -C /repo worktree prune
sort "$OUT" -o "$OUT"
echo "caught: $(grep -c 'exit=1' $OUT)  missed: $(grep -c 'exit=0' $OUT)  not applying: $(grep -c DOES-NOT-APPLY $OUT)"
