"""Fragment T-D: GenericElongationGroove (pyroll/core/grooves/generic_elongation.py) ->
 * the junction chain z0..z12, y0..y12, alpha1, alpha2, beta, gamma as Expr terms over the resolved inputs
   (r1..r4, alpha3, alpha4, indent, even_ground_width, pad, pad_angle, flank_angle, usable_width, depth),
 * the six analytic contour functions over the extra variable "z",
 * the piecewise table of local_depth (bounds and functions, in source order, last = default),
 * the sampled segments of _enumerate_contour_points.
Fail closed."""
import ast
import os
from .ir import Untranslatable, to_coq
from .pyexpr import ExprTr

BASE = ['r1', 'r2', 'r3', 'r4', 'alpha3', 'alpha4', 'indent', 'even_ground_width', 'pad', 'pad_angle', 'flank_angle',
        'usable_width', 'depth', 'ground_width']


def _method(tree, name):
    for n in tree.body:
        if isinstance(n, ast.ClassDef) and n.name == 'GenericElongationGroove':
            for m in n.body:
                if isinstance(m, ast.FunctionDef) and m.name == name:
                    return m
    raise Untranslatable(name + " not found")


class Tr(ExprTr):
    """names resolve through `env` (locals and self attributes)"""

    def __init__(self, env):
        super().__init__({}, {})
        self.env = env

    def expr(self, n):
        if isinstance(n, ast.Name):
            if n.id in self.env:
                return self.env[n.id]
            raise Untranslatable("free name " + n.id)
        if isinstance(n, ast.Attribute) and isinstance(n.value, ast.Name) and n.value.id == 'self':
            key = n.attr.lstrip('_') if n.attr in ('_depth', '_usable_width') else n.attr
            if key in self.env:
                return self.env[key]
            raise Untranslatable("self." + n.attr + " used before assignment")
        return super().expr(n)


def translate(repo_root=os.environ.get('VERIF_REPO', '/repo')):
    path = os.path.join(repo_root, 'pyroll/core/grooves/generic_elongation.py')
    tree = ast.parse(open(path).read())
    init = _method(tree, '__init__')
    env = {b: ('var', b) for b in BASE}
    junctions = {}
    started = False
    for s in init.body:
        src = ast.unparse(s)
        if not started:
            if isinstance(s, ast.Assign) and src.startswith('self.r1 ='):
                started = True
            else:
                continue
        if isinstance(s, ast.Assign) and isinstance(s.targets[0], ast.Name) and s.targets[0].id == 'right_side':
            break
        if not isinstance(s, ast.Assign):
            raise Untranslatable("statement in chain: " + src[:60])
        if isinstance(s.value, ast.IfExp) and src.startswith('pad ='):
            continue                               # pad = pad if pad else usable_width * rel_pad  -> input "pad"
        if 'set(classifiers)' in src:
            continue
        t = Tr(env)
        val = t.expr(s.value)
        for tgt in s.targets:
            if isinstance(tgt, ast.Name):
                env[tgt.id] = val
            elif isinstance(tgt, ast.Attribute) and isinstance(tgt.value, ast.Name) and tgt.value.id == 'self':
                key = tgt.attr.lstrip('_')
                env[key] = val
                junctions[key] = val
            else:
                raise Untranslatable("target " + ast.unparse(tgt))
    # analytic contour functions (variable "z")
    funcs = {}
    for name in ('_r1_contour_line', '_r2_contour_line', '_r3_contour_line', '_r4_contour_line', '_flank_contour_line',
                 '_ground_contour_line', '_face_contour_line'):
        m = _method(tree, name)
        body = [x for x in m.body if not (isinstance(x, ast.Expr) and isinstance(x.value, ast.Constant))]
        if len(body) != 1 or not isinstance(body[0], ast.Return):
            raise Untranslatable(name + " is not a single return")
        e2 = dict(env)
        e2['z'] = ('var', 'z')
        rv = body[0].value
        # np.ones_like(z) * c  /  np.zeros_like(z)
        if isinstance(rv, ast.BinOp) and isinstance(rv.left, ast.Call) and ast.unparse(rv.left.func) == 'np.ones_like':
            rv = rv.right
        if isinstance(rv, ast.Call) and ast.unparse(rv.func) == 'np.zeros_like':
            funcs[name] = ('z', 0)
            continue
        funcs[name] = Tr(e2).expr(rv)
    # piecewise table of local_depth
    ld = _method(tree, 'local_depth')
    pw = None
    for n in ast.walk(ld):
        if isinstance(n, ast.Call) and ast.unparse(n.func) == 'np.piecewise':
            pw = n
    if pw is None:
        raise Untranslatable("np.piecewise not found")
    conds, fl = pw.args[1].elts, pw.args[2].elts
    if len(fl) != len(conds) + 1:
        raise Untranslatable("piecewise needs one default function")
    pieces = []

    def bound(c):
        # z < self.zN   |   (self.zA <= z) & (z < self.zB)
        if isinstance(c, ast.Compare) and isinstance(c.ops[0], ast.Lt) and ast.unparse(c.left) == 'z':
            return None, c.comparators[0].attr
        if isinstance(c, ast.BinOp) and isinstance(c.op, ast.BitAnd):
            a, b = c.left, c.right
            if (isinstance(a, ast.Compare) and isinstance(a.ops[0], ast.LtE) and ast.unparse(a.comparators[0]) == 'z'
                    and isinstance(b, ast.Compare) and isinstance(b.ops[0], ast.Lt) and ast.unparse(b.left) == 'z'):
                return a.left.attr, b.comparators[0].attr
        raise Untranslatable("piecewise condition " + ast.unparse(c))
    for c, f in zip(conds, fl):
        lo, hi = bound(c)
        pieces.append((lo, hi, f.attr))
    default = fl[-1].attr
    # sampled segments
    en = _method(tree, '_enumerate_contour_points')
    segments, points = [], []
    for n in ast.walk(en):
        if isinstance(n, ast.For) and isinstance(n.iter, ast.Call) and ast.unparse(n.iter.func) == 'np.linspace':
            a, b = n.iter.args[0].attr, n.iter.args[1].attr
            kw = {k.arg: ast.unparse(k.value) for k in n.iter.keywords}
            if kw.get('endpoint') != 'False':
                raise Untranslatable("linspace with endpoint")
            y = n.body[0].value.value.elts[1]
            segments.append((a, b, y.func.attr))
    for n in en.body:
        for y in ast.walk(n):
            if isinstance(y, ast.Yield) and isinstance(y.value, ast.Tuple) and all(isinstance(e, ast.Attribute) for e in y.value.elts):
                points.append((y.value.elts[0].attr, y.value.elts[1].attr))
    # the same, as an ordered list of items (fail closed on any other statement shape)
    items = []

    def isclose_guard(test):
        # not np.isclose(self.zA, self.zB)
        if (isinstance(test, ast.UnaryOp) and isinstance(test.op, ast.Not) and isinstance(test.operand, ast.Call)
                and ast.unparse(test.operand.func) == 'np.isclose' and len(test.operand.args) == 2
                and all(isinstance(a, ast.Attribute) for a in test.operand.args)):
            return test.operand.args[0].attr, test.operand.args[1].attr
        raise Untranslatable("guard " + ast.unparse(test))

    def one(stmt, guard):
        if isinstance(stmt, ast.Expr) and isinstance(stmt.value, ast.Yield):
            t = stmt.value.value
            if isinstance(t, ast.Tuple) and len(t.elts) == 2 and all(isinstance(e, ast.Attribute) for e in t.elts):
                items.append(('point', t.elts[0].attr, t.elts[1].attr, guard))
                return
        if isinstance(stmt, ast.For) and isinstance(stmt.iter, ast.Call) and ast.unparse(stmt.iter.func) == 'np.linspace':
            a, b = stmt.iter.args[0].attr, stmt.iter.args[1].attr
            cnt = ast.unparse(stmt.iter.args[2])
            if cnt != 'Config.GROOVE_RADIUS_POINT_COUNT':
                raise Untranslatable("sample count " + cnt)
            if guard is None or set(guard) != {a, b}:
                raise Untranslatable("segment guard does not test its own end points")
            y = stmt.body[0].value.value
            if not (len(stmt.body) == 1 and isinstance(y, ast.Tuple) and ast.unparse(y.elts[0]) == stmt.target.id
                    and isinstance(y.elts[1], ast.Call) and ast.unparse(y.elts[1].args[0]) == stmt.target.id):
                raise Untranslatable("segment body " + ast.unparse(stmt))
            items.append(('seg', a, b, y.elts[1].func.attr))
            return
        raise Untranslatable("statement in _enumerate_contour_points: " + ast.unparse(stmt)[:80])
    for stmt in en.body:
        if isinstance(stmt, ast.If):
            if stmt.orelse or len(stmt.body) != 1:
                raise Untranslatable("if with else / several statements")
            one(stmt.body[0], isclose_guard(stmt.test))
        else:
            one(stmt, None)
    # the assembly of the full polyline
    asm = [ast.unparse(s) for s in init.body if isinstance(s, ast.Assign) and
           ast.unparse(s.targets[0]) in ('right_side', 'left_side', 'self._contour_points')]
    asm += [ast.unparse(s) for s in init.body if isinstance(s, ast.AugAssign) and 'left_side' in ast.unparse(s.target)]
    expect = ['right_side = np.array(list(self._enumerate_contour_points()))', 'left_side = right_side[:-1].copy()',
              'self._contour_points = np.concatenate([left_side, right_side[::-1]])', 'left_side[:, 0] *= -1']
    if asm != expect:
        raise Untranslatable("assembly of the polyline changed: " + repr(asm))
    return dict(junctions=junctions, funcs=funcs, pieces=pieces, default=default, segments=segments, points=points, items=items)


def generate(repo_root=os.environ.get('VERIF_REPO', '/repo')):
    d = translate(repo_root)
    L = ["(* GENERATED by tools/py2coq/groove_td.py from generic_elongation.py. Do not edit. *)",
         "From PyrollLib Require Import Expr Groove.", "Open Scope string_scope.", ""]
    for k, v in d['junctions'].items():
        if k in ('r1', 'r2', 'r3', 'r4', 'alpha3', 'alpha4', 'indent', 'even_ground_width', 'usable_width', 'ground_width', 'flank_angle',
                 'depth', 'pad_angle'):
            continue
        L.append(f"Definition g_{k} : expr := {to_coq(v)}.")
    L.append("")
    for k, v in d['funcs'].items():
        body = "(CstZ 0%Z)" if v == ('z', 0) else to_coq(v)
        L.append(f"Definition f{k} : expr := {body}.")
    L.append("")
    j = lambda n: "None" if n is None else f"(Some g_{n})"
    L.append("Definition depth_pieces : list (option expr * option expr * expr) := [" +
             "; ".join(f"({j(lo)}, {j(hi)}, f{f})" for lo, hi, f in d['pieces']) + "].")
    L.append(f"Definition depth_default : expr := f{d['default']}.")
    L.append("Definition contour_segments : list (expr * expr * expr) := [" +
             "; ".join(f"(g_{a}, g_{b}, f{f})" for a, b, f in d['segments']) + "].")
    L.append("Definition contour_points_explicit : list (expr * expr) := [" +
             "; ".join(f"(g_{a}, g_{b})" for a, b in d['points']) + "].")
    def item(it):
        if it[0] == 'point':
            g = "None" if it[3] is None else f"(Some (g_{it[3][0]}, g_{it[3][1]}))"
            return f"CPoint g_{it[1]} g_{it[2]} {g}"
        return f"CSeg g_{it[1]} g_{it[2]} f{it[3]}"
    L.append("Definition contour_items : list citem := [" + "; ".join(item(i) for i in d['items']) + "].")
    return "\n".join(L) + "\n", d
