"""Fragment T-G: pyroll/core/config.py -> Gen_config.v (gen_params).
Extracts (fail closed): the order of the type tests in ConfigValue.parse, the order of the
sources in ConfigValue.__get__, and the mode of ConfigMeta.update."""
import ast
import os
from .ir import Untranslatable


def _find(tree, cls, fn):
    for n in tree.body:
        if isinstance(n, ast.ClassDef) and n.name == cls:
            for m in n.body:
                if isinstance(m, ast.FunctionDef) and m.name == fn:
                    return m
    raise Untranslatable(f"{cls}.{fn} not found")


def _is_self_attr(n, attr):
    return isinstance(n, ast.Attribute) and n.attr == attr and isinstance(n.value, ast.Name) and n.value.id == 'self'


def parse_dispatch(fn):
    kinds, parser_first, fallback = [], False, False
    body = [s for s in fn.body if not (isinstance(s, ast.Expr) and isinstance(s.value, ast.Constant))]
    for idx, s in enumerate(body):
        if isinstance(s, ast.If):
            t = s.test
            if _is_self_attr(t, 'parser'):
                if idx != 0:
                    raise Untranslatable("custom parser is not consulted first")
                parser_first = True
                continue
            if isinstance(t, ast.Compare) and len(t.ops) == 1 and isinstance(t.ops[0], ast.Is) and _is_self_attr(t.left, 'type'):
                name = t.comparators[0].id if isinstance(t.comparators[0], ast.Name) else None
                k = {'bool': 'KBool', 'Path': 'KPath', 'str': 'KStr'}.get(name)
                if k is None:
                    raise Untranslatable(f"type test on {name}")
                kinds.append(k)
                continue
            if (isinstance(t, ast.Call) and isinstance(t.func, ast.Name) and t.func.id == 'issubclass'
                    and _is_self_attr(t.args[0], 'type')):
                a = t.args[1]
                name = a.attr if isinstance(a, ast.Attribute) else a.id
                k = {'Enum': 'KEnum', 'Mapping': 'KMapping', 'Iterable': 'KIterable'}.get(name)
                if k is None:
                    raise Untranslatable(f"issubclass test on {name}")
                kinds.append(k)
                continue
            raise Untranslatable("unrecognised test in parse")
        if isinstance(s, ast.Return) and idx == len(body) - 1:
            v = s.value
            if isinstance(v, ast.Call) and _is_self_attr(v.func, 'type'):
                fallback = True
                continue
        raise Untranslatable("unrecognised statement in parse")
    if not (parser_first and fallback):
        raise Untranslatable("parse lacks parser-first or constructor fallback")
    return kinds


def enum_lookup(fn):
    """the spellings under which ConfigValue.parse looks a member name up, in source order: every subscript self.type[...] inside the Enum branch;
    the branch must try the member number (self.type(int(s))) first"""
    for st in fn.body:
        if (isinstance(st, ast.If) and isinstance(st.test, ast.Call) and isinstance(st.test.func, ast.Name) and st.test.func.id == 'issubclass'
                and 'Enum' in ast.unparse(st.test.args[1])):
            subs = sorted((n for n in ast.walk(st) if isinstance(n, ast.Subscript) and _is_self_attr(n.value, 'type')), key=lambda n: (n.lineno, n.col_offset))
            calls = sorted((n for n in ast.walk(st) if isinstance(n, ast.Call) and _is_self_attr(n.func, 'type')), key=lambda n: (n.lineno, n.col_offset))
            if len(calls) != 1 or ast.unparse(calls[0]) != 'self.type(int(s))' or not subs or (calls[0].lineno, calls[0].col_offset) > (subs[0].lineno, subs[0].col_offset):
                raise Untranslatable("enum branch does not try the member number first")
            if not (len(st.body) == 1 and isinstance(st.body[0], ast.Try)) or any(isinstance(n, (ast.For, ast.While, ast.Assign)) for n in ast.walk(st)):
                raise Untranslatable("enum branch is not a chain of try/except lookups")
            out = []
            for n in subs:
                k = {'s': 'NExact', 's.upper()': 'NUpper', 's.lower()': 'NLower'}.get(ast.unparse(n.slice))
                if k is None:
                    raise Untranslatable("enum member looked up as " + ast.unparse(n.slice))
                out.append(k)
            return out
    raise Untranslatable("no Enum branch in parse")


def get_order(fn):
    order = []
    for s in fn.body:
        src = ast.unparse(s)
        if isinstance(s, ast.If) and 'instance is None' in src:
            continue
        if isinstance(s, ast.Assign) and 'getattr(instance' in src and "'_'" in src.replace('"', "'"):
            order.append('SExplicit')
        elif isinstance(s, ast.Assign) and 'os.getenv' in src:
            order.append('SEnv')
        elif isinstance(s, ast.If) and 'value is not None' in ast.unparse(s.test):
            if not order:
                raise Untranslatable("test before any source")
            inner = ast.unparse(s.body[-1])
            if order[-1] == 'SEnv' and 'self.parse(value)' not in inner:
                raise Untranslatable("environment text is not parsed")
            if order[-1] == 'SExplicit' and inner.strip() != 'return value':
                raise Untranslatable("explicit value is not returned as is")
        elif isinstance(s, ast.Return) and ast.unparse(s.value) == 'self.default':
            order.append('SDefault')
        else:
            raise Untranslatable("unrecognised statement in __get__: " + src[:60])
    return order


def update_mode(fn):
    raises, validates_first, seen_set = False, False, False
    for s in fn.body:
        for n in ast.walk(s):
            if isinstance(n, ast.Call) and isinstance(n.func, ast.Name) and n.func.id == 'setattr':
                seen_set = True
        has_raise = any(isinstance(n, ast.Raise) for n in ast.walk(s))
        if has_raise:
            raises = True
            has_set_here = any(isinstance(n, ast.Call) and isinstance(n.func, ast.Name) and n.func.id == 'setattr'
                               for n in ast.walk(s))
            if not seen_set and not has_set_here:
                validates_first = True
    return raises, validates_first


def generate(repo_root=os.environ.get('VERIF_REPO', '/repo')):
    path = os.path.join(repo_root, 'pyroll/core/config.py')
    tree = ast.parse(open(path).read())
    kinds = parse_dispatch(_find(tree, 'ConfigValue', 'parse'))
    lookup = enum_lookup(_find(tree, 'ConfigValue', 'parse'))
    order = get_order(_find(tree, 'ConfigValue', '__get__'))
    raises, vf = update_mode(_find(tree, 'ConfigMeta', 'update'))
    b = lambda x: 'true' if x else 'false'
    txt = ("(* GENERATED by tools/py2coq/config_tg.py from pyroll/core/config.py. Do not edit. *)\n"
           "From PyrollLib Require Import Config.\n"
           f"Definition gen_params : params :=\n  {{| p_dispatch := [{'; '.join(kinds)}];\n"
           f"     p_order := [{'; '.join(order)}];\n     p_update_raises := {b(raises)};\n"
           f"     p_update_validates_first := {b(vf)} |}}.\n"
           f"Definition gen_enum_lookup : list nametr := [{'; '.join(lookup)}].\n")
    return txt, {'dispatch': kinds, 'order': order, 'enum_lookup': lookup, 'update_raises': raises, 'update_validates_first': vf}
