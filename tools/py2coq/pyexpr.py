"""Python ast -> IR for the arithmetic/guard fragment (fail closed: anything else raises
Untranslatable and the enclosing fragment becomes opaque)."""
import ast
from .ir import Untranslatable, const_of_float

NP_FUNCS = {'sqrt': 'sqrt', 'abs': 'abs', 'absolute': 'abs', 'fabs': 'abs', 'log': 'ln', 'log2': 'log2',
            'exp': 'exp', 'sin': 'sin', 'cos': 'cos', 'tan': 'tan', 'arcsin': 'asin', 'arccos': 'acos',
            'arctan': 'atan', 'asin': 'asin', 'acos': 'acos', 'atan': 'atan'}
BINOPS = {ast.Add: 'add', ast.Sub: 'sub', ast.Mult: 'mul', ast.Div: 'div'}
HAS_METHODS = ('has_value', 'has_set', 'has_cached', 'has_set_or_cached')


def attr_path(node, roots):
    """Return dotted path for an attribute/subscript chain rooted at one of `roots`
    (dict name -> prefix string), or None."""
    parts = []
    n = node
    while True:
        if isinstance(n, ast.Attribute):
            parts.append('.' + n.attr)
            n = n.value
        elif isinstance(n, ast.Subscript) and isinstance(n.slice, ast.Constant) and isinstance(n.slice.value, int):
            parts.append(f'[{n.slice.value}]')
            n = n.value
        elif isinstance(n, ast.Name) and n.id in roots:
            p = roots[n.id] + ''.join(reversed(parts))
            return p.lstrip('.')
        else:
            return None


class ExprTr:
    def __init__(self, roots, lets=None):
        self.roots = roots          # e.g. {'self': '', 'Config': 'Config'}
        self.lets = dict(lets or {})

    def expr(self, n):
        if isinstance(n, ast.Constant):
            return const_of_float(n.value)
        if isinstance(n, ast.Name):
            if n.id in self.lets:
                return self.lets[n.id]
            raise Untranslatable(f"free name {n.id}")
        if isinstance(n, ast.BinOp):
            if type(n.op) in BINOPS:
                return (BINOPS[type(n.op)], self.expr(n.left), self.expr(n.right))
            if isinstance(n.op, ast.Pow):
                if isinstance(n.right, ast.Constant) and isinstance(n.right.value, int) and 0 <= n.right.value <= 8:
                    return ('pow', self.expr(n.left), n.right.value)
                raise Untranslatable("non-natural exponent")
            raise Untranslatable(f"binop {type(n.op).__name__}")
        if isinstance(n, ast.UnaryOp):
            if isinstance(n.op, ast.USub):
                return ('neg', self.expr(n.operand))
            if isinstance(n.op, ast.UAdd):
                return self.expr(n.operand)
            raise Untranslatable("unary op")
        if isinstance(n, ast.Attribute):
            if isinstance(n.value, ast.Name) and n.value.id in ('np', 'math', 'numpy') and n.attr == 'pi':
                return ('pi',)
            p = attr_path(n, self.roots)
            if p is not None:
                return ('var', p)
            raise Untranslatable("attribute on non-path")
        if isinstance(n, ast.Subscript):
            p = attr_path(n, self.roots)
            if p is not None:
                return ('var', p)
            raise Untranslatable("subscript")
        if isinstance(n, ast.Call):
            f = n.func
            if n.keywords:
                raise Untranslatable("keyword call")
            if isinstance(f, ast.Attribute) and isinstance(f.value, ast.Name) and f.value.id in ('np', 'math', 'numpy'):
                if f.attr in NP_FUNCS and len(n.args) == 1:
                    return (NP_FUNCS[f.attr], self.expr(n.args[0]))
                if f.attr in ('deg2rad', 'radians') and len(n.args) == 1:
                    return ('div', ('mul', self.expr(n.args[0]), ('pi',)), ('z', 180))
                raise Untranslatable(f"np.{f.attr}")
            if isinstance(f, ast.Name) and f.id == 'abs' and len(n.args) == 1:
                return ('abs', self.expr(n.args[0]))
            if isinstance(f, ast.Name) and f.id in ('min', 'max') and len(n.args) == 2:
                return (f.id, self.expr(n.args[0]), self.expr(n.args[1]))
            if isinstance(f, ast.Name) and f.id == 'float' and len(n.args) == 1:
                return self.expr(n.args[0])
            raise Untranslatable("call")
        raise Untranslatable(type(n).__name__)

    # ---- guards: returns a list of atoms (a conjunction) -------------------------------
    def guard(self, n):
        if isinstance(n, ast.BoolOp) and isinstance(n.op, ast.And):
            out = []
            for v in n.values:
                out += self.guard(v)
            return out
        if isinstance(n, ast.UnaryOp) and isinstance(n.op, ast.Not):
            g = self.guard(n.operand)
            if len(g) != 1:
                raise Untranslatable("negated conjunction")
            return [self.negate(g[0])]
        if isinstance(n, ast.Name) and n.id == 'cycle':
            return [('atom', 'cycle', '')]
        if isinstance(n, ast.Call):
            f = n.func
            if (isinstance(f, ast.Attribute) and f.attr in HAS_METHODS and len(n.args) == 1
                    and isinstance(n.args[0], ast.Constant) and isinstance(n.args[0].value, str)):
                base = attr_path(f.value, self.roots)
                if base is None:
                    raise Untranslatable("has_* on non-path")
                arg = (base + '.' if base else '') + n.args[0].value
                return [('atom', f.attr, arg)]
            if (isinstance(f, ast.Name) and f.id == 'hasattr' and len(n.args) == 2
                    and isinstance(n.args[1], ast.Constant) and isinstance(n.args[1].value, str)):
                base = attr_path(n.args[0], self.roots)
                if base is None:
                    raise Untranslatable("hasattr on non-path")
                return [('atom', 'hasattr', (base + '.' if base else '') + n.args[1].value)]
            if isinstance(f, ast.Name) and f.id == 'isinstance' and len(n.args) == 2 and isinstance(n.args[1], ast.Name):
                base = attr_path(n.args[0], self.roots)
                if base is None:
                    raise Untranslatable("isinstance on non-path")
                return [('atom', 'isinstance', base + ':' + n.args[1].id)]
            raise Untranslatable("guard call")
        if isinstance(n, ast.Compare) and len(n.ops) == 1 and isinstance(n.ops[0], (ast.In, ast.NotIn)):
            if isinstance(n.left, ast.Constant) and isinstance(n.left.value, str):
                base = attr_path(n.comparators[0], self.roots)
                if base is None:
                    raise Untranslatable("in on non-path")
                a = ('atom', 'in', base + ':' + n.left.value)
                return [a if isinstance(n.ops[0], ast.In) else self.negate(a)]
        raise Untranslatable("guard " + type(n).__name__)

    @staticmethod
    def negate(a):
        return ('not' if a[0] == 'atom' else 'atom', a[1], a[2])


def is_none(n):
    return n is None or (isinstance(n, ast.Constant) and n.value is None)


def paths_of(stmts, tr, guard):
    """Symbolic execution of a straight-line / if-structured body.
    Returns list of (guard_atoms, expr) for the paths returning a non-None expression.
    Paths are mutually exclusive by construction."""
    if not stmts:
        return []
    s, rest = stmts[0], stmts[1:]
    if isinstance(s, ast.Expr) and isinstance(s.value, ast.Constant) and isinstance(s.value.value, str):
        return paths_of(rest, tr, guard)          # docstring
    if isinstance(s, ast.Return):
        if is_none(s.value):
            return []
        if isinstance(s.value, ast.IfExp):
            return split_ifexp(s.value, tr, guard, lambda e, tr2, g2: [(g2, e)])
        return [(guard, tr.expr(s.value))]
    if isinstance(s, (ast.Assign, ast.AnnAssign)):
        tgt = s.targets[0] if isinstance(s, ast.Assign) else s.target
        if isinstance(s, ast.Assign) and len(s.targets) != 1:
            raise Untranslatable("multi-assign")
        if not isinstance(tgt, ast.Name):
            raise Untranslatable("assign to non-name")
        if isinstance(s.value, ast.IfExp):
            def cont(e, tr2, g2):
                tr3 = ExprTr(tr2.roots, tr2.lets)
                tr3.lets[tgt.id] = e
                return paths_of(rest, tr3, g2)
            return split_ifexp(s.value, tr, guard, cont)
        tr2 = ExprTr(tr.roots, tr.lets)
        tr2.lets[tgt.id] = tr.expr(s.value)
        return paths_of(rest, tr2, guard)
    if isinstance(s, ast.If):
        atoms = tr.guard(s.test)
        out = paths_of(list(s.body) + list(rest), tr, guard + atoms) if not ends_with_return(s.body) \
            else paths_of(list(s.body), tr, guard + atoms)
        # complement of the conjunction a1..an as an exact partition
        for i in range(len(atoms)):
            g = guard + atoms[:i] + [ExprTr.negate(atoms[i])]
            out += paths_of(list(s.orelse) + list(rest), tr, g) if not ends_with_return(s.orelse) \
                else paths_of(list(s.orelse), tr, g)
        return out
    raise Untranslatable("statement " + type(s).__name__)


def split_ifexp(n, tr, guard, cont):
    atoms = tr.guard(n.test)
    out = cont(tr.expr(n.body), tr, guard + atoms)
    for i in range(len(atoms)):
        out += cont(tr.expr(n.orelse), tr, guard + atoms[:i] + [ExprTr.negate(atoms[i])])
    return out


def ends_with_return(body):
    return bool(body) and isinstance(body[-1], ast.Return)
