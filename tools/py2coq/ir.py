"""IR of the arithmetic fragment shared by all translator fragments.

expr  := ('var', path) | ('z', int) | ('q', num, den) | ('pi',)
       | (op2, a, b)  op2 in add sub mul div min max
       | (op1, a)     op1 in neg sqrt abs sin cos tan asin acos atan ln log2 exp
       | ('pow', a, n)
gatom := ('atom', kind, arg) | ('not', kind, arg)

Printed to Coq (Expr.v constructors) and evaluated in Python by an evaluator that is
independent of the real implementation (used by the mock-environment differential).
"""
import math
from fractions import Fraction

OP2 = {'add': 'Add', 'sub': 'Sub', 'mul': 'Mul', 'div': 'Div', 'min': 'Min', 'max': 'Max'}
OP1 = {'neg': 'Neg', 'sqrt': 'Sqrt', 'abs': 'Abs', 'sin': 'Sin', 'cos': 'Cos', 'tan': 'Tan',
       'asin': 'Asin', 'acos': 'Acos', 'atan': 'Atan', 'ln': 'Ln', 'log2': 'Log2', 'exp': 'Exp'}


class Untranslatable(Exception):
    pass


def coq_string(s):
    return '"' + s.replace('"', '""') + '"'


def coq_z(n):
    return f"({n})%Z" if n < 0 else f"{n}%Z"


def to_coq(e):
    t = e[0]
    if t == 'var':
        return f"(Var {coq_string(e[1])})"
    if t == 'z':
        return f"(CstZ {coq_z(e[1])})"
    if t == 'q':
        return f"(CstQ {coq_z(e[1])} {e[2]}%positive)"
    if t == 'pi':
        return "CPi"
    if t in OP2:
        return f"({OP2[t]} {to_coq(e[1])} {to_coq(e[2])})"
    if t in OP1:
        return f"({OP1[t]} {to_coq(e[1])})"
    if t == 'pow':
        return f"(PowN {to_coq(e[1])} {e[2]}%nat)"
    raise ValueError(e)


def gatom_to_coq(a):
    c = 'GAtom' if a[0] == 'atom' else 'GNot'
    return f"({c} {coq_string(a[1])} {coq_string(a[2])})"


def vars_of(e, acc=None):
    acc = set() if acc is None else acc
    if e[0] == 'var':
        acc.add(e[1])
    else:
        for x in e[1:]:
            if isinstance(x, tuple):
                vars_of(x, acc)
    return acc


def evaluate(e, rho):
    """Independent evaluator in Python floats. rho: path -> float."""
    t = e[0]
    if t == 'var':
        return rho[e[1]]
    if t == 'z':
        return e[1]
    if t == 'q':
        return e[1] / e[2]
    if t == 'pi':
        return math.pi
    if t in OP2:
        a, b = evaluate(e[1], rho), evaluate(e[2], rho)
        if t == 'add':
            return a + b
        if t == 'sub':
            return a - b
        if t == 'mul':
            return a * b
        if t == 'div':
            return a / b
        if t == 'min':
            return min(a, b)
        return max(a, b)
    if t == 'pow':
        return evaluate(e[1], rho) ** e[2]
    a = evaluate(e[1], rho)
    if t == 'neg':
        return -a
    if t == 'sqrt':
        return math.sqrt(a)
    if t == 'abs':
        return abs(a)
    if t == 'ln':
        return math.log(a)
    if t == 'log2':
        return math.log2(a)
    return getattr(math, t)(a)


def guard_holds(guard, atoms):
    """atoms: (kind, arg) -> bool"""
    for a in guard:
        v = atoms[(a[1], a[2])]
        if (a[0] == 'atom') != bool(v):
            return False
    return True


def const_of_float(x):
    if isinstance(x, bool):
        raise Untranslatable("bool constant")
    if isinstance(x, int):
        return ('z', x)
    if isinstance(x, float):
        if not math.isfinite(x):
            raise Untranslatable("non-finite constant")
        f = Fraction(repr(x))
        if f.denominator == 1:
            return ('z', f.numerator)
        return ('q', f.numerator, f.denominator)
    raise Untranslatable(f"constant {x!r}")
