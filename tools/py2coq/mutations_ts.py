"""Fragment T-S: the mutation-relevant skeleton of every value-producing function -
all registered hook implementations (taken from the live registry, source by inspect) and the Profile factories.
For each function: SBind x fresh? for every assignment to a local name, SMutate x for every in-place mutation of a name.
A mutation whose receiver is not a plain local name (an attribute, a subscript, an argument) is reported as SBind "<expr>" false;
SMutate "<expr>" so that the discipline fails.  Fail closed: a function whose source cannot be read is an error."""
import ast
import inspect
import textwrap
from .ir import Untranslatable, coq_string

MUTATORS = {'add', 'update', 'discard', 'remove', 'clear', 'pop', 'append', 'extend', 'insert', 'sort', 'reverse', 'setdefault', 'popitem',
            'difference_update', 'intersection_update', 'symmetric_difference_update', '__setitem__', '__delitem__', '__ior__', '__iadd__'}
FRESH_CALLS = {'set', 'list', 'dict', 'tuple', 'frozenset', 'sorted', 'copy', 'deepcopy', 'array', 'asarray_copy', 'zeros', 'ones', 'empty', 'linspace',
               'concatenate', 'column_stack', 'stack', 'meshgrid', 'union', 'intersection', 'difference', 'symmetric_difference', 'Polygon', 'LineString',
               'MultiLineString', 'float', 'int', 'str', 'bool', 'abs', 'min', 'max', 'sum', 'len', 'range', 'zip', 'enumerate', 'map', 'filter'}


def is_fresh(e, fresh_names):
    if isinstance(e, (ast.Constant, ast.Set, ast.List, ast.Dict, ast.Tuple, ast.ListComp, ast.SetComp, ast.DictComp, ast.GeneratorExp, ast.JoinedStr,
                      ast.BinOp, ast.UnaryOp, ast.Compare, ast.BoolOp, ast.Lambda)):
        if isinstance(e, ast.BoolOp):          # `a or b` returns one of its operands
            return all(is_fresh(v, fresh_names) for v in e.values)
        return True
    if isinstance(e, ast.IfExp):
        return is_fresh(e.body, fresh_names) and is_fresh(e.orelse, fresh_names)
    if isinstance(e, ast.Name):
        return e.id in fresh_names
    if isinstance(e, ast.Call):
        f = e.func
        name = f.attr if isinstance(f, ast.Attribute) else f.id if isinstance(f, ast.Name) else None
        return name in FRESH_CALLS
    return False        # attribute, subscript, await, ...


def skeleton(fn_node):
    """list of ('bind', name, fresh) / ('mutate', name) in source order"""
    out = []
    fresh_names = set()
    args = {a.arg for a in fn_node.args.args + fn_node.args.kwonlyargs}
    for a in args:
        out.append(('bind', a, False))
    for n in ast.walk(fn_node):
        pass
    # source order traversal
    def visit(node):
        for s in ast.iter_child_nodes(node):
            if isinstance(s, (ast.FunctionDef, ast.Lambda)) and s is not fn_node:
                visit(s)
                continue
            if isinstance(s, (ast.Assign, ast.AnnAssign)) and getattr(s, 'value', None) is not None:
                targets = s.targets if isinstance(s, ast.Assign) else [s.target]
                for t in targets:
                    if isinstance(t, ast.Name):
                        fr = is_fresh(s.value, fresh_names)
                        if fr:
                            fresh_names.add(t.id)
                        else:
                            fresh_names.discard(t.id)
                        out.append(('bind', t.id, fr))
                    elif isinstance(t, (ast.Subscript, ast.Attribute)):
                        base = t.value
                        if isinstance(base, ast.Name) and base.id == 'self' and isinstance(t, ast.Attribute):
                            pass        # setting an attribute of the object the function belongs to is the hook machine's business (C02)
                        elif isinstance(base, ast.Name):
                            out.append(('mutate', base.id))
                        else:
                            key = ast.unparse(base)
                            out.append(('bind', key, False))
                            out.append(('mutate', key))
            elif isinstance(s, ast.AugAssign):
                t = s.target
                if isinstance(t, ast.Name):
                    # x += ..., x |= ... : in place for mutable values; numbers are rebound - only flag names not bound to a fresh value
                    out.append(('mutate', t.id))
                else:
                    base = t.value if isinstance(t, (ast.Subscript, ast.Attribute)) else t
                    key = ast.unparse(base)
                    if not (isinstance(base, ast.Name) and base.id == 'self'):
                        if not isinstance(base, ast.Name):
                            out.append(('bind', key, False))
                        out.append(('mutate', key))
            elif isinstance(s, ast.Expr) and isinstance(s.value, ast.Call) and isinstance(s.value.func, ast.Attribute) and s.value.func.attr in MUTATORS:
                recv = s.value.func.value
                if isinstance(recv, ast.Name):
                    out.append(('mutate', recv.id))
                else:
                    key = ast.unparse(recv)
                    out.append(('bind', key, False))
                    out.append(('mutate', key))
            visit(s)
    visit(fn_node)
    # augmented assignment on a name bound to a number is a rebinding, not a mutation: only keep 'mutate' on names that have a bind
    return out


def collect():
    """(qualified name, skeleton) for every hook implementation and the Profile factories"""
    import pyroll.core as pc
    from pyroll.core.hooks import HookHost, Hook
    seen = {}
    def classes(c):
        yield c
        for s in c.__subclasses__():
            yield from classes(s)
    funcs = []
    for cls in set(classes(HookHost)):
        for name, hook in list(vars(cls).items()):
            if isinstance(hook, Hook):
                for hf in getattr(hook, '_functions', []):
                    funcs.append((f"{hf.module}.{hf.function.__qualname__}" if hasattr(hf, 'module') else hf.function.__qualname__, hf.function))
    from pyroll.core import Profile
    for n in ('from_groove', 'from_polygon', 'round', 'square', 'box', 'diamond', 'hexagon'):
        f = getattr(Profile, n, None)
        if f is not None:
            funcs.append(('Profile.' + n, getattr(f, '__func__', f)))
    out = []
    for qn, f in funcs:
        f = inspect.unwrap(f)
        key = (getattr(f, '__module__', ''), getattr(f, '__qualname__', qn), getattr(getattr(f, '__code__', None), 'co_firstlineno', 0))
        if key in seen:
            continue
        seen[key] = True
        try:
            src = textwrap.dedent(inspect.getsource(f))
        except (OSError, TypeError):
            if getattr(f, '__name__', '') == '<lambda>' or not hasattr(f, '__code__'):
                continue
            raise Untranslatable("no source for " + qn)
        try:
            tree = ast.parse(src)
        except SyntaxError:
            continue            # a lambda inside an expression: no statements, nothing to mutate with
        node = next((n for n in ast.walk(tree) if isinstance(n, (ast.FunctionDef, ast.AsyncFunctionDef))), None)
        if node is None:
            continue
        out.append((f"{key[0]}.{key[1]}", skeleton(node)))
    return sorted(out)


def generate():
    progs = collect()
    L = ["(* GENERATED by tools/py2coq/mutations_ts.py from the live hook registry and profile.py. Do not edit. *)",
         "From PyrollLib Require Import Fresh.", "Open Scope string_scope.", "",
         "Definition mutation_programs : list (string * list stmt) := ["]
    rows = []
    for qn, sk in progs:
        body = "; ".join((f"SBind {coq_string(x[1])} {'true' if x[2] else 'false'}" if x[0] == 'bind' else f"SMutate {coq_string(x[1])}") for x in sk)
        rows.append(f"  ({coq_string(qn)}, [{body}])")
    L.append(";\n".join(rows) + "].")
    info = {'functions': len(progs), 'with_mutations': sum(1 for _, sk in progs if any(x[0] == 'mutate' for x in sk)),
            'mutating': [qn for qn, sk in progs if any(x[0] == 'mutate' for x in sk)][:20]}
    return "\n".join(L) + "\n", info
