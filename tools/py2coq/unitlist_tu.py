"""Fragment T-U: pyroll/core/unit/unit.py (Unit._SubUnitsList) and the list-editing methods of PassSequence -> Gen_unitlist.v.
Every list-editing method is read as a sequence of primitive effects in SOURCE order (fail closed):
  EList    a call of the inherited list method (super().append(...), super().__setitem__(...), ...)
  EDetach  `u.parent = None`            for one unit or for every unit of a collection
  EAttach  `u.parent = self._owner()`   likewise
An `if isinstance(...)` splits a method into a ':slice' and an ':item' variant.  Which collection is released / adopted is checked
against a role table (the released units are the ones that were listed, the adopted ones the ones that were passed in)."""
import ast
import os
from .ir import Untranslatable

ROLES = {   # method -> (released variable, adopted variable)
    '__init__': (None, 'self'), 'append': (None, 'unit'), 'extend': (None, 'units'), 'insert': (None, 'unit'),
    'pop': ('unit', None), 'remove': ('unit', None), 'clear': ('self', None),
    '__setitem__': ('current', 'value'), '__delitem__': ('current', None),
}
NEUTRAL = {'units = list(units)', 'value = list(value)', 'current = self[i]', 'self._owner = weakref.ref(owner)', 'return unit', 'return self'}
DELEGATES = {   # methods that only delegate: their whole body (without docstring)
    '__iadd__': ['self.extend(units)', 'return self'],
    'copy': ['return type(self)(self._owner(), self)'],
}
SEQUENCE = {    # PassSequence: method -> body
    'prepend': ['self._subunits.insert(0, unit)'],
    'append': ['self._subunits.append(unit)'],
    'drop': ['del self._subunits[index]'],
}


def _body(fn):
    return [s for s in fn.body if not (isinstance(s, ast.Expr) and isinstance(s.value, ast.Constant))]


def _is_super_call(node):
    return (isinstance(node, ast.Call) and isinstance(node.func, ast.Attribute) and isinstance(node.func.value, ast.Call)
            and isinstance(node.func.value.func, ast.Name) and node.func.value.func.id == 'super' and not node.func.value.args)


def _parent_assign(s, loopvar=None):
    """`X.parent = None` / `X.parent = self._owner()` / `X.parent = owner` -> ('EDetach'|'EAttach', X)"""
    if not (isinstance(s, ast.Assign) and len(s.targets) == 1 and isinstance(s.targets[0], ast.Attribute) and s.targets[0].attr == 'parent'
            and isinstance(s.targets[0].value, ast.Name)):
        return None
    v = ast.unparse(s.value)
    if v == 'None':
        return 'EDetach', s.targets[0].value.id
    if v in ('self._owner()', 'owner'):
        return 'EAttach', s.targets[0].value.id
    raise Untranslatable(f"parent set to {v}")


def _effects(name, stmts):
    """-> list of variants, each a list of (effect, variable)"""
    variants = [[]]
    for s in stmts:
        src = ast.unparse(s)
        if src in NEUTRAL:
            continue
        pa = _parent_assign(s)
        if pa:
            for v in variants:
                v.append(pa)
            continue
        if isinstance(s, ast.For) and isinstance(s.target, ast.Name) and isinstance(s.iter, ast.Name) and len(s.body) == 1 and not s.orelse:
            pa = _parent_assign(s.body[0])
            if pa and pa[1] == s.target.id:
                for v in variants:
                    v.append((pa[0], s.iter.id))
                continue
        call = s.value if isinstance(s, (ast.Expr, ast.Return, ast.Assign)) else None
        if call is not None and _is_super_call(call):
            if call.func.attr != name and not (name == '__init__' and call.func.attr == '__init__'):
                raise Untranslatable(f"{name} calls the inherited {call.func.attr}")
            for v in variants:
                v.append(('EList', None))
            continue
        if isinstance(s, ast.If) and ast.unparse(s.test).startswith('isinstance('):
            if len(variants) != 1 and any(variants):
                pass
            a, b = _effects(name, s.body), _effects(name, s.orelse)
            if len(a) != 1 or len(b) != 1 or not s.orelse:
                raise Untranslatable(f"nested branches in {name}")
            variants = [v + a[0] for v in variants] + [v + b[0] for v in variants]
            continue
        raise Untranslatable(f"unrecognised statement in _SubUnitsList.{name}: {src[:70]}")
    return variants


def generate(repo_root=os.environ.get('VERIF_REPO', '/repo')):
    tree = ast.parse(open(os.path.join(repo_root, 'pyroll/core/unit/unit.py')).read())
    unit = next((n for n in tree.body if isinstance(n, ast.ClassDef) and n.name == 'Unit'), None)
    lst = next((n for n in (unit.body if unit else []) if isinstance(n, ast.ClassDef) and n.name == '_SubUnitsList'), None)
    if lst is None or [ast.unparse(b) for b in lst.bases] != ['list']:
        raise Untranslatable("Unit._SubUnitsList(list) not found")
    methods = {m.name: m for m in lst.body if isinstance(m, ast.FunctionDef)}
    table = []
    for name, (rel, ado) in ROLES.items():
        if name not in methods:
            raise Untranslatable(f"_SubUnitsList.{name} is not overridden: the inherited list method sets no parent")
        vs = _effects(name, _body(methods[name]))
        if len(vs) not in (1, 2):
            raise Untranslatable(f"{name}: {len(vs)} variants")
        for k, v in enumerate(vs):
            for eff, var in v:
                want = rel if eff == 'EDetach' else ado if eff == 'EAttach' else None
                if eff != 'EList' and var != want:
                    raise Untranslatable(f"{name}: {eff} acts on `{var}`, the model releases `{rel}` and adopts `{ado}`")
            table.append((name if len(vs) == 1 else f"{name}:{'slice' if k == 0 else 'item'}", [e for e, _ in v]))
    for name, body in DELEGATES.items():
        if name not in methods or [ast.unparse(s) for s in _body(methods[name])] != body:
            raise Untranslatable(f"_SubUnitsList.{name} is not the delegation the model assumes ({'; '.join(body)})")
    # __deepcopy__: the copy's list is owned by the COPY of the owner (taken from the memo or made now) and filled element by element through the adopting
    # `append` of the result, so every element of the copy is adopted by the copy's owner: its effect per element is `append`'s
    dc = methods.get('__deepcopy__')
    if dc is None:
        raise Untranslatable("_SubUnitsList.__deepcopy__ is not overridden: list's own deep copy keeps no owner")
    body = [ast.unparse(x) for x in _body(dc)]
    want = ['cls = self.__class__', 'result = cls.__new__(cls)', 'o = self._owner()',
            'if id(o) in memo:\n    result._owner = weakref.ref(memo[id(o)])\nelse:\n    result._owner = weakref.ref(copy.deepcopy(o, memo))',
            'for e in self:\n    result.append(copy.deepcopy(e, memo))', 'return result']
    if body != want:
        diff = next((f"`{b[:60]}` where `{w[:60]}` is modelled" for b, w in zip(body, want) if b != w), f"{len(body)} statements, {len(want)} modelled")
        raise Untranslatable(f"_SubUnitsList.__deepcopy__ is not the construction the model assumes (owner := copy of the owner; every element added through the "
                             f"adopting append of the copy): {diff}")
    table.append(('__deepcopy__:element', dict(table)['append']))
    # list methods that change membership but are NOT overridden would bypass the parent bookkeeping; those the model covers must be present,
    # anything else that is overridden must be known
    known = set(ROLES) | set(DELEGATES) | {'_repr_html_', '__deepcopy__'}
    extra = set(methods) - known
    if extra:
        raise Untranslatable(f"_SubUnitsList overrides {sorted(extra)}: not modelled")
    seq_tree = ast.parse(open(os.path.join(repo_root, 'pyroll/core/sequence/sequence.py')).read())
    seq = next((n for n in seq_tree.body if isinstance(n, ast.ClassDef) and n.name == 'PassSequence'), None)
    smeth = {m.name: m for m in (seq.body if seq else []) if isinstance(m, ast.FunctionDef)}
    for name, body in SEQUENCE.items():
        if name not in smeth or [ast.unparse(s) for s in _body(smeth[name])] != body:
            raise Untranslatable(f"PassSequence.{name} is not the delegation the model assumes ({'; '.join(body)})")
    txt = ("(* GENERATED by tools/py2coq/unitlist_tu.py from pyroll/core/unit/unit.py. Do not edit. *)\n"
           "From PyrollLib Require Import UnitTree UnitEffects.\nFrom Coq Require Import String.\nOpen Scope string_scope.\n"
           "Definition gen_methods : list (string * list effect) :=\n  [" +
           ";\n   ".join(f'("{n}", [{"; ".join(e)}])' for n, e in table) + "].\n")
    return txt, {'methods': {n: e for n, e in table}}
