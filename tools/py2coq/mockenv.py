"""Mock-environment differential: validates the translator by running the REAL function object
on a synthetic attribute tree and comparing with the independent IR evaluator (ir.evaluate)."""
import math
import random
from .ir import vars_of, evaluate, guard_holds


class ClassifierSet:
    def __init__(self, path, atoms):
        self.path, self.atoms = path, atoms

    def __contains__(self, x):
        return bool(self.atoms.get(('in', f"{self.path}:{x}"), False))

    def __iter__(self):
        for (k, a), v in self.atoms.items():
            if k == 'in' and a.startswith(self.path + ':') and v:
                yield a.split(':', 1)[1]


class Node:
    def __getattribute__(self, name):
        if name.startswith('__') and name.endswith('__'):
            return object.__getattribute__(self, name)
        d = object.__getattribute__(self, '_mock')
        prefix, vals, atoms, glob = d
        full = f"{prefix}.{name}" if prefix else name
        if name in ('has_value', 'has_set', 'has_cached', 'has_set_or_cached'):
            return lambda n: bool(atoms[(name, f"{prefix}.{n}" if prefix else n)])
        if ('hasattr', full) in atoms and not atoms[('hasattr', full)]:
            raise AttributeError(full)
        if name == 'classifiers' and any(k == 'in' and a.startswith(full + ':') for (k, a) in atoms):
            return ClassifierSet(full, atoms)
        if full in vals:
            return vals[full]
        return make_node(full, vals, atoms, glob)

    def __getitem__(self, i):
        prefix, vals, atoms, glob = object.__getattribute__(self, '_mock')
        full = f"{prefix}[{i}]"
        if full in vals:
            return vals[full]
        return make_node(full, vals, atoms, glob)


def make_node(prefix, vals, atoms, glob):
    if not any(k.startswith(prefix + '.') or k.startswith(prefix + '[') for k in vals) and \
            not any(a.startswith(prefix + '.') or a.startswith(prefix + ':') for (_, a) in atoms) and prefix:
        raise AttributeError(prefix)
    cls = Node
    for (k, a), v in atoms.items():
        if k == 'isinstance' and a.split(':')[0] == prefix and v:
            target = glob.get(a.split(':')[1])
            if isinstance(target, type):
                cls = type('NodeI', (Node, target), {})
    n = object.__new__(cls)
    object.__setattr__(n, '_mock', (prefix, vals, atoms, glob))
    return n


def close(a, b, tol=1e-12):
    try:
        a, b = float(a), float(b)
    except (TypeError, ValueError):
        return False
    if math.isnan(a) and math.isnan(b):
        return True
    if math.isinf(a) or math.isinf(b):
        return a == b
    return abs(a - b) <= tol * max(1.0, abs(a), abs(b))


def validate_paths(fn, paths, takes_cycle, rng, trials=6, config_vals=None):
    """paths: list of (guard, expr). Returns (n_evaluations, list of disagreement dicts)."""
    allvars, allatoms = set(), set()
    for g, e in paths:
        vars_of(e, allvars)
        for a in g:
            allatoms.add((a[1], a[2]))
    bad, n = [], 0
    atom_list = sorted(allatoms)
    for t in range(trials):
        vals = {}
        for v in sorted(allvars):
            if v.startswith('Config.') and config_vals is not None and v in config_vals:
                vals[v] = config_vals[v]
            else:
                vals[v] = rng.choice([0.5, 0.75, 1.0, 1.25, 1.5, 2.0, 3.0]) + rng.random() / 8
        if t == 0:
            atoms = {a: (a[0] != 'cycle') for a in atom_list}
        else:
            atoms = {a: rng.random() < 0.6 for a in atom_list}
        model = None
        for g, e in paths:
            if guard_holds(g, atoms):
                try:
                    model = evaluate(e, vals)
                except (ValueError, ZeroDivisionError, OverflowError):
                    model = float('nan')
                break
        root = make_node('', {k: v for k, v in vals.items() if not k.startswith('Config.')}, atoms, fn.__globals__)
        kwargs = {'cycle': bool(atoms.get(('cycle', ''), False))} if takes_cycle else {}
        try:
            import warnings
            with warnings.catch_warnings():
                warnings.simplefilter('ignore')
                real = fn(root, **kwargs)
        except Exception as ex:  # the real function failed on the mock
            real = ('exc', type(ex).__name__, str(ex)[:100])
        n += 1
        ok = (real is None and model is None) or (real is not None and model is not None
                                                 and not isinstance(real, tuple) and close(real, model))
        if not ok:
            bad.append({'vals': vals, 'atoms': {f"{k}:{a}": v for (k, a), v in atoms.items()},
                        'real': repr(real), 'model': repr(model)})
    return n, bad
