"""Fragment T-E: the closed forms and residual functions of pyroll/core/grooves/generic_elongation_solvers.py,
DiamondGroove.__init__ and the three-of-four resolution of GenericElongationGroove.__init__ -> Gen_solvers.v.

What is translated (fail closed on anything else inside the recognised statements):
 * the three flank variants (fw, fh) and the tangent length l23 of solve_r124 / solve_r123 (both must define the same ones),
 * solve_r124: the residual of the "width is None" branch; the explicit formulas `width = ...`, `depth = ...` and `alpha4 = ...`,
 * solve_r123: the residual pair of the free-flank branch,
 * solve_box_like: alpha4 and the explicit formulas of every branch, the residual of the (usable_width, even_ground_width) branch,
 * DiamondGroove.__init__: alpha / tip_depth / usable_width of the three branches and depth,
 * GenericElongationGroove.__init__: the four formulas of the three-of-four resolution.
Root finders are not translated: a theorem about a residual says what any root of it implies."""
import ast
import os
from .ir import Untranslatable, to_coq
from .pyexpr import ExprTr


class Tr(ExprTr):
    def __init__(self, env, funcs=None):
        super().__init__({}, {})
        self.env = dict(env)
        self.funcs = funcs or {}

    def expr(self, n):
        if isinstance(n, ast.Name):
            if n.id in self.env:
                return self.env[n.id]
            raise Untranslatable("free name " + n.id)
        if isinstance(n, ast.Subscript) and isinstance(n.value, ast.Name) and isinstance(n.slice, ast.Constant):
            key = f"{n.value.id}[{n.slice.value}]"
            if key in self.env:
                return self.env[key]
            raise Untranslatable("subscript " + key)
        if isinstance(n, ast.Call) and isinstance(n.func, ast.Name) and n.func.id in self.funcs:
            f = self.funcs[n.func.id]
            if len(n.args) != 1 or n.keywords:
                raise Untranslatable("call of " + n.func.id)
            if isinstance(f, tuple) and f[0] == 'var':
                return f
            arg = self.expr(n.args[0])
            params, body, fenv = f
            return Tr(dict(fenv, **{params[0]: arg}), self.funcs).expr(body)
        return super().expr(n)


def _fn(tree, name, cls=None):
    body = tree.body
    if cls:
        for n in tree.body:
            if isinstance(n, ast.ClassDef) and n.name == cls:
                body = n.body
    for n in body:
        if isinstance(n, ast.FunctionDef) and n.name == name:
            return n
    raise Untranslatable(name + " not found")


def _single_return(fd):
    body = [s for s in fd.body if not (isinstance(s, ast.Expr) and isinstance(s.value, ast.Constant))]
    if len(body) != 1 or not isinstance(body[0], ast.Return):
        raise Untranslatable(fd.name + " is not a single return")
    return body[0].value


def _nested_defs(node, name):
    return [n for n in ast.walk(node) if isinstance(n, ast.FunctionDef) and n.name == name and n is not node]


def _find_if(stmts, test_src):
    for s in stmts:
        if isinstance(s, ast.If):
            cur = s
            while True:
                if ast.unparse(cur.test) == test_src:
                    return cur
                if len(cur.orelse) == 1 and isinstance(cur.orelse[0], ast.If):
                    cur = cur.orelse[0]
                else:
                    break
    raise Untranslatable("branch `" + test_src + "` not found")


def _assign(stmts, target):
    for s in stmts:
        if isinstance(s, ast.Assign) and ast.unparse(s.targets[0]) == target:
            return s.value
    raise Untranslatable("assignment to " + target + " not found")


def _residual_body(fd, env, funcs):
    """a nested `def f(_alpha)`: local assignments, then a return of an expression or np.array([e1, e2])"""
    tr = Tr(env, funcs)
    for s in fd.body:
        if isinstance(s, ast.Assign) and isinstance(s.targets[0], ast.Name):
            tr.env[s.targets[0].id] = tr.expr(s.value)
        elif isinstance(s, ast.Return):
            v = s.value
            if isinstance(v, ast.Call) and ast.unparse(v.func) == 'np.array' and isinstance(v.args[0], ast.List):
                return [tr.expr(e) for e in v.args[0].elts]
            return [tr.expr(v)]
        else:
            raise Untranslatable("statement in residual: " + ast.unparse(s)[:60])
    raise Untranslatable("residual without return")


def _variants(fd):
    """the (fw, fh) definitions by flank specification, in source order; the last (else) branch must be (0, 0)"""
    top = _find_if(fd.body, 'flank_angle is None')
    chain = _find_if(top.body, 'flank_length is not None')
    out = []
    cur = chain
    while True:
        key = ast.unparse(cur.test).split(' ')[0]
        defs = {d.name: d for d in cur.body if isinstance(d, ast.FunctionDef)}
        if set(defs) != {'fw', 'fh'}:
            raise Untranslatable("flank variant must define fw and fh")
        env = {key: ('var', key), defs['fw'].args.args[0].arg: ('var', 'alpha')}
        out.append((key, Tr(env).expr(_single_return(defs['fw'])), Tr(env).expr(_single_return(defs['fh']))))
        if len(cur.orelse) == 1 and isinstance(cur.orelse[0], ast.If):
            cur = cur.orelse[0]
        else:
            defs = {d.name: d for d in cur.orelse if isinstance(d, ast.FunctionDef)}
            z = {k: ast.unparse(_single_return(v)) for k, v in defs.items()}
            if z != {'fw': '0', 'fh': '0'}:
                raise Untranslatable("default flank variant is not (0, 0)")
            break
    return out


def translate(repo_root=os.environ.get('VERIF_REPO', '/repo')):
    g = os.path.join(repo_root, 'pyroll/core/grooves')
    tree = ast.parse(open(os.path.join(g, 'generic_elongation_solvers.py')).read())
    out = {}
    V = lambda *names: {n: ('var', n) for n in names}   # noqa
    # ---- solve_r124
    f124 = _fn(tree, 'solve_r124')
    l23 = [d for d in f124.body if isinstance(d, ast.FunctionDef) and d.name == 'l23']
    if len(l23) != 1:
        raise Untranslatable("l23 of solve_r124")
    base = V('r1', 'r2', 'depth', 'width', 'pad_angle', 'flank_angle', 'r4', 'indent')
    funcs = {'l23': (['_alpha'], _single_return(l23[0]), base), 'fw': ('var', 'fw'), 'fh': ('var', 'fh')}
    out['l23'] = Tr(dict(base, _alpha=('var', 'alpha'))).expr(_single_return(l23[0]))
    var124 = _variants(f124)
    top = _find_if(f124.body, 'flank_angle is None')
    wn = _find_if(top.body, 'width is None')
    fdef = [d for d in wn.body if isinstance(d, ast.FunctionDef) and d.name == 'f']
    if len(fdef) != 1:
        raise Untranslatable("residual of the width-None branch")
    out['r124_res_width_none'] = _residual_body(fdef[0], dict(base, _alpha=('var', 'alpha')), funcs)[0]
    blk = _find_if(f124.body, 'r2 is not None')
    env = dict(base, alpha4=('var', 'alpha4'))
    out['r124_alpha4'] = Tr(base).expr(_assign(blk.body, 'alpha4'))
    inner = _find_if(blk.body, 'width is None')
    out['r124_width_formula'] = Tr(env).expr(_assign(inner.body, 'width'))
    out['r124_depth_formula'] = Tr(env).expr(_assign(inner.orelse[0].body, 'depth'))
    if ast.unparse(inner.orelse[0].test) != 'depth is None':
        raise Untranslatable("depth branch of solve_r124")
    # ---- solve_r123
    f123 = _fn(tree, 'solve_r123')
    l23b = [d for d in f123.body if isinstance(d, ast.FunctionDef) and d.name == 'l23']
    if len(l23b) != 1 or ast.dump(l23b[0]) != ast.dump(l23[0]):
        raise Untranslatable("l23 of solve_r123 differs from solve_r124")
    var123 = _variants(f123)
    if [(k, a, b) for k, a, b in var123] != [(k, a, b) for k, a, b in var124]:
        raise Untranslatable("flank variants of solve_r123 differ from solve_r124")
    out['variants'] = var124
    base3 = V('r1', 'r2', 'r3', 'depth', 'width', 'pad_angle', 'flank_angle')
    base3['r32'] = Tr(base3).expr(_assign(f123.body, 'r32'))
    funcs3 = {'l23': (['_alpha'], _single_return(l23b[0]), base3), 'fw': ('var', 'fw'), 'fh': ('var', 'fh')}
    top3 = _find_if(f123.body, 'flank_angle is None')
    fdef = [d for d in top3.body if isinstance(d, ast.FunctionDef) and d.name == 'f']
    if len(fdef) != 1:
        raise Untranslatable("residual of the free-flank branch of solve_r123")
    res = _residual_body(fdef[0], dict(base3, **{'_alpha[0]': ('var', 'alpha2'), '_alpha[1]': ('var', 'alpha3')}), funcs3)
    if len(res) != 2:
        raise Untranslatable("solve_r123 residual is not a pair")
    out['r123_res_y'], out['r123_res_z'] = res
    fa = _assign(top3.body, 'flank_angle')
    if ast.unparse(fa) != 'alpha2 + alpha3':
        raise Untranslatable("flank angle of solve_r123")
    # ---- solve_box_like
    fb = _fn(tree, 'solve_box_like')
    baseb = V('r2', 'r4', 'depth', 'indent', 'ground_width', 'even_ground_width', 'usable_width', 'flank_angle')
    out['box_alpha4'] = Tr(baseb).expr(_assign(fb.body, 'alpha4'))
    envb = dict(baseb, alpha4=('var', 'alpha4'))
    topb = _find_if(fb.body, 'flank_angle is None')
    uwb = _find_if(topb.body, 'usable_width is not None')
    gwb = _find_if(uwb.body, 'ground_width is not None')
    out['box_fa_from_uw_gw'] = Tr(envb).expr(_assign(gwb.body, 'flank_angle'))
    egwb = gwb.orelse[0]
    if ast.unparse(egwb.test) != 'even_ground_width is not None':
        raise Untranslatable("even_ground_width branch of solve_box_like")
    fdef = [d for d in egwb.body if isinstance(d, ast.FunctionDef) and d.name == 'f']
    out['box_res_uw_egw'] = _residual_body(fdef[0], dict(envb, _alpha=('var', 'flank_angle')), {})[0]
    out['box_gw_from_egw'] = Tr(envb).expr(_assign(egwb.body, 'ground_width'))
    b2 = topb.orelse[0]
    if ast.unparse(b2.test) != 'ground_width is None and even_ground_width is None':
        raise Untranslatable("second branch of solve_box_like")
    out['box_gw_from_uw_fa'] = Tr(envb).expr(_assign(_find_if(b2.body, 'usable_width is not None').body, 'ground_width'))
    b3 = b2.orelse[0]
    if ast.unparse(b3.test) != 'usable_width is None':
        raise Untranslatable("third branch of solve_box_like")
    inner = _find_if(b3.body, 'ground_width is None')
    if to_coq(Tr(envb).expr(_assign(inner.body, 'ground_width'))) != to_coq(out['box_gw_from_egw']):
        raise Untranslatable("the two ground_width-from-even_ground_width formulas differ")
    out['box_uw_from_gw_fa'] = Tr(envb).expr(_assign(b3.body, 'usable_width'))
    last = _find_if(fb.body, 'even_ground_width is None')
    out['box_egw_from_gw'] = Tr(envb).expr(_assign(last.body, 'even_ground_width'))
    # ---- DiamondGroove.__init__
    td = ast.parse(open(os.path.join(g, 'diamonds/diamond.py')).read())
    fd = _fn(td, '__init__', 'DiamondGroove')
    based = V('r1', 'r2', 'usable_width', 'tip_depth', 'tip_angle')
    chain = _find_if(fd.body, 'usable_width is not None and tip_depth is not None and (tip_angle is None)')
    out['dia_alpha_uw_td'] = Tr(based).expr(_assign(chain.body, 'alpha'))
    c2 = chain.orelse[0]
    if ast.unparse(c2.test) != 'usable_width is not None and tip_angle is not None and (tip_depth is None)':
        raise Untranslatable("second branch of DiamondGroove")
    out['dia_alpha_ta'] = Tr(based).expr(_assign(c2.body, 'alpha'))
    out['dia_td_uw_ta'] = Tr(dict(based, alpha=('var', 'alpha'))).expr(_assign(c2.body, 'tip_depth'))
    c3 = c2.orelse[0]
    if ast.unparse(c3.test) != 'tip_depth is not None and tip_angle is not None and (usable_width is None)':
        raise Untranslatable("third branch of DiamondGroove")
    if to_coq(Tr(based).expr(_assign(c3.body, 'alpha'))) != to_coq(out['dia_alpha_ta']):
        raise Untranslatable("alpha of the third branch of DiamondGroove")
    out['dia_uw_td_ta'] = Tr(dict(based, alpha=('var', 'alpha'))).expr(_assign(c3.body, 'usable_width'))
    out['dia_depth'] = Tr(dict(based, alpha=('var', 'alpha'))).expr(_assign(fd.body, 'depth'))
    sup = [s for s in fd.body if isinstance(s, ast.Expr) and 'super().__init__' in ast.unparse(s)]
    kws = {k.arg: ast.unparse(k.value) for k in sup[0].value.keywords}
    if kws.get('flank_angle') != 'alpha' or kws.get('depth') != 'depth' or kws.get('usable_width') != 'usable_width':
        raise Untranslatable("DiamondGroove passes other values to the generic constructor")
    # ---- GenericElongationGroove: three of four
    tg = ast.parse(open(os.path.join(g, 'generic_elongation.py')).read())
    fg = _fn(tg, '__init__', 'GenericElongationGroove')
    tryb = [s for s in fg.body if isinstance(s, ast.Try)]
    if len(tryb) != 1:
        raise Untranslatable("resolution block of GenericElongationGroove")
    baseg = V('usable_width', 'ground_width', 'flank_angle', 'depth')
    c = _find_if(tryb[0].body, 'usable_width is None')
    out['gen_uw'] = Tr(baseg).expr(_assign(_find_if(c.body, 'np.isclose(depth, 0)').orelse, 'usable_width'))
    c = c.orelse[0]
    if ast.unparse(c.test) != 'ground_width is None':
        raise Untranslatable("resolution order")
    out['gen_gw'] = Tr(baseg).expr(_assign(_find_if(c.body, 'np.isclose(depth, 0)').orelse, 'ground_width'))
    c = c.orelse[0]
    if ast.unparse(c.test) != 'flank_angle is None':
        raise Untranslatable("resolution order")
    out['gen_fa'] = Tr(baseg).expr(_assign(c.body, 'flank_angle'))
    c = c.orelse[0]
    if ast.unparse(c.test) != 'depth is None':
        raise Untranslatable("resolution order")
    out['gen_depth'] = Tr(baseg).expr(_assign(c.body, 'depth'))
    return out


def generate(repo_root=os.environ.get('VERIF_REPO', '/repo')):
    d = translate(repo_root)
    L = ["(* GENERATED by tools/py2coq/solvers_te.py from generic_elongation_solvers.py, diamond.py, generic_elongation.py. Do not edit. *)",
         "From PyrollLib Require Import Expr.", "Open Scope string_scope.", ""]
    for k, v in d.items():
        if k == 'variants':
            L.append("Definition te_variants : list (string * expr * expr) := [" +
                     "; ".join(f'("{key}", {to_coq(a)}, {to_coq(b)})' for key, a, b in v) + "].")
        else:
            L.append(f"Definition te_{k} : expr := {to_coq(v)}.")
    return "\n".join(L) + "\n", d
