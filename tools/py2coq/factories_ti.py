"""Fragment T-I: the profile factories RoundProfile/BoxProfile/DiamondProfile/SquareProfile/HexagonProfile
(pyroll/core/profile/profile.py) -> argument alternatives, derived-argument formulas, range guard, core polygon
vertices and buffer radius as Expr terms.  Fail closed."""
import ast
import os
from .ir import Untranslatable, to_coq, coq_string
from .pyexpr import ExprTr

CMP = {ast.LtE: 'CLe', ast.Lt: 'CLt', ast.GtE: 'CGe', ast.Gt: 'CGt'}


def _cls(tree, name):
    for n in tree.body:
        if isinstance(n, ast.ClassDef) and n.name == name:
            for m in n.body:
                if isinstance(m, ast.FunctionDef) and m.name == '__init__':
                    return m
    raise Untranslatable(name + " not found")


def translate_factory(init):
    args = [a.arg for a in init.args.args[1:]]
    tr = ExprTr({a: a for a in args})          # argument names are variables
    tr.roots = {}
    lets = {a: ('var', a) for a in args}
    alternatives, guard, core, radius = None, None, None, None

    def ex(node, env):
        t = ExprTr({}, env)
        return t.expr(node)
    body = [s for s in init.body if not (isinstance(s, ast.Expr) and isinstance(s.value, ast.Constant))]
    env = dict(lets)
    branch_envs = None
    for s in body:
        src = ast.unparse(s)
        if isinstance(s, ast.If) and 'is not None' in ast.unparse(s.test) and alternatives is None:
            # argument resolution: if/elif chain on None-ness, else raise TypeError
            alternatives, branch_envs = [], []
            node = s
            while True:
                pattern = {}
                for c in (node.test.values if isinstance(node.test, ast.BoolOp) else [node.test]):
                    if not (isinstance(c, ast.Compare) and isinstance(c.left, ast.Name) and isinstance(c.comparators[0], ast.Constant) and c.comparators[0].value is None):
                        raise Untranslatable("alternative test")
                    pattern[c.left.id] = isinstance(c.ops[0], ast.IsNot)
                e2 = dict(env)
                for st in node.body:
                    if not (isinstance(st, ast.Assign) and isinstance(st.targets[0], ast.Name)):
                        raise Untranslatable("alternative body")
                    e2[st.targets[0].id] = ex(st.value, e2)
                alternatives.append(pattern)
                branch_envs.append(e2)
                if len(node.orelse) == 1 and isinstance(node.orelse[0], ast.If):
                    node = node.orelse[0]
                    continue
                if not (len(node.orelse) == 1 and isinstance(node.orelse[0], ast.Raise) and 'TypeError' in ast.unparse(node.orelse[0])):
                    raise Untranslatable("alternatives do not end in raise TypeError")
                break
            continue
        if isinstance(s, ast.If) and len(s.body) == 1 and isinstance(s.body[0], ast.Raise) and 'ValueError' in ast.unparse(s.body[0]):
            tests = s.test.values if isinstance(s.test, ast.BoolOp) and isinstance(s.test.op, ast.Or) else [s.test]
            guard = []
            for t in tests:
                if not (isinstance(t, ast.Compare) and len(t.ops) == 1 and type(t.ops[0]) in CMP):
                    raise Untranslatable("guard test " + ast.unparse(t))
                guard.append((CMP[type(t.ops[0])], t.left, t.comparators[0]))
            continue
        if isinstance(s, ast.Assign) and src.startswith('self._'):
            continue
        if isinstance(s, ast.Assign) and isinstance(s.targets[0], ast.Name) and s.targets[0].id in ('line', 'center', 'circle', 'polygon'):
            v = s.value
            if s.targets[0].id == 'center':
                core = [(ast.Constant(0), ast.Constant(0))]
                continue
            if s.targets[0].id == 'circle' or (s.targets[0].id == 'polygon' and 'buffer' in src):
                radius = v.args[0]
                continue
            if s.targets[0].id == 'polygon':
                continue
            # line = LinearRing(np.array([...]) * scale)
            arr = v.args[0]
            if not (isinstance(arr, ast.BinOp) and isinstance(arr.op, ast.Mult) and ast.unparse(arr.left.func) == 'np.array'):
                raise Untranslatable("core polygon")
            pts = arr.left.args[0].elts
            scale = arr.right
            sx, sy = (scale.elts if isinstance(scale, ast.Tuple) else (scale, scale))
            core = [(ast.BinOp(p.elts[0], ast.Mult(), sx), ast.BinOp(p.elts[1], ast.Mult(), sy)) for p in pts]
            continue
        if isinstance(s, ast.Expr) and 'super().__init__' in src:
            continue
        raise Untranslatable("statement " + src[:60])
    if guard is None or core is None or radius is None:
        raise Untranslatable("incomplete factory")
    envs = branch_envs if branch_envs else [env]
    out = []
    for k, e in enumerate(envs):
        out.append({
            'pattern': alternatives[k] if alternatives else {},
            'guard': [(c, ex(a, e), ex(b, e)) for c, a, b in guard],
            'core': [(ex(x, e), ex(y, e)) for x, y in core],
            'radius': ex(radius, e),
            'derived': {n: v for n, v in e.items() if n in args},
        })
    return args, out


def generate(repo_root=os.environ.get('VERIF_REPO', '/repo')):
    path = os.path.join(repo_root, 'pyroll/core/profile/profile.py')
    tree = ast.parse(open(path).read())
    L = ["(* GENERATED by tools/py2coq/factories_ti.py from profile.py. Do not edit. *)",
         "From PyrollLib Require Import Expr Factories.", "Open Scope string_scope.", ""]
    info = {}
    for cls, ident in (('RoundProfile', 'round'), ('BoxProfile', 'box'), ('DiamondProfile', 'diamond'), ('SquareProfile', 'square'), ('HexagonProfile', 'hexagon')):
        args, branches = translate_factory(_cls(tree, cls))
        info[cls] = {'args': args, 'branches': [b['pattern'] for b in branches]}
        names = []
        for k, b in enumerate(branches):
            nm = f"{ident}_b{k}"
            names.append(nm)
            pat = "[" + "; ".join(f"({coq_string(a)}, {'true' if g else 'false'})" for a, g in b['pattern'].items()) + "]"
            guard = "[" + "; ".join(f"({c} {to_coq(x)} {to_coq(y)})" for c, x, y in b['guard']) + "]"
            core = "[" + "; ".join(f"({to_coq(x)}, {to_coq(y)})" for x, y in b['core']) + "]"
            der = "[" + "; ".join(f"({coq_string(n)}, {to_coq(v)})" for n, v in sorted(b['derived'].items())) + "]"
            L.append(f"Definition {nm} : factory := {{| f_pattern := {pat};\n  f_guard := {guard};\n  f_core := {core};\n  f_radius := {to_coq(b['radius'])};\n  f_derived := {der} |}}.")
        L.append(f"Definition {ident}_branches : list factory := [{'; '.join(names)}].")
        L.append("")
    return "\n".join(L) + "\n", info
