"""Fragment T-K2: how a cross-section is built from contour lines -
Profile.from_groove (pyroll/core/profile/profile.py), helpers.out_cross_section / out_cross_section3
(pyroll/core/roll_pass/hookimpls/helpers.py) and the over-width guards of OutProfile.cross_section
(pyroll/core/roll_pass/hookimpls/profile.py) -> Gen_crosssec.v.   Fail closed."""
import ast
import os
from .ir import Untranslatable, to_coq
from .pyexpr import ExprTr
from .contours_tk import op_coq


def _find_func(tree, name, cls=None):
    body = tree.body
    if cls:
        for n in tree.body:
            if isinstance(n, ast.ClassDef) and n.name == cls:
                body = n.body
    for n in body:
        if isinstance(n, ast.FunctionDef) and n.name == name:
            return n
    raise Untranslatable(name + " not found")


CLIP_STRIP = "clip_by_rect(poly, -width / 2, -math.inf, width / 2, math.inf)"
CONCAT_ALL = "Polygon(np.concatenate([cl.coords for cl in rp.contour_lines.geoms]))"


def _factor(node, what):
    """X * 1.01  ->  the rational 101/100"""
    if not (isinstance(node, ast.BinOp) and isinstance(node.op, ast.Mult) and isinstance(node.right, ast.Constant)):
        raise Untranslatable("guard factor in " + what)
    from fractions import Fraction
    f = Fraction(str(node.right.value))
    return ast.unparse(node.left), f


def translate(repo_root=os.environ.get('VERIF_REPO', '/repo')):
    out = {}
    # ---- Profile.from_groove
    tp = ast.parse(open(os.path.join(repo_root, 'pyroll/core/profile/profile.py')).read())
    fg = _find_func(tp, 'from_groove', 'Profile')
    tr = ExprTr({})
    tr.lets = {'gap': ('var', 'gap'), 'width': ('var', 'width')}
    curves = {}
    seen = {'poly': None, 'guard': None, 'clip': None, 'ret': None}
    fg_validity = None
    for s in fg.body:
        src = ast.unparse(s)
        if isinstance(s, ast.Assign) and isinstance(s.targets[0], ast.Name) and isinstance(s.value, ast.Call):
            tgt, v = s.targets[0].id, s.value
            f = ast.unparse(v.func)
            kws = {k.arg: k.value for k in v.keywords}
            if f == 'translate':
                if ast.unparse(v.args[0]) != 'groove.contour_line' or set(kws) != {'yoff'}:
                    raise Untranslatable("translate in from_groove: " + src)
                curves[tgt] = [('translate_y', tr.expr(kws['yoff']))]
            elif f == 'rotate':
                if set(kws) != {'angle', 'origin'} or ast.unparse(kws['origin']) != '(0, 0)' or ast.unparse(v.args[0]) not in curves:
                    raise Untranslatable("rotate in from_groove: " + src)
                curves[tgt] = curves[ast.unparse(v.args[0])] + [('rotate_deg', ast.literal_eval(kws['angle']))]
            elif f == 'Polygon' and tgt == 'poly':
                a = v.args[0]
                if not (isinstance(a, ast.Call) and ast.unparse(a.func) == 'np.concatenate' and isinstance(a.args[0], ast.List)):
                    raise Untranslatable("polygon assembly in from_groove")
                names = []
                for e in a.args[0].elts:
                    if not (isinstance(e, ast.Attribute) and e.attr == 'coords' and ast.unparse(e.value) in curves):
                        raise Untranslatable("polygon assembly element " + ast.unparse(e))
                    names.append(ast.unparse(e.value))
                seen['poly'] = names
            elif f == 'clip_by_rect' and tgt == 'polygon':
                if src != "polygon = " + CLIP_STRIP:
                    raise Untranslatable("clip in from_groove: " + src)
                seen['clip'] = True
        elif isinstance(s, ast.If) and 'poly.bounds' in src:
            t = s.test
            if not (isinstance(t, ast.BoolOp) and isinstance(t.op, ast.Or) and len(t.values) == 2 and isinstance(s.body[0], ast.Raise)):
                raise Untranslatable("over-width guard of from_groove")
            a, b = t.values
            if not (ast.unparse(a.left) == '-width / 2' and isinstance(a.ops[0], ast.Lt) and ast.unparse(b.left) == 'width / 2' and isinstance(b.ops[0], ast.Gt)):
                raise Untranslatable("over-width guard of from_groove: " + ast.unparse(t))
            la, fa = _factor(a.comparators[0], 'from_groove')
            lb, fb = _factor(b.comparators[0], 'from_groove')
            if (la, lb) != ('poly.bounds[0]', 'poly.bounds[2]') or fa != fb:
                raise Untranslatable("over-width guard of from_groove: " + ast.unparse(t))
            seen['guard'] = fa
        elif isinstance(s, ast.If) and 'is_valid' in src:
            # the validity guard behind the clip: which conditions make the constructor refuse
            if not (seen['clip'] and isinstance(s.body[0], ast.Raise) and len(s.body) == 1 and not s.orelse):
                raise Untranslatable("validity guard of from_groove")
            fg_validity = sorted(c.replace('polygon', 'X') for c in map(ast.unparse, s.test.values)) if isinstance(s.test, ast.BoolOp) and isinstance(s.test.op, ast.Or) else None
            if fg_validity is None:
                raise Untranslatable("validity guard of from_groove: " + ast.unparse(s.test))
        elif isinstance(s, ast.Return):
            if 'cross_section=refine_cross_section(polygon)' not in src:
                raise Untranslatable("return of from_groove: " + src)
            seen['ret'] = True
    if not all(v is not None for v in seen.values()):
        raise Untranslatable("from_groove: missing " + ", ".join(k for k, v in seen.items() if v is None))
    out['fg_contours'] = [curves[n] for n in seen['poly']]
    out['fg_factor'] = seen['guard']
    # ---- helpers
    th = ast.parse(open(os.path.join(repo_root, 'pyroll/core/roll_pass/hookimpls/helpers.py')).read())
    f2 = [ast.unparse(s) for s in _find_func(th, 'out_cross_section').body]
    if f2 != ["poly = " + CONCAT_ALL, "poly = " + CLIP_STRIP, "return refine_cross_section(poly)"]:
        raise Untranslatable("out_cross_section changed: " + repr(f2))
    f3 = [ast.unparse(s) for s in _find_func(th, 'out_cross_section3').body]
    exp3 = ["poly = " + CONCAT_ALL,
            "for _ in range(3):\n    poly = clip_by_rect(poly, -math.inf, -math.inf, math.inf, width / 2)\n    poly = rotate(poly, angle=120, origin=(0, 0))",
            "return refine_cross_section(poly)"]
    if f3 != exp3:
        raise Untranslatable("out_cross_section3 changed: " + repr(f3))
    # ---- the guards of OutProfile.cross_section
    tq = ast.parse(open(os.path.join(repo_root, 'pyroll/core/roll_pass/hookimpls/profile.py')).read())
    g2 = _find_func(tq, 'cross_section')
    src = [ast.unparse(s) for s in g2.body]
    if src[0] != "cs = helpers.out_cross_section(self.roll_pass, self.width)" or src[-1] != "return cs" or len(src) not in (3, 4):
        raise Untranslatable("OutProfile.cross_section changed")
    pass_validity = None
    if len(src) == 4:
        v = g2.body[2]
        if not (isinstance(v, ast.If) and isinstance(v.body[0], ast.Raise) and len(v.body) == 1 and not v.orelse and isinstance(v.test, ast.BoolOp)
                and isinstance(v.test.op, ast.Or)):
            raise Untranslatable("validity guard of OutProfile.cross_section")
        pass_validity = sorted(c.replace('cs', 'X') for c in map(ast.unparse, v.test.values))
    # the constructor refuses a clipped polygon that is no polygon / empty / invalid / not simple; the pass gets a polygon from the same clip and must refuse
    # under the same conditions (the type test is the constructor's own business)
    norm = lambda l: None if l is None else [c for c in l if 'isinstance' not in c]     # noqa
    if norm(fg_validity) != norm(pass_validity):
        raise Untranslatable(f"validity guards differ: from_groove refuses on {norm(fg_validity)}, the pass on {norm(pass_validity)}")
    out['validity_guard'] = norm(pass_validity)
    t = g2.body[1]
    if not (isinstance(t, ast.If) and isinstance(t.body[0], ast.Raise) and isinstance(t.test, ast.Compare) and isinstance(t.test.ops[0], ast.Lt)
            and ast.unparse(t.test.comparators[0]) == 'self.width'):
        raise Untranslatable("over-width guard of OutProfile.cross_section")
    l, f = _factor(t.test.left, 'OutProfile.cross_section')
    if l != 'cs.width':
        raise Untranslatable("over-width guard of OutProfile.cross_section: " + l)
    out['pass_factor'] = f
    g3 = _find_func(tq, 'cross_section3')
    src = [ast.unparse(s) for s in g3.body]
    if src[0] != "cs = helpers.out_cross_section3(self.roll_pass, self.width)" or src[-1] != "return cs" or len(src) != 3:
        raise Untranslatable("ThreeRollPass.OutProfile.cross_section changed")
    t = g3.body[1]
    l, f = _factor(t.test.left, 'cross_section3')
    if l != 'cs.bounds[3] + cs.centroid.y' or ast.unparse(t.test.comparators[0]) != 'self.width' or not isinstance(t.test.ops[0], ast.Lt):
        raise Untranslatable("over-width guard of cross_section3: " + l)
    out['pass3_factor'] = f
    return out


def generate(repo_root=os.environ.get('VERIF_REPO', '/repo')):
    d = translate(repo_root)
    q = lambda f: f"({f.numerator} # {f.denominator})"      # noqa
    L = ["(* GENERATED by tools/py2coq/crosssec_tk.py from profile.py, helpers.py, hookimpls/profile.py. Do not edit. *)",
         "From PyrollLib Require Import Expr PassGeo Clip.", "Open Scope string_scope.", "",
         "Definition fg_contours : list (list gop) := [" + ";\n  ".join("[" + "; ".join(op_coq(o) for o in c) + "]" for c in d['fg_contours']) + "].",
         "(* both constructions: polygon of the concatenated contours, clipped to |z| <= width / 2 (structure checked by the translator) *)",
         f"Definition fg_overwidth_factor : Q := {q(d['fg_factor'])}.",
         f"Definition pass_overwidth_factor : Q := {q(d['pass_factor'])}.",
         f"Definition pass3_overwidth_factor : Q := {q(d['pass3_factor'])}."]
    return "\n".join(L) + "\n", {k: (str(v) if not isinstance(v, list) else v) for k, v in d.items()}
