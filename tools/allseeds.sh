#!/bin/sh
# run every kept seeded change against the check of its property (quick tier); prints caught/missed; restores /repo after each
cd /verif
for d in /verif/seeded/C*/; do
  id=$(basename $d); prop=${id%-*}
  if ! git -C /repo apply --check $d/patch.diff 2>/dev/null; then echo "$id DOES-NOT-APPLY"; continue; fi
  git -C /repo apply $d/patch.diff
  cp evidence/$prop.json /tmp/evidence_$prop.keep 2>/dev/null
  out=$(./check $prop --tier quick 2>&1); code=$?
  cp /tmp/evidence_$prop.keep evidence/$prop.json 2>/dev/null
  git -C /repo checkout -- . ; git -C /repo clean -fdq pyroll 2>/dev/null
  key=$(echo "$out" | grep -E "FAILING INPUT" | head -1 | sed 's/.*FAILING INPUT \[\([^]]*\)\].*/\1/')
  nfi=$(echo "$out" | grep -c "no-failing-input-found")
  echo "$id exit=$code failing-input=[$key] no-failing-input-found=$nfi"
done
git -C /repo status --short | head -3
