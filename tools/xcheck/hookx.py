"""Correspondence harness for the hook machine (coq/lib/HookMachine.v) against pyroll.core.hooks.

A case = (hierarchy, operation list).  The same case is run on real dynamically created HookHost
classes and rendered to Coq, where the model is evaluated with vm_compute and compared with the
implementation's observations (results of every operation, final invocation trace, final
remembered values per object, final cycle flags)."""
import math
import random
import re

# ---------------------------------------------------------------------------------------------
# values:  ('none',) ('int', z) ('bool', b) ('inf',) ('nan',) ('opq', n) ('list', [scalars]) ('fn0', v) ('fn1', v)
EXN = ['EAttr', 'EValue', 'EType', 'EKey', 'EZeroDiv', 'ECustom', 'ERecursion', 'ESyntax']


class CustomErr(Exception):
    pass


class Opq:
    def __init__(self, n):
        self.n = n


PYEXC = {'EAttr': AttributeError, 'EValue': ValueError, 'EType': TypeError, 'EKey': KeyError,
         'EZeroDiv': ZeroDivisionError, 'ECustom': CustomErr, 'ERecursion': RecursionError, 'ESyntax': SyntaxError}


def exn_name(e):
    for k, c in PYEXC.items():
        if type(e) is c:
            return k
    for k, c in PYEXC.items():
        if isinstance(e, c):
            return k
    return 'ECustom'


FN_KIND = {}   # id(callable) -> ('fn0' | 'fn1', callable): how a generated callable is meant to be called


class Values:
    """Conversion between model values and Python values (with a registry for callables)."""

    def __init__(self):
        self.fns = {}

    def py(self, v):
        k = v[0]
        if k == 'none':
            return None
        if k == 'int':
            return v[1]
        if k == 'bool':
            return v[1]
        if k == 'inf':
            return float('inf')
        if k == 'nan':
            return float('nan')
        if k == 'opq':
            n = v[1]
            return f"s{n}" if n % 3 == 0 else (frozenset({n}) if n % 3 == 1 else self._opq(n))
        if k == 'list':
            return [self.py(x) for x in v[1]]
        if k in ('fn0', 'fn1'):
            r = self.py(v[1])
            # the kind of callable varies: lambda, bound method of another object, functools.partial, callable object
            # (zero parameters = called without, one parameter = called with the instance)
            self.nfn = getattr(self, 'nfn', 0) + 1
            flavour = self.nfn % 4
            if flavour == 0:
                f = (lambda: r) if k == 'fn0' else (lambda self: r)
            elif flavour == 1:
                class Source:
                    def zero(self):
                        return r

                    def one(self, instance):
                        return r
                f = Source().zero if k == 'fn0' else Source().one
            elif flavour == 2:
                import functools
                f = functools.partial(lambda a: r, 1) if k == 'fn0' else functools.partial(lambda a, instance: r, 1)
            else:
                class Zero:
                    def __call__(self):
                        return r

                class One:
                    def __call__(self, instance):
                        return r
                f = Zero() if k == 'fn0' else One()
            self.fns[id(f)] = (v, f)
            FN_KIND[id(f)] = (k, f)
            return f
        raise ValueError(v)

    _opqs = {}

    def _opq(self, n):
        if n not in self._opqs:
            self._opqs[n] = Opq(n)
        return self._opqs[n]

    def model(self, x):
        if x is None:
            return ('none',)
        if isinstance(x, bool):
            return ('bool', x)
        if isinstance(x, int):
            return ('int', x)
        if isinstance(x, float):
            if math.isnan(x):
                return ('nan',)
            if math.isinf(x):
                return ('inf',)
            if x == int(x):
                return ('int', int(x))
            return ('opq', 999)
        if isinstance(x, str) and x.startswith('s'):
            return ('opq', int(x[1:]))
        if isinstance(x, frozenset):
            return ('opq', next(iter(x)))
        if isinstance(x, Opq):
            return ('opq', x.n)
        if isinstance(x, list):
            return ('list', [self.model(y) for y in x])
        if callable(x) and id(x) in self.fns:
            return self.fns[id(x)][0]
        return ('opq', 998)


def cv(v):
    k = v[0]
    if k == 'none':
        return 'VNone'
    if k == 'int':
        return f"(VInt ({v[1]})%Z)"
    if k == 'bool':
        return f"(VBool {'true' if v[1] else 'false'})"
    if k == 'inf':
        return 'VInf'
    if k == 'nan':
        return 'VNaN'
    if k == 'opq':
        return f"(VOpq {v[1]})"
    if k == 'list':
        return "(VList [" + ";".join(cv(x) for x in v[1]) + "])"
    if k == 'fn0':
        return f"(VFn0 {cv(v[1])})"
    if k == 'fn1':
        return f"(VFn1 {cv(v[1])})"
    raise ValueError(v)


# programs: ('const', v) ('raise', e) ('read', oref, h) ('add', a, b) ('ifcycle', a, b)
#           ('ifhas', kind, oref, h, a, b) ('try', a, b) ('seq', a, b);  oref = 'self' | int
HAS = {'HasSet': 'has_set', 'HasCached': 'has_cached', 'HasSetOrCached': 'has_set_or_cached', 'HasValue': 'has_value'}


def coref(r):
    return 'OSelf' if r == 'self' else f"(OObj {r})"


def cprog(p):
    k = p[0]
    if k == 'const':
        return f"(PConst {cv(p[1])})"
    if k == 'raise':
        return f"(PRaise {p[1]})"
    if k == 'read':
        return f"(PRead {coref(p[1])} {p[2]})"
    if k == 'add':
        return f"(PAdd {cprog(p[1])} {cprog(p[2])})"
    if k == 'ifcycle':
        return f"(PIfCycle {cprog(p[1])} {cprog(p[2])})"
    if k == 'ifhas':
        return f"(PIfHas {p[1]} {coref(p[2])} {p[3]} {cprog(p[4])} {cprog(p[5])})"
    if k == 'try':
        return f"(PTry {cprog(p[1])} {cprog(p[2])})"
    if k == 'seq':
        return f"(PSeq {cprog(p[1])} {cprog(p[2])})"
    raise ValueError(p)


def uses_cycle(p):
    return p[0] == 'ifcycle' or any(isinstance(x, tuple) and x and isinstance(x[0], str) and uses_cycle(x)
                                    for x in p[1:] if isinstance(x, tuple) and x and x[0] in
                                    ('const', 'raise', 'read', 'add', 'ifcycle', 'ifhas', 'try', 'seq'))


def cpost(po):
    k = po[0]
    if k == 'id':
        return 'PoId'
    if k == 'add':
        return f"(PoAdd ({po[1]})%Z)"
    if k == 'const':
        return f"(PoConst {cv(po[1])})"
    if k == 'isnone':
        return 'PoIsNone'
    if k == 'raise':
        return f"(PoRaise {po[1]})"
    if k == 'pre':
        return f"(PoPre {po[1]})"
    if k == 'yield2':
        return 'PoYield2'
    raise ValueError(po)


def cimpl(im):
    body = (f"(Plain {cprog(im['prog'])})" if not im['wrapper']
            else f"(Wrapper {'true' if im['guarded'] else 'false'} {cpost(im['post'])})")
    return (f"{{| i_owner := {im['owner']}; i_hook := {im['hook']}; i_tier := {im['tier']}; "
            f"i_wrapper := {'true' if im['wrapper'] else 'false'}; i_body := {body} |}}")


def cop(o):
    k = o[0]
    if k == 'register':
        return f"(Register {o[1]} {cimpl(o[2])})"
    if k == 'remove':
        return f"(Remove {o[1]})"
    if k == 'removevia':
        return f"(RemoveVia {o[1]} {o[2]})"
    if k == 'touch':
        return f"(Touch {o[1]} {o[2]})"
    if k == 'newobj':
        return f"(NewObj {o[1]} {o[2]})"
    if k == 'copyobj':
        return f"(CopyObj {o[1]} {o[2]})"
    if k == 'read':
        return f"(Read {o[1]} {o[2]})"
    if k == 'assign':
        return f"(Assign {o[1]} {o[2]} {cv(o[3])})"
    if k == 'delete':
        return f"(Delete {o[1]} {o[2]})"
    if k == 'reeval':
        return f"(Reeval {o[1]})"
    if k == 'clearcache':
        return f"(ClearCache {o[1]})"
    if k == 'evalroot':
        return f"(EvalRoot {o[1]} [{';'.join(map(str, o[2]))}])"
    if k == 'has':
        return f"(Has {o[1]} {o[2]} {o[3]})"
    if k == 'functions':
        return f"(Functions {o[1]} {o[2]})"
    raise ValueError(o)


def cout(x):
    if x[0] == 'done':
        return 'ODone'
    if x[0] == 'val':
        return f"(OOut (Val {cv(x[1])}))"
    if x[0] == 'exn':
        return f"(OOut (Exn {'ESyntax' if x[1] == 'ETimeout' else x[1]}))"
    if x[0] == 'list':
        return "(OList [" + ";".join(map(str, x[1])) + "])"
    raise ValueError(x)


# ---------------------------------------------------------------------------------------------
def _padded(k, thunk):
    """call thunk from k extra Python frames (varies where a RecursionError strikes)"""
    if k <= 0:
        return thunk()
    return _padded(k - 1, thunk)


class Impl:
    """Runs a case on the real pyroll.core.hooks."""

    def __init__(self, hier, nhooks):
        from pyroll.core.hooks import Hook, HookHost
        from typing import Any
        self.Hook, self.HookHost = Hook, HookHost
        self.classes = []
        self.nhooks = nhooks
        for ci, (bases, redeclared) in enumerate(hier):
            ns = {}
            if not bases:
                for h in range(nhooks):
                    ns[f"h{h}"] = Hook[Any]()
                pb = (HookHost,)
            else:
                for h in redeclared:
                    ns[f"h{h}"] = Hook[Any]()
                pb = tuple(self.classes[b] for b in bases)
                # user-defined subclasses often carry a plain mixin (no hook host) in front of or behind their hook-host bases; the mixin takes no
                # part in hook resolution, whereever it stands in the method resolution order
                if ci % 3 == 1:
                    pb = (type(f"PlainMixin{ci}", (), {"note": ci}),) + pb
                elif ci % 3 == 2:
                    pb = pb + (type(f"PlainMixin{ci}", (), {}),)
            self.classes.append(type(f"K{ci}", pb, ns))
        self.mro = [[self.classes.index(k) for k in c.__mro__ if k in self.classes] for c in self.classes]

    def run(self, ops, vals, observer=None, time_limit=4.0):
        """Runs the case under a wall-clock limit (a hang of the implementation is reported as the pseudo
        exception 'ETimeout' on every operation of the case)."""
        import signal

        class _Timeout(BaseException):
            pass

        def _alarm(signum, frame):
            raise _Timeout()
        old = signal.signal(signal.SIGALRM, _alarm)
        signal.setitimer(signal.ITIMER_REAL, time_limit)
        try:
            return self._run(ops, vals, observer)
        except _Timeout:
            self.timed_out = True
            return [('exn', 'ETimeout')] * len(ops), [], [], [], []
        finally:
            signal.setitimer(signal.ITIMER_REAL, 0)
            signal.signal(signal.SIGALRM, old)

    def _run(self, ops, vals, observer=None):
        import pyroll.core.hooks as hooks_mod
        trace, hfs, objs, outs = [], {}, {}, []
        self.ctx = {'trace': trace, 'hfs': hfs, 'objs': objs}
        V = vals

        def target(self_, r):
            return self_ if r == 'self' else objs[r]

        def comp(p):
            k = p[0]
            if k == 'const':
                v = V.py(p[1])
                return lambda s, cy: v
            if k == 'raise':
                E = PYEXC[p[1]]

                def f(s, cy):
                    raise E("injected")
                return f
            if k == 'read':
                r, name = p[1], f"h{p[2]}"
                return lambda s, cy: getattr(target(s, r), name)
            if k == 'add':
                a, b = comp(p[1]), comp(p[2])
                return lambda s, cy: a(s, cy) + b(s, cy)
            if k == 'ifcycle':
                a, b = comp(p[1]), comp(p[2])
                return lambda s, cy: a(s, cy) if cy else b(s, cy)
            if k == 'ifhas':
                meth, r, name = HAS[p[1]], p[2], f"h{p[3]}"
                a, b = comp(p[4]), comp(p[5])
                return lambda s, cy: a(s, cy) if getattr(target(s, r), meth)(name) else b(s, cy)
            if k == 'try':
                a, b = comp(p[1]), comp(p[2])

                def f(s, cy):
                    try:
                        return a(s, cy)
                    except AttributeError:
                        return b(s, cy)
                return f
            if k == 'seq':
                a, b = comp(p[1]), comp(p[2])

                def f(s, cy):
                    a(s, cy)
                    return b(s, cy)
                return f
            raise ValueError(p)

        def post_fn(po):
            k = po[0]
            if k == 'id':
                return lambda x: x
            if k == 'add':
                return lambda x: x + po[1]
            if k == 'const':
                v = V.py(po[1])
                return lambda x: v
            if k == 'isnone':
                return lambda x: x is None
            if k == 'raise':
                def f(x):
                    raise PYEXC[po[1]]("injected")
                return f
            return None

        def make_function(i, im):
            if not im['wrapper']:
                body = comp(im['prog'])
                if uses_cycle(im['prog']):
                    def fn(self, cycle):
                        trace.append(i)
                        return body(self, cycle)
                else:
                    def fn(self):
                        trace.append(i)
                        return body(self, False)
                return fn
            po = im['post']
            pf = post_fn(po)
            if im['guarded']:
                if po[0] == 'pre':
                    def fn(self, cycle):      # the wrapper fails before it asks the rest of the chain
                        trace.append(i)
                        if cycle:
                            return None
                        raise PYEXC[po[1]]("injected before the yield")
                        yield                 # noqa  (makes this a generator function)
                elif po[0] == 'yield2':
                    def fn(self, cycle):
                        trace.append(i)
                        if cycle:
                            return None
                        (yield)
                        return 2 * (yield)
                else:
                    def fn(self, cycle):
                        trace.append(i)
                        if cycle:
                            return None
                        x = yield
                        return pf(x)
            else:
                if po[0] == 'yield2':
                    def fn(self):
                        trace.append(i)
                        (yield)
                        return 2 * (yield)
                else:
                    def fn(self):
                        trace.append(i)
                        x = yield
                        return pf(x)
            return fn

        saved_roots = list(hooks_mod.root_hooks)
        pyfns = {}
        try:
            for o in ops:
                k = o[0]
                snap = observer.pre(o, self.ctx) if observer else None
                n_before = len(outs)
                try:
                    if k == 'register':
                        i, im = o[1], o[2]
                        hk = getattr(self.classes[im['owner']], f"h{im['hook']}")
                        # 'same_as': the very same Python function object is registered once more (as plugins do with shared defaults)
                        pyfns[i] = pyfns[im['same_as']] if im.get('same_as') in pyfns else make_function(i, im)
                        # 'via_hf': what is handed over is the HookFunction object the first registration returned (a decorated name), not the plain function
                        handed = hfs[im['same_as']] if im.get('via_hf') and im.get('same_as') in hfs else pyfns[i]
                        hfs[i] = hk(handed, tryfirst=im['tier'] == 0, trylast=im['tier'] == 2,
                                    wrapper=im['wrapper'])
                        outs.append(('done',))
                    elif k == 'remove':
                        if o[1] in hfs:
                            hfs[o[1]].hook.remove_function(hfs[o[1]])
                        outs.append(('done',))
                    elif k == 'removevia':
                        if o[2] in hfs:
                            getattr(self.classes[o[1]], hfs[o[2]].hook.name).remove_function(hfs[o[2]])
                        outs.append(('done',))
                    elif k == 'touch':
                        getattr(self.classes[o[1]], f"h{o[2]}")
                        outs.append(('done',))
                    elif k == 'newobj':
                        objs[o[1]] = self.classes[o[2]]()
                        outs.append(('done',))
                    elif k == 'copyobj':
                        import copy as _copy
                        objs[o[1]] = _copy.copy(objs[o[2]])
                        outs.append(('done',))
                    elif k == 'read':
                        outs.append(('val', V.model(_padded(getattr(self, 'stack_pad', 0), lambda: getattr(objs[o[1]], f"h{o[2]}")))))
                    elif k == 'assign':
                        setattr(objs[o[1]], f"h{o[2]}", V.py(o[3]))
                        outs.append(('done',))
                    elif k == 'delete':
                        delattr(objs[o[1]], f"h{o[2]}")
                        outs.append(('done',))
                    elif k == 'reeval':
                        objs[o[1]].reevaluate_cache()
                        outs.append(('done',))
                    elif k == 'clearcache':
                        objs[o[1]].__cache__.clear()
                        outs.append(('done',))
                    elif k == 'evalroot':
                        hooks_mod.root_hooks[:] = [getattr(self.classes[0], f"h{h}") for h in o[2]]
                        try:
                            objs[o[1]].evaluate_and_set_hooks()
                        finally:
                            hooks_mod.root_hooks[:] = saved_roots
                        outs.append(('done',))
                    elif k == 'has':
                        outs.append(('val', ('bool', bool(getattr(objs[o[2]], HAS[o[1]])(f"h{o[3]}")))))
                    elif k == 'functions':
                        fl = getattr(self.classes[o[1]], f"h{o[2]}").functions
                        inv = {id(v): kk for kk, v in hfs.items()}
                        outs.append(('list', [inv[id(f)] for f in fl]))
                    else:
                        raise ValueError(o)
                except RecursionError:
                    outs.append(('exn', 'ERecursion'))
                except Exception as e:  # noqa
                    outs.append(('exn', exn_name(e)))
                if observer:
                    observer.post(o, self.ctx, snap, outs[-1])
        finally:
            hooks_mod.root_hooks[:] = saved_roots
        flags = sorted(i for i, hf in hfs.items() if hf.cycle)
        caches = []
        for oid in sorted(objs):
            for name, v in objs[oid].__cache__.items():
                caches.append((oid, int(name[1:]), V.model(v)))
        dicts = []
        for oid in sorted(objs):
            for name, v in objs[oid].__dict__.items():
                if re.fullmatch(r'h\d+', name):
                    dicts.append((oid, int(name[1:]), V.model(v)))
        return outs, list(trace), flags, caches, dicts


def render_case(mro, ops, outs, trace, flags, caches, dicts, compare_trace=True):
    m = "(fun c => match c with " + " | ".join(f"{i} => [{';'.join(map(str, l))}]" for i, l in enumerate(mro)) + " | _ => [] end)"
    o = "[" + "; ".join(cop(x) for x in ops) + "]"
    e = "[" + "; ".join(cout(x) for x in outs) + "]"
    t = "[" + ";".join(map(str, trace)) + "]"
    f = "[" + ";".join(map(str, flags)) + "]"
    c = "[" + ";".join(f"(({a},{b}),{cv(v)})" for a, b, v in caches) + "]"
    d = "[" + ";".join(f"(({a},{b}),{cv(v)})" for a, b, v in dicts) + "]"
    return f"(mkcase {m} {o} {e} {'true' if compare_trace else 'false'} {t} {f} {c} {d})"


def write_case_file(name, cases_txt, sem='sem_fixed', fuel=150):
    body = ["From PyrollLib Require Import HookMachine HookCases.",
            "Open Scope nat_scope.",
            "Definition cases : list hcase := [",
            ";\n".join(cases_txt), "].",
            f"Eval vm_compute in (hmismatches {sem} {fuel} cases 0)."]
    return "\n".join(body) + "\n"


def parse_mismatches(out):
    m = re.search(r'=\s*\[(.*?)\]\s*:\s*list nat', out, re.S)
    if not m:
        return None
    return [int(x) for x in re.findall(r'\d+', m.group(1))]


# ---------------------------------------------------------------------------------------------
# generators
def gen_hierarchy(rng, nhooks, max_classes=6):
    shape = rng.choice(['chain', 'chain', 'diamond', 'mixin', 'tree', 'single', 'c3', 'random-mi'])
    if shape == 'single':
        hier = [([], [])]
    elif shape == 'c3':
        # Root; Core(Root); Extra(Root); Left(Core, Extra); Right(Core); Leaf(Left, Right): the C3 order (Leaf Left Right Core Extra Root)
        # differs from depth-first linearisations
        hier = [([], []), ([0], []), ([0], []), ([1, 2], []), ([1], []), ([3, 4], [])]
    elif shape == 'random-mi':
        # random multiple inheritance; combinations Python rejects (inconsistent MRO) are retried
        for _ in range(20):
            n = rng.randint(4, max_classes)
            hier = [([], [])]
            for i in range(1, n):
                k = rng.choice([1, 2, 2, 3])
                bases = sorted(rng.sample(range(i), min(k, i)), reverse=rng.random() < 0.5)
                hier.append((bases, []))
            try:
                cl = []
                for bases, _ in hier:
                    cl.append(type('T', tuple(cl[b] for b in bases) or (object,), {}))
                break
            except TypeError:
                continue
        else:
            hier = [([], []), ([0], [])]
    elif shape == 'chain':
        n = rng.randint(2, max_classes - 1)
        hier = [([], [])] + [([i], []) for i in range(n - 1)]
    elif shape == 'diamond':
        hier = [([], []), ([0], []), ([0], []), ([1, 2], [])]
        if rng.random() < 0.5:
            hier.append(([3], []))
    elif shape == 'mixin':
        hier = [([], []), ([0], []), ([0], []), ([2, 1], []), ([1], [])]
    else:
        hier = [([], []), ([0], []), ([0], []), ([1], []), ([2], [])]
    # a hook re-declared in a subclass body
    for i in range(1, len(hier)):
        if rng.random() < 0.2:
            hier[i] = (hier[i][0], [rng.randrange(nhooks)])
    return hier


SCALARS = [('int', 0), ('int', 1), ('int', 5), ('int', -3), ('bool', True), ('bool', False)]


def gen_value(rng, kinds='plain'):
    r = rng.random()
    if kinds == 'plain':
        return rng.choice(SCALARS + [('int', rng.randint(2, 50))])
    if r < 0.35:
        return rng.choice(SCALARS)
    if r < 0.5:
        return rng.choice([('inf',), ('nan',)])
    if r < 0.65:
        return ('opq', rng.randint(0, 8))
    if r < 0.85:
        n = rng.randint(0, 3)
        return ('list', [rng.choice(SCALARS[:4] + [('inf',), ('nan',)] * (1 if rng.random() < 0.5 else 0) or SCALARS[:4])
                         for _ in range(n)])
    return rng.choice([('fn0', ('int', 7)), ('fn1', ('int', 8))])


# ---------------------------------------------------------------------------------------------
def run_cases(chk, cases, label, shard=150, fuel=150, sem='sem_fixed'):
    """cases: list of dicts {hier, nhooks, ops, cmp_trace}.  Returns list of indices on which the
    model and the implementation disagree (and records not-compiling shards as unshown)."""
    import concurrent.futures as cf
    rendered = []
    for c in cases:
        V = Values()
        impl = Impl(c['hier'], c['nhooks'])
        impl.stack_pad = c.get('stack_pad', 0)
        outs, trace, flags, caches, dicts = impl.run(c['ops'], V)
        c['impl'] = {'outs': outs, 'trace': trace, 'flags': flags, 'caches': caches, 'mro': impl.mro}
        rendered.append(render_case(impl.mro, c['ops'], outs, trace, flags, caches, dicts, c.get('cmp_trace', True)))
    files = []
    for s in range(0, len(rendered), shard):
        name = f"hcases_{label}_{s // shard}.v"
        chk.coq.add_text(name, write_case_file(name, rendered[s:s + shard], sem=sem, fuel=fuel))
        files.append((name, s))
    with cf.ThreadPoolExecutor(12) as ex:
        results = list(ex.map(lambda f: chk.coq.compile(f[0], timeout=900), files))
    bad = []
    for (name, s), r in zip(files, results):
        if not r['ok']:
            chk.unshown_add(f"correspondence:{name}", r['err'][-800:])
            continue
        idx = parse_mismatches(r['out'])
        if idx is None:
            chk.unshown_add(f"correspondence:{name}", "unreadable result " + r['out'][-300:])
            continue
        bad += [s + i for i in idx]
    return bad


def shrink(chk, case, label, fuel=150):
    """Delta-debug the op list of a disagreeing case (keeps NewObj/Register needed by later ops implicitly:
    a candidate that makes the implementation driver crash is rejected)."""
    ops = list(case['ops'])
    import time as _t
    t_end = _t.time() + 25

    def disagrees(cand):
        if _t.time() > t_end:
            return False
        c = dict(case)
        c['ops'] = cand
        try:
            b = run_cases(_Quiet(chk), [c], label + "_shrink", fuel=fuel)
        except Exception:
            return False
        return bool(b)
    n = 2
    while len(ops) >= 2 and n <= len(ops):
        chunk = max(1, len(ops) // n)
        reduced = False
        for i in range(0, len(ops), chunk):
            cand = ops[:i] + ops[i + chunk:]
            if cand and valid_ops(cand) and disagrees(cand):
                ops, n, reduced = cand, max(n - 1, 2), True
                break
        if not reduced:
            if chunk == 1:
                break
            n = min(len(ops), n * 2)
    return ops


def valid_ops(ops):
    objs, regs = set(), set()
    for o in ops:
        k = o[0]
        if k == 'newobj':
            objs.add(o[1])
        elif k == 'copyobj':
            if o[2] not in objs:
                return False
            objs.add(o[1])
        elif k == 'register':
            regs.add(o[1])
            if not _prog_ok(o[2], objs):
                return False
        elif k in ('read', 'assign', 'delete', 'reeval', 'clearcache', 'evalroot'):
            if o[1] not in objs:
                return False
        elif k == 'has':
            if o[2] not in objs:
                return False
    return True


def _prog_ok(im, objs):
    return True


class _Quiet:
    """A Check facade that swallows unshown notes during shrinking."""

    def __init__(self, chk):
        self.coq = chk.coq

    def unshown_add(self, *a):
        pass


def model_prediction(chk, case, fuel=150):
    """What the verified model yields for the operations of `case` (raw Coq output), for replay files."""
    impl = Impl(case['hier'], case['nhooks'])
    m = "(fun c => match c with " + " | ".join(f"{i} => [{';'.join(map(str, l))}]" for i, l in enumerate(impl.mro)) + " | _ => [] end)"
    o = "[" + "; ".join(cop(x) for x in case['ops']) + "]"
    txt = ("From PyrollLib Require Import HookMachine.\nOpen Scope nat_scope.\n"
           f"Eval vm_compute in (let r := run {m} sem_fixed {fuel} init {o} in "
           "(snd r, (rev (trace (fst r)), cyc (fst r), cache (fst r)))).\n")
    chk.coq.add_text('prediction.v', txt)
    r = chk.coq.compile('prediction.v', timeout=120)
    return re.sub(r'\s+', ' ', r['out'])[:3000] if r['ok'] else 'model evaluation failed: ' + r['err'][-300:]


def report_deviation(chk, case, small_ops, label):
    """A disagreement on an observable the theorems constrain is a concrete history on which the
    implementation deviates from the verified model: report it as the failing input."""
    c = dict(case)
    c['ops'] = small_ops
    V = Values()
    impl = Impl(c['hier'], c['nhooks'])
    impl.stack_pad = c.get('stack_pad', 0)
    outs, trace, flags, caches, dicts = impl.run(small_ops, V)
    pred = model_prediction(chk, c)
    chk.fail('deviation', f"implementation deviates from the verified hook model on a shrunk history of {len(small_ops)} operations",
             {'hierarchy': c['hier'], 'mro': impl.mro, 'operations': small_ops, 'implementation_observed': outs,
              'implementation_trace': trace, 'implementation_flags': flags, 'model_predicts': pred})
