#!/usr/bin/env python3
"""keep a confirmed seeded change:  keep_seed.py <PROP> <worktree> <n> <needs> <caught-by> [alt-patch|-] [number under seeded/]"""
import json, os, shutil, subprocess, sys
prop, wt, n, needs, caught = sys.argv[1:6]
alt = sys.argv[6] if len(sys.argv) > 6 and sys.argv[6] != "-" else None
outn = sys.argv[7] if len(sys.argv) > 7 else n
out = subprocess.run(['/verif/tools/confirm_seed.sh', wt, n], capture_output=True, text=True).stdout.strip().splitlines()[-1]
conf = json.loads(out)
ok = conf.get('demo_clean_exit') == 0 and conf.get('demo_mutated_exit') == 1 and conf.get('unexpected_test_failures') == 0
d = f"/verif/seeded/{prop}-{outn}"
os.makedirs(d, exist_ok=True)
shutil.copy(alt or f"{wt}/mutation{n}.diff", f"{d}/patch.diff")
shutil.copy(f"{wt}/demo{n}.py", f"{d}/demo.py")
notes = open(f"{wt}/NOTES.md").read() if os.path.exists(f"{wt}/NOTES.md") else ''
json.dump({'property': prop, 'needs_to_manifest': needs, 'confirmed': ok, 'confirmation': conf,
           'ran': [f"tools/confirm_seed.sh {wt} {n}  (apply patch; baseline pytest; demo with and without the patch)",
                   f"tools/seedtest.sh {prop} seeded/{prop}-{outn}/patch.diff"],
           'caught_by': caught, 'author_notes': notes[:3000]}, open(f"{d}/meta.json", 'w'), indent=1)
print(d, 'confirmed' if ok else 'NOT CONFIRMED', conf)
