"""Shared machinery of every check: Coq build of the per-run files, assumption collection,
outcome classification (DESIGN 2.5), known findings, replay and evidence files."""
import hashlib
import json
import os
import re
import shutil
import subprocess
import sys
import time

VERIF = os.path.dirname(os.path.dirname(os.path.abspath(__file__)))
REPO = os.environ.get('VERIF_REPO', '/repo')
SCRATCH = os.environ.get('VERIF_SCRATCH')      # seed runs on scratch copies of the repository: nothing is written into /verif
COQLIB = os.path.join(VERIF, 'coq', 'lib')
PROPS = os.path.join(VERIF, 'coq', 'props')
FORBIDDEN = re.compile(r'\b(Admitted|admit|Axiom|Axioms|Parameter|Parameters|Conjecture|Unset\s+Guard|bypass_check|'
                       r'Admit\s+Obligations|type-in-type|impredicative-set|Unset\s+Universe\s+Checking|'
                       r'Unset\s+Positivity)\b')
STD_AXIOMS = {
    'ClassicalDedekindReals.sig_not_dec': 'stdlib Reals (Dedekind reals): decidability of negated propositions in sig',
    'ClassicalDedekindReals.sig_forall_dec': 'stdlib Reals (Dedekind reals): limited principle of omniscience',
    'FunctionalExtensionality.functional_extensionality_dep': 'stdlib: dependent functional extensionality (used by Reals)',
    'Classical_Prop.classic': 'stdlib: excluded middle',
    'Eqdep.Eq_rect_eq.eq_rect_eq': 'stdlib: eq_rect_eq (Streicher K)',
    'JMeq.JMeq_eq': 'stdlib: JMeq_eq',
    'ProofIrrelevance.proof_irrelevance': 'stdlib: proof irrelevance',
}


def log(*a):
    print(*a, flush=True)


def _raise_stack_limit():
    # coqc parses the generated case lists recursively: large literals overflow the default 8 MB stack
    import resource
    try:
        soft, hard = resource.getrlimit(resource.RLIMIT_STACK)
        resource.setrlimit(resource.RLIMIT_STACK, (hard, hard))
    except (ValueError, OSError):
        pass


def sh(cmd, timeout=None, cwd=None, env=None):
    try:
        p = subprocess.run(cmd, shell=isinstance(cmd, str), cwd=cwd, env=env, timeout=timeout,
                           stdout=subprocess.PIPE, stderr=subprocess.PIPE, text=True, preexec_fn=_raise_stack_limit)
        return p.returncode, p.stdout, p.stderr
    except subprocess.TimeoutExpired as e:
        out = e.stdout.decode() if isinstance(e.stdout, bytes) else (e.stdout or '')
        err = e.stderr.decode() if isinstance(e.stderr, bytes) else (e.stderr or '')
        return 124, out, err + '\nTIMEOUT'


def ensure_lib():
    """(Re)build the static Coq library if needed (normally done by MANIFEST.setup_cmd)."""
    rc, out, err = sh(['make', '-C', COQLIB, '-j16'], timeout=1500)
    if rc != 0:
        raise RuntimeError("static Coq library does not build:\n" + out[-2000:] + err[-4000:])


class Obligation:
    def __init__(self, name, file, kind='theorem'):
        self.name, self.file, self.kind = name, file, kind
        self.ok = None
        self.detail = ''
        self.axioms = None


THEOREM_RE = re.compile(r'^\s*(Theorem|Lemma|Corollary|Example|Fact|Proposition)\s+([A-Za-z0-9_\']+)', re.M)


class CoqRun:
    """Compiles a list of .v files (in order, each depending on the previous ones) in a run
    directory mapped to logical path Run, with the static library as PyrollLib."""

    def __init__(self, run_dir):
        self.run_dir = run_dir
        self.obligations = []
        self.file_results = {}
        self.forbidden_hits = []
        self.cmds = []

    def fresh(self):
        shutil.rmtree(self.run_dir, ignore_errors=True)
        os.makedirs(self.run_dir, exist_ok=True)

    def add_text(self, name, text):
        with open(os.path.join(self.run_dir, name), 'w') as f:
            f.write(text)

    def add_prop_file(self, name):
        shutil.copy(os.path.join(PROPS, name), os.path.join(self.run_dir, name))

    def scan_forbidden(self, extra_dirs=()):
        hits = []
        for d in [COQLIB, PROPS, self.run_dir, *extra_dirs]:
            for root, _, files in os.walk(d):
                for fn in files:
                    if fn.endswith('.v'):
                        p = os.path.join(root, fn)
                        txt = strip_comments(open(p).read())
                        for m in FORBIDDEN.finditer(txt):
                            hits.append(f"{p}: {m.group(0)}")
        self.forbidden_hits = hits
        return hits

    def compile(self, name, timeout=600, is_props=False, extra_args=()):
        path = os.path.join(self.run_dir, name)
        cmd = ['coqc', '-Q', COQLIB, 'PyrollLib', '-Q', self.run_dir, 'Run', *extra_args, path]
        self.cmds.append('coqc -Q coq/lib PyrollLib -Q coq/run/<id> Run ' + name)
        t0 = time.time()
        rc, out, err = sh(['timeout', str(timeout)] + cmd, timeout=timeout + 30)
        res = {'ok': rc == 0, 'rc': rc, 'out': out, 'err': err, 'wall': time.time() - t0, 'fail_line': None}
        if rc != 0:
            m = re.search(r'line (\d+), characters', err)
            if m:
                res['fail_line'] = int(m.group(1))
        self.file_results[name] = res
        if is_props:
            self._collect_obligations(name, path, res)
        return res

    def _collect_obligations(self, name, path, res):
        src = open(path).read()
        thms = []
        for m in THEOREM_RE.finditer(src):
            line = src.count('\n', 0, m.start()) + 1
            thms.append((m.group(2), line))
        blocks = parse_assumption_blocks(res['out'])
        pa_names = re.findall(r'Print Assumptions\s+([A-Za-z0-9_\']+)\s*\.', strip_comments(src))
        ax = {}
        for n, b in zip(pa_names, blocks):
            ax[n] = b
        fail_line = res['fail_line']
        for i, (n, line) in enumerate(thms):
            ob = Obligation(n, name)
            nxt = thms[i + 1][1] if i + 1 < len(thms) else 10 ** 9
            if res['ok']:
                ob.ok = True
            elif fail_line is None:
                ob.ok = False
                ob.detail = (res['err'] or '')[-1500:]
            elif fail_line >= nxt:
                ob.ok = True
            elif fail_line >= line:
                ob.ok = False
                ob.detail = res['err'][-1500:]
            else:
                ob.ok = False
                ob.detail = 'not reached: an earlier statement of this file failed'
            ob.axioms = ax.get(n)
            self.obligations.append(ob)

    def add_obligation(self, name, file, ok, detail='', kind='generated'):
        ob = Obligation(name, file, kind)
        ob.ok, ob.detail = ok, detail
        self.obligations.append(ob)
        return ob

    def failed(self):
        return [o for o in self.obligations if not o.ok]

    def axioms_used(self):
        s = set()
        for o in self.obligations:
            for a in (o.axioms or []):
                s.add(a)
        return sorted(s)


def strip_comments(txt):
    out, depth, i = [], 0, 0
    while i < len(txt):
        if txt.startswith('(*', i):
            depth += 1
            i += 2
        elif txt.startswith('*)', i) and depth > 0:
            depth -= 1
            i += 2
        else:
            if depth == 0:
                out.append(txt[i])
            i += 1
    return ''.join(out)


def parse_assumption_blocks(out):
    """Split coqc stdout into the answers of successive `Print Assumptions` commands."""
    blocks, cur = [], None
    for line in out.splitlines():
        if line.startswith('Closed under the global context'):
            if cur is not None:
                blocks.append(cur)
                cur = None
            blocks.append([])
        elif line.startswith('Axioms:'):
            if cur is not None:
                blocks.append(cur)
            cur = []
        elif cur is not None:
            m = re.match(r'^([A-Za-z_][A-Za-z0-9_\.\']*)\s*$', line) or re.match(r'^([A-Za-z_][A-Za-z0-9_\.\']*)\s*:', line)
            if m and not line.startswith(' '):
                cur.append(m.group(1))
            elif not line.startswith(' ') and line.strip() and not m:
                blocks.append(cur)
                cur = None
    if cur is not None:
        blocks.append(cur)
    return blocks


# ---------------------------------------------------------------------------------------------
class Failure:
    """A concrete failing input found on the implementation."""

    def __init__(self, key, what, data):
        self.key, self.what, self.data = key, what, data


def load_known_findings(pid):
    path = os.path.join(VERIF, 'known_findings.txt')
    out = []
    if os.path.exists(path):
        for line in open(path):
            line = line.strip()
            m = re.match(r'finding:\s+property=(\S+)\s+key=(\S+)\s+(.*)$', line)
            if m and m.group(1) == pid:
                out.append((m.group(2), m.group(3)))
    return out


class Check:
    def __init__(self, pid, tier, seed):
        self.pid, self.tier, self.seed = pid, tier, seed
        self.t0 = time.time()
        self.run_dir = os.path.join(SCRATCH or os.path.join(VERIF, 'coq'), 'run', pid)
        self.coq = CoqRun(self.run_dir)
        self.failures = []          # Failure objects (concrete failing inputs on the implementation)
        self.unshown = []           # (name, detail): obligations / correspondences that no longer check
        self.cov = {'evaluations': 0, 'distinct_nontrivial': 0, 'samples': [], 'rule': ''}
        self.assumptions = []
        self.trusted = []
        self.notes = []
        self.x_stats = {}

    @property
    def thorough(self):
        return self.tier == 'thorough'

    def unshown_add(self, name, detail):
        self.unshown.append((name, detail))
        log(f"  NOT SHOWN: {name}: {detail[:400]}")

    def fail(self, key, what, data):
        ctx = getattr(self, 'context', None)       # (text, dict): circumstances under which the following inputs are evaluated, e.g. a Config value set at run time
        if ctx:
            what = f"[{ctx[0]}] {what}"
            data = dict(data, **ctx[1]) if isinstance(data, dict) else data
        self.failures.append(Failure(key, what, data))
        log(f"  FAILING INPUT [{key}]: {what}")

    def sample(self, s, limit=12):
        if len(self.cov['samples']) < limit:
            self.cov['samples'].append(s)

    def finish(self):
        """Classify, write evidence and replay files, print VIOLATION / KNOWN-FINDING lines, return exit code."""
        pid = self.pid
        for o in self.coq.failed():
            self.unshown_add(f"{o.file}:{o.name}", o.detail or 'proof obligation does not check')
        for name, r in self.coq.file_results.items():
            if not r['ok'] and not any(o.file == name for o in self.coq.obligations):
                self.unshown_add(name, (r['err'] or '')[-1500:])
        if self.coq.forbidden_hits:
            self.unshown_add('forbidden-construct', '; '.join(self.coq.forbidden_hits[:5]))
        known = load_known_findings(pid)
        known_keys = {k for k, _ in known}
        violations = []
        seen_known = set()
        for f in self.failures:
            if f.key in known_keys:
                if f.key not in seen_known:
                    seen_known.add(f.key)
                    txt = dict(known)[f.key]
                    log(f"KNOWN-FINDING: property={pid} {f.key}: {txt}")
            else:
                violations.append(f)
        rc = 0
        os.makedirs(os.path.join(SCRATCH or VERIF, 'replay'), exist_ok=True)
        if violations:
            f = violations[0]
            h = hashlib.sha1(json.dumps([f.key, f.what], sort_keys=True, default=str).encode()).hexdigest()[:10]
            path = os.path.join(SCRATCH or VERIF, 'replay', f"{pid}-{h}.json")
            with open(path, 'w') as fh:
                json.dump({'property': pid, 'key': f.key, 'what': f.what, 'input': f.data,
                           'broken': [n for n, _ in self.unshown],
                           'other_failures': [{'key': g.key, 'what': g.what, 'input': g.data} for g in violations[1:20]]},
                          fh, indent=1, default=str)
            log(f"VIOLATION property={pid} replay={path}")
            rc = 1
        elif self.unshown and not (self.failures and all(f.key in known_keys for f in self.failures) and self._unshown_explained()):
            h = hashlib.sha1(json.dumps(self.unshown, default=str).encode()).hexdigest()[:10]
            path = os.path.join(SCRATCH or VERIF, 'replay', f"{pid}-unshown-{h}.json")
            with open(path, 'w') as fh:
                json.dump({'property': pid, 'no_failing_input_found': True,
                           'broken': [{'name': n, 'detail': d} for n, d in self.unshown],
                           'searched': self.cov.get('evaluations', 0)}, fh, indent=1, default=str)
            log(f"VIOLATION property={pid} replay={path} no-failing-input-found")
            rc = 1
        self.write_evidence(len(violations) + (1 if rc and not violations else 0))
        log(f"[{pid}] tier={self.tier} obligations={len(self.coq.obligations)} "
            f"discharged={sum(1 for o in self.coq.obligations if o.ok)} evaluations={self.cov['evaluations']} "
            f"wall={time.time() - self.t0:.1f}s exit={rc}")
        return rc

    def _unshown_explained(self):
        return False

    def write_evidence(self, nviol):
        obs = self.coq.obligations
        axioms = self.coq.axioms_used()
        tb = ["Coq 8.16.1 kernel (coqc; vm_compute used, native_compute not used)"]
        for a in axioms:
            tb.append(f"axiom {a}: {STD_AXIOMS.get(a, 'standard library axiom')}")
        if not axioms:
            tb.append("axioms: none (all theorems closed under the global context)")
        tb += self.trusted
        cov = dict(self.cov)
        cov.update({
            'obligations': len(obs),
            'discharged': sum(1 for o in obs if o.ok),
            'checker_cmd': '; '.join(dict.fromkeys(self.coq.cmds)) or 'coqc',
            'trusted_base': tb,
            'theorems': [{'name': o.name, 'file': o.file, 'ok': bool(o.ok), 'kind': o.kind,
                          'axioms': o.axioms} for o in obs],
            'not_shown': [n for n, _ in self.unshown],
            'x_tie': self.x_stats,
            'notes': self.notes,
        })
        ev = {'property_id': self.pid, 'tier': self.tier, 'seed': self.seed, 'level': 'proof',
              'coverage': cov, 'assumptions': self.assumptions, 'wall_s': round(time.time() - self.t0, 2),
              'violations': nviol}
        os.makedirs(os.path.join(SCRATCH or VERIF, 'evidence'), exist_ok=True)
        with open(os.path.join(SCRATCH or VERIF, 'evidence', f"{self.pid}.json"), 'w') as fh:
            json.dump(ev, fh, indent=1, default=str)


def repo_env():
    env = dict(os.environ)
    env['PYTHONPATH'] = REPO
    env['PYTHONHASHSEED'] = '0'
    return env


# ---------------------------------------------------------------------------------------------------------------------------------
# looking at objects (observer effects) and rarely seen input types - shared by the search oracles
def look_at(obj, html=True):
    """everything a user, a debugger or a notebook does to merely LOOK at an object: repr / str / __attrs__ / rich and html representations and the
    has_* probes of every hook.  None of it may change what the object computes afterwards.  Exceptions of the representations are swallowed
    (an object that cannot be shown yet - a pass without its opening - is still only looked at)."""
    for f in (repr, str, lambda o: o.__attrs__, lambda o: list(o.__rich_repr__()) if hasattr(o, '__rich_repr__') else None,
              (lambda o: o._repr_html_() if hasattr(o, '_repr_html_') else None) if html else (lambda o: None),
              lambda o: o._repr_pretty_ if hasattr(o, '_repr_pretty_') else None):
        try:
            f(obj)
        except Exception:      # noqa
            pass
    hooks = getattr(type(obj), '__hooks__', None)
    if hooks:
        for name in sorted(hooks):
            for probe in ('has_set', 'has_cached', 'has_set_or_cached'):
                try:
                    getattr(obj, probe)(name)
                except Exception:      # noqa
                    pass
    try:
        import matplotlib.pyplot as plt
        plt.close('all')
    except Exception:      # noqa
        pass


def as_0d(kwargs, keys=None):
    """the same values carried by 0-d float numpy arrays (what reading a measurement file or a preceding numpy computation delivers): mutable numbers, so an
    in-place operation on an argument shows in the caller's object.  Returns (kwargs with arrays, copies of the original values)"""
    import numpy as np
    out, orig = {}, {}
    for k, v in kwargs.items():
        if (keys is None or k in keys) and isinstance(v, (int, float)) and not isinstance(v, bool):
            out[k] = np.array(float(v))
            orig[k] = float(v)
        else:
            out[k] = v
    return out, orig
