#!/bin/sh
# usage: tools/confirm_seed.sh <worktree> <n>  -- confirms mutation n in the scratch worktree: suite passes, demo fails with / passes without
WT=$1; N=$2
cd $WT || exit 2
git checkout -q -- pyroll
PYTHONPATH=$WT /venv/bin/python demo$N.py > /tmp/confirm_$(basename $WT)_$N.clean.log 2>&1; clean=$?
git apply mutation$N.diff || { echo "{\"wt\":\"$WT\",\"n\":$N,\"error\":\"apply\"}"; exit 2; }
PYTHONPATH=$WT /venv/bin/python demo$N.py > /tmp/confirm_$(basename $WT)_$N.mut.log 2>&1; mut=$?
PYTHONPATH=$WT /venv/bin/python -m pytest -q -p no:cacheprovider --timeout=900 tests > /tmp/confirm_$(basename $WT)_$N.pytest.log 2>&1
summary=$(tail -1 /tmp/confirm_$(basename $WT)_$N.pytest.log)
failed=$(grep -E "^FAILED" /tmp/confirm_$(basename $WT)_$N.pytest.log | grep -v -E "test_plot_preferred_matplotlib_block_impl|test_plot_preferred_matplotlib_block_import|test_plot_preferred_plotly$|test_plot_preferred_plotly |test_plot_line_string_plotly|test_plot_polygon_plotly" | wc -l)
git checkout -q -- pyroll
echo "{\"wt\":\"$WT\",\"n\":$N,\"demo_clean_exit\":$clean,\"demo_mutated_exit\":$mut,\"unexpected_test_failures\":$failed,\"pytest\":\"$summary\"}"
