#!/bin/sh
# run every claimed check (tier = $1, default quick) on /repo as it stands, 4 at a time; print one line per check
cd /verif
TIER=${1:-quick}
IDS=$(python3 -c "import json;print(' '.join(c['property_id'] for c in json.load(open('MANIFEST.json'))['checks']))")
mkdir -p /verif/.runall
for id in $IDS; do echo $id; done | xargs -P 4 -I{} sh -c "./check {} --tier $TIER > /verif/.runall/{}.log 2>&1; echo {} exit=\$? \$(tail -1 /verif/.runall/{}.log | cut -c1-160)"
