#!/usr/bin/env python3
"""Writes MANIFEST.json from the table below (single source of truth for what is claimed)."""
import json
import os

VERIF = os.path.dirname(os.path.dirname(os.path.abspath(__file__)))
BASE = ("cd /repo && /venv/bin/python -m pytest -ra -q -p no:cacheprovider --timeout=900 "
        "--continue-on-collection-errors")

CLAIMED = {
    'C17': dict(
        technique="Coq proof (field/sqrt lemmas over Reals) about formulas regenerated from the source by an AST translator",
        text=("Machine-checked theorems (Coq 8.16, unbounded over R) about the hook-implementation formulas that a fail-closed "
              "translator regenerates from /repo on every run: equivalent rectangle/radius, hydrostatic mean, von Mises "
              "(permutation, hydrostatic, uniaxial), thermal identities, draught/spread/elongation forms, strain, d*s*e=1. "
              "A code change alters the generated definitions and breaks the proof; the check then searches the implementation "
              "for a concrete failing input."),
        note=("Trusted: Coq kernel; stdlib Reals axioms (sig_not_dec, sig_forall_dec, functional_extensionality_dep, classic); "
              "translator T-A (validated each run by mock-environment differential against the real function objects); floats "
              "abstracted to R. Partial: chords (local_height/width) and the shapely rectangle are exercised by the oracle only."),
        ref="DESIGN.md section 4 C17"),
}

CLAIMED['C20'] = dict(
    technique="Coq proof by induction over operation histories on a hand-written executable model, tied by translator T-G and differential runs",
    text=("Coq theorems (closed under the global context) about an executable model of ConfigValue/ConfigMeta: precedence explicit > "
          "environment > default, per-operation effect and frame over arbitrary histories, delete restores, falsy values honoured, "
          "atomic bulk update, parse round trips (bool any case/blanks, decimal numerals, lists/tuples and key=value mappings including the empty ones, "
          "every enum member by its own name whatever its letter case, by number; pinned upper-case-only lookup refuted). "
          "The test/source order, the enum name-lookup order and the update mode are regenerated from config.py each run; the model is executed by vm_compute on "
          "the same random histories as the real classes."),
    note=("Trusted: Coq kernel (no axioms); translator T-G; correspondence harness (600 quick / 3000 thorough histories); float() "
          "and custom parsers are oracles; ASCII text only."),
    ref="DESIGN.md section 4 C20")

HOOK_NOTE = ("Trusted: Coq kernel (theorems closed under the global context, no axioms); the hand-written model "
             "coq/lib/HookMachine.v is tied to pyroll/core/hooks.py by the correspondence harness tools/xcheck/hookx.py (same random "
             "cases run on real dynamically created HookHost classes and, by vm_compute, on the model: results of every operation, "
             "invocation trace, remembered values, cycle flags). Python's MRO, inspect.signature, logging, generators are modelled, "
             "not verified; recursion limit modelled as fuel.")
CLAIMED['C01'] = dict(
    technique="Coq refinement proof (six per-class stores vs abstract registration log) by induction over histories; model tied by differential runs",
    text=("Theorems for every hierarchy and every history of register/remove/touch/evaluation operations: Hook.functions equals the "
          "documented priority order computed from the registration log; scope is exactly the class and its subclasses; a removed "
          "implementation is in no chain; touches change nothing; first non-None wins. Both repaired defects (cycle flag reset, "
          "base-class wrapper) are kept as vm_compute-refuted witnesses on the pinned semantics. Wrapper composition: a stack of any "
          "number of cycle-guarded additive wrappers over a plain implementation yields the plain value plus every wrapper's amount, each exactly "
          "once, from any flag state, and leaves all flags as they were (HookWrappers.v); wrappers with None-producing or raising post-processing "
          "are covered by the correspondence run and the oracle (partial)."),
    note=HOOK_NOTE, ref="DESIGN.md section 4 C01")
CLAIMED['C02'] = dict(
    technique="Coq proofs about the read state machine (explicit > remembered > computed) of the hook machine; model tied by differential runs",
    text=("Theorems: explicit value first (callables invoked, falsy honoured), remembered second with no implementation consulted and "
          "no state change, computed third and remembered only after the None/non-finite checks; assign/delete never touch the "
          "remembered value; no evaluation ever changes an explicit value, a registration or a flag (induction over fuel and program). "
          "Re-evaluation and root-hook evaluation are covered by the correspondence run and the lifecycle oracle (partial); also stated on the implementation: re-entrant implementations read three times, one function registered twice, explicit callables with short lifetimes, what the solver makes explicit on sibling pass classes."),
    note=HOOK_NOTE, ref="DESIGN.md section 4 C02")
CLAIMED['C07'] = dict(
    technique="Coq invariant proofs by induction on fuel and program structure (frame, flags restored, outcome classes); model tied by differential runs",
    text=("Theorems for arbitrary implementation programs, nesting and exception kinds: every evaluation leaves registrations, explicit "
          "values and all cycle flags as it found them; flags are clear after every operation of any history; a computing read ends "
          "in AttributeError for None and for fuel exhaustion (never RecursionError, in every reachable state), ValueError for non-finite results, and a "
          "failing read adds no remembered entry; runaway recursion fails the whole read: only the outermost read converts the RecursionError, a nested "
          "read hands it on without remembering anything, try/except AttributeError, has_value, sequencing and arithmetic cannot catch it, and every "
          "operation restores the read-depth mark. 'As if it never happened' for later reads is checked on the implementation against "
          "a failure-free twin (partial: not a theorem)."),
    note=HOOK_NOTE, ref="DESIGN.md section 4 C07")

CLAIMED['C13'] = dict(
    technique="Coq invariant proof (every admissible list edit preserves parent/list consistency) by a generic update lemma, induction over histories; model tied by differential runs",
    text=("Theorems: for every admissible operation among construct/append/prepend/insert/extend/+=/item and slice assignment/"
          "item and slice deletion/pop/remove/clear/drop/list copy/reverse/flatten and every history of them, from any consistent state, "
          "every listed unit names the listing sequence as parent, every unit naming a parent is listed there and no unit is listed "
          "twice; previous/next navigation equals the list neighbours (IndexError at the ends), removed units name no parent. "
          "Flatten (walk over a snapshot, inner sequences dissolved on the spot, list rebuilt) preserves consistency for every "
          "sequence that does not list itself, so every admissible history including flatten keeps every reachable state consistent. "
          "A slice may be replaced by new units or by units of the replaced window itself.  Translator T-U regenerates every list-editing method of "
          "Unit._SubUnitsList as an effect sequence in source order; theorem: run in its own order each method yields the model's update (all admissible "
          "orders), adopt-before-release is refuted. "
          "The deep copy of the unit list is read by T-U as well (owner := copy of the owner, elements through the adopting append). Deep copy of a tree is covered by C12's theorem and the oracle, which continues editing on the copy (partial here). Adding a still-listed unit is excluded by the hypothesis 'admissible' and recorded as known "
          "finding add-listed-unit with a machine-checked refutation witness."),
    note=("Trusted: Coq kernel (no axioms); hand-written model coq/lib/UnitTree.v tied to unit.py/sequence.py by the correspondence "
          "run (600 quick / 4000 thorough histories, full snapshot after every operation); Python list index/slice normalisation "
          "is modelled for step 1 slices only."),
    ref="DESIGN.md section 4 C13")

CLAIMED['C18'] = dict(
    technique="Coq refinement proof (per-class factory lists vs registration log, reversed-MRO walk) by induction over histories; model tied by differential runs",
    text=("Theorems for every history of class definitions and pre/post registrations: the per-class lists are exactly the "
          "registrations made on that class since its definition; a solve runs pre-processors of base classes before subclasses, in "
          "registration order, skipping factories that return nothing, each on its predecessor's output, then the unit, then the "
          "post-processors in the same order on the returned profile only; a registration applies to exactly the classes having "
          "the registering class in their MRO (whenever defined). Processors are units like any other (nested model ProcNest.v): for every state, class, nesting depth and table of answers, the unit solved at any depth - also a product of the class its factory is registered on - is asked for by exactly the factories of the walk over its class, each once, in order; a re-entrancy guard is refuted. One unit solved repeatedly with changing factory answers, and in-place processors on base classes / on the next unit, are checked on the implementation (partial: not in the model)."),
    note=("Trusted: Coq kernel (no axioms); hand-written model coq/lib/Processors.v tied to unit.py by the correspondence run on real "
          "dynamically created Transport subclasses (alone and inside sequences; 120/1200 nested arrangements against ProcNest.nsolve); processors are modelled by the mark they leave."),
    ref="DESIGN.md section 4 C18")

CLAIMED['C14'] = dict(
    technique="Coq proof by structural induction over the units between two passes (decision model) + rotation lemmas over R; exhaustive differential run for short sequences",
    text=("Theorems: with automatic rotation on, for any units between two consecutive passes containing at most one rotator, "
          "explicit rotators plus the entry rotation of the second pass make exactly one turn (by the rotator if present, else by the "
          "pass); explicit settings False/0/True/angle are applied exactly; the global switch off disables entry rotation; the angle stated on an explicit rotator does not enter the decision (a rotator stated as 0 is a rotator); the rule "
          "table regenerated from rotator/hookimpls.py is total and yields only 0/45/90/180; rotation preserves distances, area, "
          "perimeter and composes additively. The decision model is compared with roll_pass.rotation for every arrangement of up to "
          "4 units (9 kinds incl. rotators stated as 90 and as 0) and random longer ones, two-roll and three-roll passes and further stated angles directly; solved sequences count the turns actually made. Edit histories on one sequence object (rotation setting changed, units inserted/prepended/dropped between solves) are checked geometrically: the profile entering each pass is the predecessor's section turned exactly once by the angle the current arrangement calls for."),
    note=("Trusted: Coq kernel; Reals axioms for the geometry theorems; decision model coq/lib/Rotation.v tied by the correspondence run; "
          "translator T-A for the rule table; shapely.affinity.rotate sampled against the closed formula; nested sequences out of scope."),
    ref="DESIGN.md section 4 C14")

CLAIMED['C05'] = dict(
    technique="Coq proofs by induction over the bounded loop (bound, honest convergence, warning iff never converged) on a model with numpy nan/inf/broadcast semantics; tied by differential runs",
    text=("Theorems for every body (any vectors, any raise points), every precision and limit: at most max_iteration_count-1 body "
          "evaluations; 'finished after k iterations' only if iterate k passed the component-wise relative test against the stored "
          "vector, which is iterate k-1 of the same solve for k>1 and can never pass on a fresh unit's first iterate; the warning is "
          "issued iff every allowed iteration failed the test; what is stored afterwards. Reproducibility (fresh twin, deep copy, "
          "re-solve within precision, recovery after an aborted solve) is about the numerical iteration map and is exercised on a "
          "real sequence only (partial); implementations registered for one read and dropped (address re-use) and non-finite elements of array results are stated on the implementation."),
    note=("Trusted: Coq kernel (no axioms; Q arithmetic); model coq/lib/SolveLoop.v tied to Unit.solve by scripted units whose "
          "root-hook vectors follow generated scripts of dyadic numbers (exact in float and Q); log messages identify the outcome."),
    ref="DESIGN.md section 4 C05")

CLAIMED['C16'] = dict(
    technique="Coq proofs (field, sqrt, asin/sin lemmas over R) that the regenerated formulas of each group are mutually inverse; exhaustive subset x read-order runs on real objects",
    text=("Theorems about the formulas regenerated from the hook implementations: length/duration (via velocity), roll radius/diameter, "
          "rotational frequency/surface velocity/working velocity (every implementation of every member agrees with the defining "
          "relations), cooling pipe radius/area, target width/filling ratio, target area/filling ratio, neutral point/angle: supplying "
          "the derived value to a fresh object reproduces the original. Definedness (value or AttributeError, in bounded time, never "
          "RecursionError or an invented value) is checked exhaustively over all subsets of supplied members and all read orders on "
          "real objects, two-roll and three-roll, also overfilled targets, totals of nested sequences and short-lived passes - partial: not a theorem (the cycle-flag mechanism it rests on is proved in C07)."),
    note=("Trusted: Coq kernel; Reals axioms; translator T-A with mock-environment validation; floats abstracted to R; "
          "asin/sin round trips under the stated ranges."),
    ref="DESIGN.md section 4 C16")

CLAIMED['C11'] = dict(
    technique="Coq proof by reflection: a verified dimension checker (dim_sound) decides homogeneity of every regenerated hook formula by vm_compute; scaled twin runs as supporting evidence",
    text=("dim_sound (proved once, for all expressions, all k>0, all environments): if the checker computes exponent d for a formula, "
          "scaling every variable by k^(its exponent) scales the value by k^d. On every run the checker is evaluated inside Coq on all "
          "hook implementations regenerated from the source against a hand-written table of length exponents (forallb ... = true by "
          "vm_compute), which yields the scaling law for each of them; the relative convergence test is proved scale free. A "
          "dimensionally wrong edit or an absolute tolerance inside a formula makes the computation return false. Groove solvers, "
          "geometry-valued implementations, tolerances inside numpy/shapely calls and the propagation through a whole solve are covered "
          "by scaled twin runs only (partial)."),
    note=("Trusted: Coq kernel; Reals axioms; translator T-A (mock-validated); the hand-written dimension table; floats abstracted to R. "
          "Known finding: astm_grain_size_number is unit-bound by design."),
    ref="DESIGN.md section 4 C11")

CLAIMED['C19'] = dict(
    technique="Coq proofs by induction over the velocity arrays (Q, field) + regenerated entry/exit formulas; model tied to the nested source functions by differential runs",
    text=("Theorems for arrays of any length and any non-zero areas: after the backward pass every pass carries the flux of the last "
          "pass whose velocity is untouched (hence exactly the prescribed final speed), after the forward pass the flux of the first; "
          "the out profile runs at the pass velocity and the in profile's velocity times its area equals the out flux (formulas "
          "regenerated from the hook implementations). The array model is run against the nested functions extracted from the "
          "current source text. Whether the final solve reproduces the areas used depends on plugged-in models (partial)."),
    note=("Trusted: Coq kernel (Q theorems closed; entry/exit theorem uses the Reals axioms); ast extraction of the nested functions; "
          "translator T-A; real sequences checked with tolerance 0.05 on velocities (5x loop tolerance) and 2x iteration precision for the "
          "lagged in-profile velocity."),
    ref="DESIGN.md section 4 C19")

CLAIMED['C09'] = dict(
    technique="Coq proofs over R (rotation lemmas, field with sqrt 3) about operation sequences and formulas regenerated from the source by translators T-K and T-A",
    text=("Theorems about the affine operation sequences regenerated from TwoRollPass.contour_lines / ThreeRollPass.contour_lines, for "
          "every roll contour (any polyline) and every gap: the two-roll contours are images of each other under a half turn, face "
          "vertices lie at +-gap/2, the opening of a point at depth d is gap + 2d; the three contours map onto each other under 120 "
          "degree turns; gap <-> height (two-roll) and gap <-> inscribed circle diameter / height (three-roll) formulas are mutually "
          "inverse. Face separation of three-roll passes and the usable span are checked on real passes for every catalogue groove "
          "(partial); histories (solve - edit - solve, edit + re-evaluation incl. usable width and section, passes built, read and dropped one after another) on the implementation. Two known findings (gap exactly 0 in three-roll passes; FlatGroove height)."),
    note=("Trusted: Coq kernel; Reals axioms; translators T-K and T-A; shapely translate/rotate sampled against the closed formulas."),
    ref="DESIGN.md section 4 C09")

CLAIMED['C06'] = dict(
    technique="Coq proofs (field, telescoping inductions over lists of units) about regenerated formulas and a hand-over model; solved sequences as oracle",
    text=("Theorems: a profile built from another carries exactly its public explicit values; t_out = t_in + duration and along any "
          "sequence the final time is the initial one plus the sum of durations, never decreasing; volume is conserved through a pass "
          "when elongation and out length stem from the same iterate, with the exact lag identity V_out/V_in = A_k/A_j otherwise; "
          "strain accumulates in passes and is reset by transports; the unit elongations multiply to the sequence's area ratio; "
          "rotators take no time and preserve area; n disk elements of 1/n add up to the parent. Six solved layouts (nested, "
          "rotator, cooling pipe, disks, spread model, three-roll) are checked unit by unit. Re-solved histories (another incoming profile incl. material/density/extra attributes, an opened gap, layouts starting with a transport or rotator) are checked too; a failing re-solve is compared with a fresh sequence."),
    note=("Trusted: Coq kernel; Reals axioms; translator T-A; the hand-over model (filter of public keys) is tied to the code by the "
          "oracle's identity/equality comparison of every public value between neighbouring units; tolerances 2x/3x iteration precision."),
    ref="DESIGN.md section 4 C06")

CLAIMED['C15'] = dict(
    technique="Coq proofs over R (lra/nra, sqrt lemmas, list extremes) about the factories regenerated from the source by translator T-I, relative to a sampled kernel law for shapely's buffer",
    text=("For each factory branch regenerated from profile.py (argument alternative, range guard, core polygon, buffer radius): when the "
          "guard accepts, the buffered extents are exactly the requested/documented ones (round 2r; box w x h; diamond w x h; square "
          "diagonal - 2r(sqrt2-1) with diagonal^2 = 2 side^2; hexagon height = sqrt3 side, width = 2 side - 2r(2/sqrt3 - 1), the three "
          "parametrisations agree), centred on the origin; the accepted argument patterns are exactly 'one of the alternatives'. "
          "Validity, area, mirror symmetry, error raising for 33 bad argument sets, keyword passthrough and from_polygon guards are "
          "checked on the implementation (partial); from_groove is covered under C08."),
    note=("Trusted: Coq kernel; Reals axioms; translator T-I (validated by rebuilding each shape from the regenerated core and radius); "
          "kernel law K4 for shapely's round-join buffer (sampled, tolerance twice the arc discretisation)."),
    ref="DESIGN.md section 4 C15")

CLAIMED['C10'] = dict(
    technique="Coq proofs over R (piecewise-chain lemma, arc/trig lemmas, nsatz) about tables regenerated from generic_elongation.py by translator T-D; hand-written roll-surface (R) and spline (Q) models tied by differential runs",
    text=("For every parameter vector satisfying `wellformed` (documented ranges, ordered junctions, no step at z4 - measured to hold on all "
          "catalogue grooves), every sampling density and both halves: each contour vertex lies on the depth function computed by numpy's "
          "piecewise over the regenerated table; neighbouring analytic pieces agree at all six junctions; the depth function is even; the "
          "polyline is its own mirror image.  Roll surface: grid = contour at x = 0, surface of revolution off it, even in x, x grid "
          "antisymmetric; bilinear cell reproduces its four nodes and is mirror symmetric in both directions.  Spline groove (Q, closed "
          "under the global context): depth function through every vertex, invariant under insertion of collinear vertices anywhere, centre "
          "invariant under any resampling within the extent, extent symmetric after centring; the pinned mean-centring is a refuted witness; the boundary "
          "strip keeps every given vertex off the face and invents none (the pinned neighbour-only strip is refuted). "
          "Partial: cell location of interpn/interp1d and float rounding are abstracted; closure at z4 is a hypothesis (C04)."),
    note=("Trusted: Coq kernel; Reals axioms for the R part (spline part axiom free); translator T-D validated on every catalogue groove "
          "(junction attributes, contour_points, local_depth rebuilt from the regenerated terms); Surface.v hand-written, spline part tied by "
          "exact rational vm_compute correspondence with SplineGroove, surface part by identities measured on real Roll objects."),
    ref="DESIGN.md section 4 C10")

CLAIMED['C03'] = dict(
    technique="Coq proofs over R about tables regenerated from generic_elongation.py (T-D): block-ordering lemma for the sampling loop with abstract isclose guards, mirror/list lemmas, tangent-corner lemma (nsatz); string model of the by-name factory; search over the constructors",
    text=("For every parameter vector satisfying `wellformed` with a positive face pad, every sampling density and every outcome of the "
          "isclose guards (only reflexivity of isclose is used): the polyline is strictly increasing in z, hence single valued and simple; "
          "it is mirror symmetric unconditionally; flank and face line meet in (usable_width/2, 0) with the r1 arc tangent to both; the "
          "centre vertex is (0, depth - indent).  By-name factory: any rendering of a name (separators anywhere, any case) resolves like "
          "the name; every class of the live namespace is found with and without the Groove suffix.  Partial: that the constructors reject "
          "everything that is not well-formed, y >= 0 of all vertices, deepest point = depth and reproduction of requested values are "
          "decided by the search over the implementation (catalogue x pad angles, perturbations 0.02..50x, negative/NaN/inf, too few / "
          "too many defining values, 16 None-patterns of the generic class), not by a theorem."),
    note=("Trusted: Coq kernel; Reals axioms; translator T-D (validated on every catalogue groove); ByName.v hand-written (ASCII part of "
          "\\s and str.lower), tied by vm_compute correspondence on rendered names; class list read from the live namespace."),
    ref="DESIGN.md section 4 C03")

CLAIMED['C04'] = dict(
    technique="Coq proofs over R (field, nsatz, trig identities) that the closed forms and residuals regenerated from the solvers (translator T-E) imply closure of the junction chain regenerated from generic_elongation.py (T-D); root finders as oracles; independent re-trace on the implementation",
    text=("Closing at z4 is equivalent to re-tracing from the centre and arriving at (usable_width/2, 0).  For all families without a "
          "third radius closure is one explicit equation; the regenerated closed forms of solve_r124 (width or depth unknown), every "
          "branch of solve_box_like with the even-ground-width formula, the three branches of DiamondGroove with its depth formula, and "
          "any common root of the two regenerated residuals of solve_r123 imply it; a root of the r124 residual reproduces the requested "
          "flank height and, the contour being closed, width and length; the three flank specifications are one vector along the flank; "
          "the four formulas of the generic three-of-four resolution express one relation; alpha4 = arccos(1 - indent/(r2+r4)) gives the "
          "indent relation.  Partial: solve_r1234, the r2-unknown branch of solve_r124 and the flank-given branch of solve_r123 have no "
          "theorem; existence/uniqueness of roots (hence subset independence) is exercised by round trips, not proved."),
    note=("Trusted: Coq kernel; Reals axioms; translators T-D and T-E (T-E validated against the real solvers: closed forms vs returned "
          "values, residuals vanish at returned roots); root_scalar/root/fixed_point are not modelled."),
    ref="DESIGN.md section 4 C04")

CLAIMED['C08'] = dict(
    technique="Coq proofs over Q about a Sutherland-Hodgman model of the strip clipping (induction over the edge walk), equality of the regenerated constructions (T-K, T-K2), T-A for the default width; model tied to shapely by exact-rational correspondence; search over real passes",
    text=("The regenerated construction of Profile.from_groove equals the regenerated two-roll contour construction (same contours, order, "
          "clipping), hence the same shape for whatever GEOS computes; default width = usable width (T-A).  For the clipping model: no vertex "
          "outside the prescribed strip; every vertex is a vertex of the opening or lies on one of its edges between the end points; the width "
          "is exactly the prescribed one whenever the opening reaches that far on both sides; nothing is cut when the opening is narrower; the "
          "pass-side and profile-side over-width tests use the same regenerated factor and accept/reject the same widths.  Partial: three-roll "
          "passes, refine_cross_section, inclusion of the whole polygon rather than its vertices, and the error itself are decided by the "
          "search over real passes (all grooves x gaps x seven widths, lopsided spline grooves, re-solved passes)."),
    note=("Trusted: Coq kernel (Q part closed under the global context; the construction equality uses PassGeo over R with the Reals axioms); "
          "translators T-A, T-K, T-K2; Clip.v hand-written, tied to shapely.clip_by_rect by vm_compute correspondence on bounds and area "
          "(edges lying in the strip border excluded: zero-width spikes); determinism of GEOS."),
    ref="DESIGN.md section 4 C08")

CLAIMED['C12'] = dict(
    technique="Coq proofs (closed under the global context): invariant of a fuel-indexed model of copy.deepcopy with memo over strong/weak reference graphs; semantic theorem for a mutation discipline checked by vm_compute on skeletons regenerated from the live hook registry (T-S); snapshot search on real sequences",
    text=("Deep copy, for every heap, root and recursion budget: the original objects are untouched, the root's copy and every memoised copy are new "
          "objects, and every reference held by a new object - strong or weak (parent, owner, unit, roll-pass back-references) - points to a new "
          "object; a weak reference whose target is gone is kept dead, the root's copy has its fields' kinds position by position, and the pinned pre-repair copy "
          "fails on one dead back-reference (refutation witness).  Every registered hook implementation and Profile factory keeps the mutation discipline (whatever it changes in place it created "
          "itself), and a disciplined function never changes an object that existed before it ran, whatever its reads alias.  Partial: that "
          "Unit.solve writes only unit-owned objects (caller's profile, grooves, earlier and returned profiles untouched) is decided by "
          "identity+value snapshots over random operation orders on six layouts, not by a theorem; T-S is flow insensitive and knows mutators by name."),
    note=("Trusted: Coq kernel, no axioms; Heap.v hand-written, tied by the memoisation order of copy.deepcopy on 150+ real object graphs (about half of them with dead back-references); translator "
          "T-S (tools/py2coq/mutations_ts.py)."),
    ref="DESIGN.md section 4 C12")

NOT_YET = {}


def main():
    props = [json.loads(l) for l in open(os.path.join(VERIF, 'properties.jsonl'))]
    checks, na = [], []
    for p in props:
        pid = p['id']
        if pid in CLAIMED:
            c = CLAIMED[pid]
            checks.append({
                'property_id': pid,
                'quick_cmd': f"./check {pid} --tier quick",
                'thorough_cmd': f"./check {pid} --tier thorough",
                'evidence_file': f"/verif/evidence/{pid}.json",
                'replay_cmd_template': f"./check {pid} --replay {{path}}",
                'engine': 'coq-proof',
                'level_claimed': {'category': 'proof', 'text': c['text'], 'design_ref': c['ref']},
                'level_note': c['note'],
                'technique': c['technique'],
            })
        else:
            na.append({'property_id': pid, 'reason': NOT_YET.get(pid, "check not built yet in this revision (planned, see DESIGN.md section 4); not claimed")})
    m = {
        'version': 1,
        'setup_cmd': "cd /verif/coq/lib && coq_makefile -f _CoqProject -o Makefile && make -j16",
        'hooks': {'guard': 'PYROLL_CORE_VERIF', 'enable': 'no source hooks are needed; checks import /repo with PYTHONPATH=/repo',
                  'baseline_off_cmd': BASE, 'source_commits': [], 'add_only': True},
        'engines': [{'name': 'coq-proof', 'path': '/verif/check', 'serves_properties': [c['property_id'] for c in checks],
                     'kind_free_text': 'Coq 8.16 theorems about models regenerated from / differentially tied to the source; Python oracles search for failing inputs'}],
        'checks': checks,
        'not_applicable': na,
        'notes': "See DESIGN.md. Every check rebuilds its generated Coq files from /repo's working tree on each run.",
    }
    with open(os.path.join(VERIF, 'MANIFEST.json'), 'w') as f:
        json.dump(m, f, indent=1)


if __name__ == '__main__':
    main()
