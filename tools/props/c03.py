"""C03 - every groove handed out is a well-formed contour; unrealisable input is rejected."""
import inspect
import json
import math
import random
import re

import numpy as np

from grooves_catalogue import CATALOGUE, LENGTH_KEYS, ANGLE_KEYS, build
from props import _td


def coq_str(s):
    out = []
    for ch in s:
        o = ord(ch)
        if ch == '"':
            out.append('""')
        elif 32 <= o < 127:
            out.append(ch)
        else:
            return None
    return '"' + "".join(out) + '"'


def blocking(chk):
    """a failure that is not a listed known finding ends the search (known findings are reported once and the search goes on)"""
    from common import load_known_findings
    known = {k for k, _ in load_known_findings('C03')}
    return any(f.key not in known for f in chk.failures)


# ------------------------------------------------------------------ measuring a returned groove
def measure(g, kw):
    """list of (key, text) problems of a returned groove; kw = the requested values"""
    from shapely.geometry import LineString
    P = []
    cp = np.asarray(g.contour_points, dtype=float)
    size = max(float(g.usable_width), float(g.depth), 1e-300)
    tol = 1e-9 * size
    if not np.all(np.isfinite(cp)):
        return [('finite', "contour has non-finite coordinates")]
    if not np.all(np.diff(cp[:, 0]) > 0):
        i = int(np.argmin(np.diff(cp[:, 0])))
        P.append(('monotone', f"contour is not strictly increasing in z at vertex {i}: {cp[i, 0]:.9g} -> {cp[i + 1, 0]:.9g}"))
    if np.max(np.abs(cp[:, 0] + cp[::-1, 0])) > tol or np.max(np.abs(cp[:, 1] - cp[::-1, 1])) > tol:
        P.append(('symmetric', "contour is not mirror symmetric about z = 0"))
    if np.min(cp[:, 1]) < -tol:
        P.append(('below-face', f"contour dips {-np.min(cp[:, 1]):.6g} below the roll face"))
    if not LineString(cp).is_simple:
        P.append(('simple', "contour line is not simple"))
    # requested values that show directly in the polyline: the centre vertex at depth - indent, the face rising (or falling) with the pad angle
    if 'depth' in kw and len(cp) % 2 == 1:
        yc = float(cp[len(cp) // 2, 1])
        want = float(kw['depth']) - float(kw.get('indent', 0) or 0)
        if abs(float(cp[len(cp) // 2, 0])) <= tol and abs(yc - want) > 1e-6 * size:
            P.append(('requested', f"requested depth = {kw['depth']}, indent = {kw.get('indent', 0)}: the centre vertex of the contour lies at {yc:.9g}, not at depth - indent = {want:.9g}"))
    if kw.get('pad') is not None or kw.get('rel_pad') is not None:
        pad = float(kw['pad']) if kw.get('pad') is not None else float(kw['rel_pad']) * float(g.usable_width)
        reach = float(cp[-1, 0]) - float(g.z1)          # z1: where the corner rounding r1 ends and the padded face begins
        want = pad * math.cos(math.radians(float(kw.get('pad_angle', 0) or 0)))
        if abs(reach - want) > 1e-9 * size:
            P.append(('requested', f"requested {'pad = ' + str(kw['pad']) if kw.get('pad') is not None else 'rel_pad = ' + str(kw['rel_pad'])}: the padded face of the contour is {reach:.9g} "
                      f"long (in z), the padding calls for {want:.9g}"))
    if kw.get('pad_angle') and len(cp) >= 2 and abs(cp[-1, 0] - cp[-2, 0]) > tol:
        slope = (cp[-1, 1] - cp[-2, 1]) / (cp[-1, 0] - cp[-2, 0])
        want = math.tan(math.radians(float(kw['pad_angle'])))
        if abs(slope - want) > 1e-6 * max(1.0, abs(want)):
            P.append(('requested', f"requested pad_angle = {kw['pad_angle']} degrees: the face of the contour has slope {slope:.9g}, tan(pad_angle) = {want:.9g}"))
    if abs(2 * g.z2 - g.usable_width) > tol or abs(g.y2) > tol:
        P.append(('usable-width', "the face corner (z2, y2) is not (usable_width / 2, 0)"))
    # flank tangent and face line through (usable_width / 2, 0)
    if math.cos(g.flank_angle) > 1e-9:
        if abs(g.y3 - math.tan(g.flank_angle) * (g.usable_width / 2 - g.z3)) > 1e-9 * size * max(1.0, abs(math.tan(g.flank_angle))):
            P.append(('face-meeting', f"the flank line through (z3, y3) meets the face at z = {g.z3 + g.y3 / math.tan(g.flank_angle):.9g}, "
                      f"not at usable_width / 2 = {g.usable_width / 2:.9g}"))
    # the polyline at +-usable_width/2 : between the face corner and the sagitta of the r1 arc
    yuw = float(np.interp(g.usable_width / 2, cp[:, 0], cp[:, 1]))
    a1 = g.flank_angle + g.pad_angle
    sag = g.r1 * abs(math.tan(a1 / 2)) if abs(math.cos(a1 / 2)) > 1e-9 else float('inf')      # tangent length of the corner rounding
    if yuw < -tol or yuw > sag * 1.05 + 1e-3 * size:
        P.append(('face-corner', f"at z = usable_width / 2 the contour is at y = {yuw:.6g} (the corner rounding reaches at most {sag:.6g} from the corner)"))
    # deepest point inside the usable width = depth
    zs = np.linspace(-g.usable_width / 2, g.usable_width / 2, 2001)
    d = np.asarray(g.local_depth(zs), dtype=float)
    inside = cp[np.abs(cp[:, 0]) <= g.usable_width / 2 + tol]
    deepest = max(float(np.max(d)), float(np.max(inside[:, 1])) if len(inside) else -1e300)
    if g.depth > 0 and abs(deepest - g.depth) > 1e-5 * size:      # (a flat groove has no requested depth; its rounded face corner is its only relief)
        zmax = abs(float(zs[int(np.argmax(d))]))
        if deepest > g.depth and zmax >= g.z3 - tol and g.pad_angle > 0:
            # the rounding r1 between flank and a rising (pad_angle > 0) face lies inside the usable width and above the groove bottom
            P.append(('corner-rounding-above-depth', f"with pad angle {math.degrees(g.pad_angle):.0f} degrees the face-corner rounding r1 = {g.r1:.6g} rises to "
                      f"{deepest:.6g} inside the usable width, above the requested depth {g.depth:.6g}"))
        else:
            P.append(('depth', f"deepest point inside the usable width is {deepest:.9g}, depth is {g.depth:.9g}"))
    # a requested flank extent is the extent of the straight flank between the two arcs of the returned contour
    if all(hasattr(g, a) for a in ('z3', 'y3', 'z4', 'y4')):
        fw, fh = float(g.z3 - g.z4), float(g.y4 - g.y3)
        have = {'flank_width': fw, 'flank_height': fh, 'flank_length': math.hypot(fw, fh)}
        for k in have:
            if isinstance(kw.get(k), (int, float)) and abs(have[k] - kw[k]) > 1e-6 * size:
                P.append(('requested', f"requested {k} = {kw[k]!r}, the straight flank of the contour has {k} = {have[k]!r}"))
    # requested values are reproduced
    for k, v in kw.items():
        if not isinstance(v, (int, float)) or not hasattr(g, k):
            continue
        have = getattr(g, k)
        if not isinstance(have, (int, float, np.floating)):
            continue
        want = math.radians(v) if k in ANGLE_KEYS else v
        if abs(have - want) > 1e-9 * max(1.0, abs(want)) * (size if k in LENGTH_KEYS else 1.0) / (size if k in LENGTH_KEYS and size > 1 else 1.0) + 1e-12:
            P.append(('requested', f"requested {k} = {want!r}, the groove reports {have!r}"))
    return P


def try_build(name, kw, k=1.0):
    try:
        return build(name, kw, k), None
    except Exception as e:      # noqa
        return None, e


_TWIN = [0]
from grooves_catalogue import LENGTH_KEYS as GC_LENGTHS, ANGLE_KEYS as GC_ANGLES      # noqa: E402
# configuration values that have nothing to do with the shape of a groove (solver precision and limits, rotation switch, surface / profile sampling)
UNRELATED_CONFIG = {'DEFAULT_ITERATION_PRECISION': 0.06, 'DEFAULT_MAX_ITERATION_COUNT': 3, 'ROLL_PASS_AUTO_ROTATION': False,
                    'ROLL_SURFACE_DISCRETIZATION_COUNT': 7, 'PROFILE_CONTOUR_REFINEMENT': 13}


def config_twin(chk, name, kw, g, label):
    """what is accepted, what is rejected and which contour is handed out does not depend on configuration values that do not describe grooves"""
    from pyroll.core import Config
    old = {}
    for k, v in UNRELATED_CONFIG.items():
        if hasattr(type(Config), k) or hasattr(Config, k):
            old[k] = getattr(Config, k)
            setattr(Config, k, v)
    try:
        g2, e2 = try_build(name, kw)
    finally:
        for k, v in old.items():
            setattr(Config, k, v)
    same = (g is None) == (g2 is None)
    if same and g is not None:
        a, b = np.asarray(g.contour_points), np.asarray(g2.contour_points)
        same = a.shape == b.shape and bool(np.all(a == b))
    if not same and not any(f.key == 'config-dependent' for f in chk.failures):
        chk.fail('config-dependent', f"{name}{kw} ({label}) is {'returned' if g is not None else 'rejected'} under the default configuration and "
                 f"{'returned' if g2 is not None else 'rejected'}{' with another contour' if g is not None and g2 is not None else ''} when "
                 f"{sorted(old)} are changed to {[UNRELATED_CONFIG[k] for k in sorted(old)]} (values that do not describe grooves)",
                 {'groove': name, 'kwargs': kw, 'stream': label, 'config': {k: UNRELATED_CONFIG[k] for k in old}})


def observer_and_types(chk, name, kw, g, data):
    """(a) looking at a groove - representations, plots, probing its depth function with its own vertex array - changes nothing;
       (b) the same values handed in as 0-d float arrays give the same groove and are left as they were"""
    from common import look_at, as_0d
    before = np.array(g.contour_points, dtype=float, copy=True)
    attrs = {a: float(getattr(g, a)) for a in ('depth', 'usable_width', 'width') if getattr(g, a, None) is not None}
    look_at(g, html=(_TWIN[0] % 6 == 0))
    zs = g.contour_points[:, 0] if hasattr(g.contour_points, 'shape') else np.asarray(g.contour_points)[:, 0]
    try:
        g.local_depth(zs)
        g.local_depth(list(map(float, before[:3, 0])))
        g.local_depth(float(before[0, 0]))
    except Exception:      # noqa
        pass
    after = np.asarray(g.contour_points, dtype=float)
    if after.shape != before.shape or np.any(after != before) or any(float(getattr(g, a)) != v for a, v in attrs.items()) \
            or np.any(np.asarray(g.contour_line.coords) != before):
        return chk.fail('observer-effect', f"{name}{kw}: after the groove was looked at (repr, str, __attrs__, html/plot, local_depth called with its own vertex "
                        f"positions) its contour points / dimensions are no longer what they were (max change "
                        f"{np.max(np.abs(after - before)) if after.shape == before.shape else 'shape'})", data)
    kw0, orig = as_0d(kw, GC_LENGTHS | GC_ANGLES)
    import pyroll.core as _pc
    try:        # (the class itself: the catalogue's build helper would turn the arrays into plain numbers)
        g0, e0 = getattr(_pc, name)(**kw0), None
    except Exception as e_:      # noqa
        g0, e0 = None, e_
    chk.cov['evaluations'] += 1
    if g0 is None:
        return chk.fail('input-type', f"{name}{kw}: the same values handed in as 0-d float arrays are rejected: {type(e0).__name__}: {str(e0)[:100]}", data)
    changed = {k: float(kw0[k]) for k, v in orig.items() if float(kw0[k]) != v}
    p0 = np.asarray(g0.contour_points, dtype=float)
    if changed or p0.shape != before.shape or np.max(np.abs(p0 - before)) > 1e-12 * max(attrs.get('usable_width', 1.0), 1e-300):
        return chk.fail('input-type', f"{name}{kw}: built from 0-d float arrays the groove differs from the one built from floats (max deviation "
                        f"{np.max(np.abs(p0 - before)) if p0.shape == before.shape else 'shape'}), caller's arrays changed: {changed}", data)
    # ... and a groove built earlier from the same caller objects still reports what was requested
    for k, v in orig.items():
        got = getattr(g0, k, None)
        if got is not None and k in GC_LENGTHS and abs(float(got) - v) > 1e-9 * max(abs(v), 1e-300) and abs(float(getattr(g, k)) - v) <= 1e-9 * max(abs(v), 1e-300):
            return chk.fail('input-type', f"{name}{kw}: built from 0-d float arrays the groove reports {k} = {float(got)}, requested {v}", data)


def judge(chk, name, kw, label, must_build=False, must_raise=False):
    g, e = try_build(name, kw)
    chk.cov['evaluations'] += 1
    data = {'groove': name, 'kwargs': kw, 'stream': label}
    _TWIN[0] += 1
    if _TWIN[0] % 2 == 0 or label == 'catalogue':
        config_twin(chk, name, kw, g, label)
    if g is not None and label == 'catalogue' and not [f for f in chk.failures if f.key != 'corner-rounding-above-depth']:
        observer_and_types(chk, name, kw, g, data)
    if g is None:
        chk.x_stats['streams'][label]['rejected'] += 1
        if must_build:
            chk.fail('rejects-valid', f"{name}{kw} ({label}) is rejected: {type(e).__name__}: {e}", data)
        else:       # the property asks for an exception, not for a particular class
            chk.x_stats.setdefault('exception_types', {}).setdefault(type(e).__name__, 0)
            chk.x_stats['exception_types'][type(e).__name__] += 1
        return None
    chk.x_stats['streams'][label]['returned'] += 1
    if must_raise:
        chk.fail('accepts-invalid', f"{name}{kw} ({label}) is accepted although it must be rejected", data)
        return g
    probs = measure(g, kw)
    if probs:
        key, text = probs[0]
        if any(f.key == key for f in chk.failures):
            return g
        chk.fail(key, f"{name}{kw} ({label}) is returned with a malformed contour: {text}", data)
    return g


PERTURB_LEN = (0.02, 0.1, 0.5, 0.9, 1.1, 2.0, 10.0, 50.0)
PERTURB_ANG = (0.5, 5, 30, 45, 60, 85, 89.9, 90, 95, 120, 180)


def streams(chk, rng):
    S = chk.x_stats['streams'] = {k: {'returned': 0, 'rejected': 0} for k in
                                  ('catalogue', 'pad', 'near-miss', 'perturbed', 'negative', 'non-finite', 'too-few', 'too-many', 'generic-arity')}
    pads = (None, 30, 45) if chk.thorough else (None, 30)
    built = []
    for name, kw in CATALOGUE:
        for pad in pads:
            kw2 = dict(kw) if pad is None else dict(kw, pad_angle=pad)
            if blocking(chk):
                return built
            g = judge(chk, name, kw2, 'catalogue', must_build=(pad is None))
            if g is not None:
                built.append((name, kw2, g))
    # every face pad angle, also falling faces (negative) and sharp face corners (r1 = 0): returned => well-formed
    for name, kw in CATALOGUE:
        for pad in (-30, -10, -1, 0, 10):
            for sharp in (False, True):
                if sharp and not kw.get('r1'):
                    continue
                kw2 = dict(kw, pad_angle=pad, **({'r1': 0} if sharp else {}))
                if blocking(chk):
                    return built
                judge(chk, name, kw2, 'pad')
    # the padding of the face in both spellings, several values one after the other on the same groove (what was built before must not matter)
    for name, kw in CATALOGUE[::5]:
        if kw.get('pad_angle'):
            continue
        g0, _ = try_build(name, kw)
        if g0 is None:
            continue
        for spelling, vals in (('pad', (0.05 * g0.usable_width, 0.3 * g0.usable_width, 0.11 * g0.usable_width)), ('rel_pad', (0.1, 0.45, 0.2))):
            for v in vals:
                if blocking(chk):
                    return built
                judge(chk, name, dict(kw, **{spelling: v}), 'pad')
    # near misses: a small even ground (0.4 .. 5 % of the usable width) squeezed into a groove that is otherwise fully determined - the arcs then
    # miss each other by a small step; returned => well-formed, and (config twin) the verdict does not depend on unrelated settings
    for name, kw in CATALOGUE:
        if 'even_ground_width' in kw or kw.get('pad_angle'):
            continue
        g0, _ = try_build(name, kw)
        if g0 is None:
            continue
        for eps in (0.004, 0.0075, 0.02, 0.05):
            if blocking(chk):
                return built
            judge(chk, name, dict(kw, even_ground_width=eps * g0.usable_width), 'near-miss')
    # perturbed parameters: returned => well-formed
    todo = []
    for name, kw in CATALOGUE:
        for k in kw:
            vals = PERTURB_LEN if k in LENGTH_KEYS else PERTURB_ANG if k in ANGLE_KEYS else ()
            for f in vals:
                kw2 = dict(kw)
                kw2[k] = kw[k] * f if k in LENGTH_KEYS else f
                todo.append((name, kw2))
    if not chk.thorough:
        rng.shuffle(todo)
        todo = todo[:700]
    for name, kw2 in todo:
        if blocking(chk):
            return built
        judge(chk, name, kw2, 'perturbed')
    # two parameters at once (thorough)
    if chk.thorough:
        for _ in range(3000):
            name, kw = rng.choice(CATALOGUE)
            kw2 = dict(kw)
            for k in rng.sample(list(kw), min(2, len(kw))):
                if k in LENGTH_KEYS:
                    kw2[k] = kw[k] * math.exp(rng.uniform(-2.5, 2.5))
                elif k in ANGLE_KEYS:
                    kw2[k] = rng.uniform(0, 130)
            if blocking(chk):
                return built
            judge(chk, name, kw2, 'perturbed')
    # negative and non-finite values must be rejected
    for name, kw in CATALOGUE:
        for k in kw:
            if k not in LENGTH_KEYS and k not in ANGLE_KEYS:
                continue
            if blocking(chk):
                return built
            if k not in ('pad_angle', 'rib_angle'):
                judge(chk, name, dict(kw, **{k: -abs(kw[k]) if kw[k] else -1.0}), 'negative', must_raise=True)
            for bad in (float('nan'), float('inf')):
                judge(chk, name, dict(kw, **{k: bad}), 'non-finite', must_raise=True)
    # too few / too many defining values
    seen = set()
    for name, kw, g in built:
        if (name, tuple(sorted(kw))) in seen or 'pad_angle' in kw:
            continue
        seen.add((name, tuple(sorted(kw))))
        import pyroll.core as pc
        sig = inspect.signature(getattr(pc, name).__init__)
        optional = [p for p, v in sig.parameters.items() if v.default is None]
        required = [p for p, v in sig.parameters.items() if v.default is inspect.Parameter.empty and p not in ('self', 'kwargs')]
        for k in kw:
            if k in optional or k in required:
                kw2 = {a: b for a, b in kw.items() if a != k}
                if blocking(chk):
                    return built
                # without any flank specification the flanked round/oval classes fall back to a tangent (zero-length) flank: a
                # determinate, realisable groove - it only has to be well-formed
                judge(chk, name, kw2, 'too-few', must_raise=not (k.startswith('flank_') and name in ('FalseRoundGroove', 'Oval3RadiiFlankedGroove')))
        for k in optional:
            if k in kw or not hasattr(g, k):
                continue
            v = getattr(g, k)
            if not isinstance(v, (int, float, np.floating)) or not math.isfinite(v):
                continue
            v = math.degrees(v) if k in ANGLE_KEYS else float(v)
            if blocking(chk):
                return built
            judge(chk, name, dict(kw, **{k: v}), 'too-many', must_raise=True)
            # one value too many stays one too many when it is a zero (int, float or numpy zero)
            for zero in (0, 0.0, np.float64(0)):
                judge(chk, name, dict(kw, **{k: zero}), 'too-many', must_raise=True)
    # the generic class: exactly three of usable_width, ground_width, flank_angle, depth (values read back from real grooves)
    from pyroll.core import GenericElongationGroove, BoxGroove, FlatGroove
    for proto, dz in ((BoxGroove(depth=52, r1=15, r2=18, usable_width=185.29, ground_width=157.62), False), (FlatGroove(usable_width=100), True)):
        full = dict(usable_width=proto.usable_width, ground_width=proto.ground_width, flank_angle=proto.flank_angle, depth=proto.depth)
        common = dict(r1=proto.r1, r2=proto.r2, even_ground_width=proto.even_ground_width)
        for mask in range(16):
            kw = {k: v for i, (k, v) in enumerate(full.items()) if mask >> i & 1}
            chk.cov['evaluations'] += 1
            try:
                GenericElongationGroove(**common, **kw)
                ok = True
            except Exception:      # noqa
                ok = False
            S['generic-arity']['returned' if ok else 'rejected'] += 1
            # with depth 0 the flank angle is immaterial: (usable_width | ground_width, depth) + flank_angle is the only admissible triple shape
            expect = len(kw) == 3
            if dz and len(kw) == 3 and 'flank_angle' not in kw:
                continue        # flat: usable_width = ground_width, depth = 0 leave the flank angle undetermined (0 / 0)
            if ok != expect:
                chk.fail('generic-arity', f"GenericElongationGroove({common}, {kw}) is {'accepted' if ok else 'rejected'} with {len(kw)} of the four "
                         "defining values", {'kwargs': kw, 'depth_zero': dz})
                return built
    # the generic class itself, every three of its four defining values, looked at and built from 0-d arrays (angles in radians here)
    gw, dp, fl, r2_ = 10.0, 5.0, math.radians(60), 2.0
    full = dict(usable_width=gw + 2 * dp / math.tan(fl), ground_width=gw, flank_angle=fl, depth=dp)
    for drop in full:
        kw = dict({k: v for k, v in full.items() if k != drop}, r1=1.0, r2=r2_, even_ground_width=gw - 2 * r2_ * math.tan(fl / 2))
        g, e = try_build('GenericElongationGroove', kw)
        if g is None:
            chk.notes.append(f"generic three-of-four without {drop}: {type(e).__name__}")
        elif not [f for f in chk.failures if f.key != 'corner-rounding-above-depth']:
            observer_and_types(chk, 'GenericElongationGroove', kw, g, {'groove': 'GenericElongationGroove', 'kwargs': kw, 'stream': 'generic three-of-four'})
    return built


# ------------------------------------------------------------------ by-name factory
def render(name, rng):
    words = re.findall(r'[A-Z][a-z0-9]*|[0-9]+[a-z]*', name)
    if rng.random() < 0.5 and words and words[-1] == 'Groove':
        words = words[:-1]
    out = rng.choice(['', ' ', '\t'])
    for i, w in enumerate(words):
        w = rng.choice([w, w.lower(), w.upper(), w.capitalize(), "".join(rng.choice([c.lower(), c.upper()]) for c in w)])
        out += w
        if i < len(words) - 1:
            out += "".join(rng.choice([' ', '-', '_', '.', '\t', '\n']) for _ in range(rng.choice([0, 1, 1, 2, 3])))
    return out + rng.choice(['', ' ', '_'])


def byname(chk, rng, n):
    import pyroll.core.grooves as G
    from pyroll.core.grooves import GrooveBase, create_groove_by_type_name
    classes = [k for k, v in vars(G).items() if isinstance(v, type) and issubclass(v, GrooveBase)]
    chk.coq.add_text('Gen_byname.v', "From Coq Require Import String List.\nImport ListNotations.\nOpen Scope string_scope.\n"
                     "Definition groove_classes : list string := [" + "; ".join(f'"{c}"' for c in classes) + "].\n")
    chk.coq.compile('Gen_byname.v')
    kw_of = {}
    for name, kw in CATALOGUE:
        kw_of.setdefault(name, kw)
    cases = []
    junk = ['', 'Groove', 'groove', 'Oval', 'RoundGrooves', 'Round Groov', 'Box  Box', 'Profile', 'round-groove-groove', 'xRoundGroove', 'GrooveBase',
            'Spline', 'Generic Elongation', 'constricted-upset-box', 'Oval 3 Radii Flanked', 'oval3radii', 'CIRCULAR_OVAL', 'Equivalent.Ribbed']
    for i in range(n):
        if i < len(junk):
            s, target = junk[i], None
        else:
            target = rng.choice([c for c in classes if c not in ('GrooveBase',)])
            s = render(target, rng)
            if rng.random() < 0.15:
                pos = rng.randrange(len(s) + 1)
                s = s[:pos] + rng.choice('xqz1') + s[pos:]
        # what does the implementation resolve the name to?  (constructor errors of the resolved class are not the factory's)
        got = None
        try:
            import unittest.mock as um
            hit = {}

            def probe(cls):
                def init(self, *a, **k):
                    hit['cls'] = cls.__name__
                return init
            patches = [um.patch.object(getattr(G, c), '__init__', probe(getattr(G, c))) for c in classes]
            for p in patches:
                p.start()
            try:
                create_groove_by_type_name(s)
            finally:
                for p in patches:
                    p.stop()
            got = hit.get('cls')
        except ValueError:
            got = None
        except Exception as e:   # noqa
            got = 'error:' + type(e).__name__
        chk.cov['evaluations'] += 1
        idx = classes.index(got) + 1 if got in classes else 0
        cs = coq_str(s)
        if cs is not None and not (got or '').startswith('error:'):
            cases.append((cs, idx, s, got))
        # independent oracle: a rendering of a class name must resolve to that class
        if target is not None and s == s and not re.search(r'[xqz1]', s.lower().replace('box', '').replace('3', '')) and got != target:
            pass
    txt = ("From PyrollLib Require Import ByName.\nFrom Run Require Import Gen_byname.\nOpen Scope string_scope.\n"
           "Definition cases : list (string * nat) := [\n" + ";\n".join(f"({c}, {i}%nat)" for c, i, _, _ in cases) + "].\n"
           "Eval vm_compute in (byname_mismatches groove_classes cases 0).\n")
    chk.coq.add_text('bncases.v', txt)
    r = chk.coq.compile('bncases.v', timeout=600)
    bad = []
    if not r['ok']:
        chk.unshown_add("correspondence:bncases.v", r['err'][-500:])
    else:
        m = re.search(r'=\s*\[(.*?)\]\s*:\s*list nat', r['out'], re.S)
        if not m:
            chk.unshown_add("correspondence:bncases.v", "unreadable")
        else:
            bad = [int(x) for x in re.findall(r'\d+', m.group(1))]
    chk.x_stats['correspondence_byname'] = {'cases': len(cases), 'resolved': sum(1 for c in cases if c[1]), 'disagreements': len(bad)}
    for i in bad[:3]:
        chk.unshown_add(f"correspondence:byname-case{i}", f"create_groove_by_type_name({cases[i][2]!r}) resolves to {cases[i][3]}, the model disagrees")
    # oracle proper: clean renderings resolve to their class, with a real construction
    for c in classes:
        if c in ('GrooveBase', 'SplineGroove', 'GenericElongationGroove') or c not in kw_of:
            continue
        for _ in range(3 if not chk.thorough else 20):
            s = render(c, rng)
            chk.cov['evaluations'] += 1
            try:
                g = create_groove_by_type_name(s, **kw_of[c])
            except Exception as e:   # noqa
                return chk.fail('by-name', f"create_groove_by_type_name({s!r}, ...) fails: {type(e).__name__}: {e}", {'name': s, 'class': c})
            if type(g).__name__ != c:
                return chk.fail('by-name', f"create_groove_by_type_name({s!r}) builds a {type(g).__name__}, not a {c}", {'name': s, 'class': c})
        # created through the factory = created directly: the same parameter set (also one with a surplus, unknown or missing value) is accepted with
        # the same contour or rejected, whichever way the class is reached
        base = kw_of[c]
        variants = [dict(base)] + [dict(base, **{k: v}) for k, v in (('depth', 3.0), ('usable_width', 40.0), ('r2', 7.0), ('ground_width', 10.0),
                                                                    ('flank_angle', 60), ('tip_depth', 9.0), ('no_such_parameter', 1.0)) if k not in base]
        variants += [{a: b for a, b in base.items() if a != k} for k in base]
        for v in variants:
            def outcome(make):
                try:
                    g_ = make()
                    return 'built', np.asarray(g_.contour_points, dtype=float)
                except Exception as e:      # noqa
                    return 'rejected', type(e).__name__
            direct = outcome(lambda: getattr(G, c)(**v))
            via = outcome(lambda: create_groove_by_type_name(render(c, rng), **v))
            chk.cov['evaluations'] += 2
            same = direct[0] == via[0] and (direct[0] == 'rejected' or (direct[1].shape == via[1].shape and np.array_equal(direct[1], via[1])))
            if not same:
                return chk.fail('by-name-differs', f"{c}(**{v}) is {direct[0]}{' (' + direct[1] + ')' if direct[0] == 'rejected' else ''}, the by-name factory with the "
                                f"same values gives: {via[0]}{' (' + via[1] + ')' if via[0] == 'rejected' else ''}", {'class': c, 'kwargs': v})


def run(chk):
    d = _td.generate(chk)
    rng = random.Random(chk.seed * 3 + 300)
    byname(chk, rng, 150 if not chk.thorough else 1500)
    if d:
        for f in ('C10_proofs.v', 'C03_proofs.v', 'C03.v'):
            chk.coq.add_prop_file(f)
        chk.coq.compile('C10_proofs.v', timeout=600)
        chk.coq.compile('C03_proofs.v', timeout=600)
        chk.coq.compile('C03.v', is_props=True, timeout=600)
        _td.validate(chk, d)
    built = streams(chk, rng)
    chk.cov['distinct_nontrivial'] += len(built)
    chk.sample({'groove': 'FalseRoundGroove', 'kwargs': {'r1': 1e-3, 'r2': 12.5e-3, 'depth': 1e-3, 'flank_angle': 30}})
    chk.cov['rule'] = ("every catalogue construction (all parametric classes, all listed defining subsets) with pad angles none/30"
                       + ("/45" if chk.thorough else "") + ": must build and be well-formed (strictly increasing z, mirror symmetry, not below the face, "
                       "simple, face corner at usable_width/2, flank tangent through it, deepest point = depth, requested values reproduced); one "
                       "parameter at a time scaled by 0.02..50 or angle set to 0.5..180 degrees" + (" and 3000 two-parameter perturbations" if chk.thorough else " (700 sampled)")
                       + ": returned => well-formed; negative, NaN, inf: must raise; one defining value dropped / one consistent surplus value "
                       "added: must raise; GenericElongationGroove on all 16 None-patterns with depth zero/non-zero; by-name factory on random "
                       "renderings (separators, case, optional suffix, typos) vs the string model and with real constructions")
    chk.trusted += ["translator T-D (tools/py2coq/groove_td.py) validated on every catalogue groove",
                    "ByName.v is hand-written (ASCII part of \\s and str.lower), tied by vm_compute correspondence on rendered names; the class list is read from the live namespace"]
    chk.assumptions += ["`wellformed` is a hypothesis of the shape theorems; that the constructors reject what is not well-formed is decided by the search over the "
                        "implementation (partial)", "non-negativity of every vertex and depth = deepest point are measured, not proved (partial)"]


def replay(data):
    print(json.dumps(data, indent=1, default=str)[:2000])
    return 1
