"""C11 - results are independent of the unit of length (dimensional homogeneity).
T-tie: every translated hook implementation is checked by the verified dimension checker (coq/lib/Dim.v)
against the hand-written table tools/dimtable.py.  Oracle: scaled twin runs on the implementation."""
import json
import os
import logging
import math
import random
import re

import numpy as np

import dimtable
import grooves_catalogue as GC
from props import _ta

GROOVE_ATTRS = ['usable_width', 'depth', 'width', 'r1', 'r2', 'r3', 'r4', 'even_ground_width', 'indent', 'z1', 'z3', 'z5', 'z7', 'y1', 'y5']
GROOVE_ANGLES = ['flank_angle', 'pad_angle', 'alpha1', 'alpha2', 'alpha3', 'alpha4']


def relclose(a, b, tol):
    a, b = np.asarray(a, dtype=float), np.asarray(b, dtype=float)
    if a.shape != b.shape:
        return False
    return bool(np.all(np.abs(a - b) <= tol * np.maximum(1e-300, np.maximum(np.abs(a), np.abs(b))) + 0.0) or np.allclose(a, b, rtol=tol, atol=0))


def groove_twins(chk, ks):
    # every groove of the catalogue; the padding of the roll face in its three spellings: default, relative (`rel_pad`, a ratio) and absolute (`pad`, a length)
    cat = list(GC.CATALOGUE)
    for i, (name, kw) in enumerate(GC.CATALOGUE):
        if i % 4 == 0:
            cat.append((name, dict(kw, rel_pad=0.35)))
        elif i % 4 == 1:
            uw = GC.build(name, kw, 1.0).usable_width
            cat.append((name, dict(kw, pad=0.2 * uw)))
    for name, kw in cat:
        try:
            g1 = GC.build(name, kw, 1.0)
        except TypeError:
            if 'pad' in kw or 'rel_pad' in kw:
                continue            # a class that does not take this spelling of the padding
            raise
        scale1 = max(abs(v) for a, v in kw.items() if a in GC.LENGTH_KEYS)
        for k in ks:
            try:
                g2 = GC.build(name, kw, k)
            except Exception as e:
                chk.fail('groove-scale', f"{name}{kw} cannot be constructed when all lengths are scaled by {k}: {type(e).__name__}: {e}",
                         {'groove': name, 'kwargs': kw, 'k': k})
                return
            chk.cov['evaluations'] += 1
            bad = None
            p1, p2 = np.asarray(g1.contour_points), np.asarray(g2.contour_points)
            if p1.shape != p2.shape or np.abs(p2 / k - p1).max() > 1e-7 * scale1:
                bad = f"contour points differ (max deviation {np.abs(p2 / k - p1).max() if p1.shape == p2.shape else 'shape'})"
            for a in GROOVE_ATTRS:
                if bad is None and hasattr(g1, a) and getattr(g1, a) is not None:
                    if abs(getattr(g2, a) / k - getattr(g1, a)) > 1e-7 * scale1:
                        bad = f"{a}: {getattr(g2, a) / k} vs {getattr(g1, a)}"
            for a in GROOVE_ANGLES:
                if bad is None and hasattr(g1, a) and getattr(g1, a) is not None:
                    if abs(getattr(g2, a) - getattr(g1, a)) > 1e-7:
                        bad = f"angle {a}: {getattr(g2, a)} vs {getattr(g1, a)}"
            if bad is None and abs(g2.cross_section.area / k ** 2 - g1.cross_section.area) > 1e-7 * g1.cross_section.area:
                bad = "cross-section area"
            if bad is None and set(g1.classifiers) != set(g2.classifiers):
                bad = "classifiers"
            if bad:
                chk.fail('groove-scale', f"{name}{kw} scaled by {k}: {bad}", {'groove': name, 'kwargs': kw, 'k': k})
                return


def spline_twins(chk, ks):
    """a contour table typed in whole millimetres (integers) and the same contour in other units"""
    from pyroll.core import SplineGroove, Profile
    table = [(0, 0), (5, 8), (15, 12), (30, 12), (40, 8), (45, 0)]

    def describe(k):
        pts = [(z * k, y * k) for z, y in table]
        g = SplineGroove(pts, classifiers=['oval'])
        p = Profile.from_groove(g, filling=0.9, gap=2 * k)
        return [g.usable_width, g.width, g.depth, g.contour_line.length, float(g.local_depth(10 * k)), p.width, p.height], [g.cross_section.area, p.cross_section.area]
    l1, a1 = describe(1)
    for k in [2, 10, 1000] + list(ks):
        l2, a2 = describe(k)
        chk.cov['evaluations'] += 1
        if any(abs(x / k - y) > 1e-9 * 45 for x, y in zip(l2, l1)) or any(abs(x / k ** 2 - y) > 1e-9 * 45 ** 2 for x, y in zip(a2, a1)):
            return chk.fail('spline-scale', f"SplineGroove from an integer contour table scaled by {k} is not the scaled groove: lengths {[x / k for x in l2]} vs {l1}",
                            {'k': k, 'table': table})


def from_groove_twins(chk, ks):
    """a profile cut from a groove: requested by width, by filling or by height / gap, also with widths at and beyond the contour - the same request in
    another unit gives the scaled profile or is rejected alike"""
    from pyroll.core import Profile, CircularOvalGroove, BoxGroove, RoundGroove

    def grooves(k):
        return [('CircularOvalGroove', CircularOvalGroove(depth=8 * k, r1=6 * k, r2=40 * k)),
                ('BoxGroove', BoxGroove(depth=52 * k, r1=15 * k, r2=18 * k, usable_width=185.29 * k, ground_width=157.62 * k)),
                ('RoundGroove', RoundGroove(r1=1 * k, r2=12.5 * k, depth=11.5 * k))]

    def describe(k):
        out = []
        for name, g in grooves(k):
            for spec in ([('filling', f) for f in (0.4, 0.8, 1.0, 1.1, 1.5)]
                         + [('width-of-contour', f) for f in (0.5, 0.9, 1.0, 1.005, 1.02, 1.2, 2.0)]):
                kw = {'filling': spec[1]} if spec[0] == 'filling' else {'width': spec[1] * g.width}
                for gap_kw in ({'gap': 2 * k}, {'height': 2 * g.depth + 3 * k}):
                    try:
                        p = Profile.from_groove(g, **kw, **gap_kw)
                        out.append(((name, spec, sorted(gap_kw)), 'ok', [p.width, p.height], p.cross_section.area))
                    except Exception as e:      # noqa
                        out.append(((name, spec, sorted(gap_kw)), type(e).__name__, [], 0.0))
        return out
    base = describe(1.0)
    for k in ks:
        for (label, o1, l1, a1), (_, o2, l2, a2) in zip(base, describe(k)):
            chk.cov['evaluations'] += 1
            if o1 != o2:
                return chk.fail('from-groove-scale', f"Profile.from_groove({label[0]}, {label[1][0]} {label[1][1]}, {label[2][0]} given): with every length multiplied by "
                                f"{k} the outcome is {o2}, in the original units it is {o1}", {'k': k, 'case': str(label)})
            if any(abs(x / k - y) > 1e-9 * max(l1) for x, y in zip(l2, l1)) or abs(a2 / k ** 2 - a1) > 1e-9 * max(a1, 1e-300):
                return chk.fail('from-groove-scale', f"Profile.from_groove({label[0]}, {label[1][0]} {label[1][1]}, {label[2][0]} given) scaled by {k}: "
                                f"{[x / k for x in l2]} vs {l1}", {'k': k, 'case': str(label)})


def profile_twins(chk, ks):
    from pyroll.core import Profile
    makers = [
        ('round', lambda k: Profile.round(radius=12.5 * k)),
        ('square', lambda k: Profile.square(side=20 * k, corner_radius=2 * k)),
        ('box', lambda k: Profile.box(height=10 * k, width=30 * k, corner_radius=1.5 * k)),
        ('diamond', lambda k: Profile.diamond(height=20 * k, width=30 * k, corner_radius=2 * k)),
        ('hexagon', lambda k: Profile.hexagon(side=10 * k, corner_radius=1 * k)),
    ]
    for name, mk in makers:
        p1 = mk(1.0)
        for k in ks:
            p2 = mk(k)
            chk.cov['evaluations'] += 1
            b1, b2 = np.array(p1.cross_section.bounds), np.array(p2.cross_section.bounds)
            ok = np.abs(b2 / k - b1).max() <= 1e-9 * np.abs(b1).max()
            ok = ok and abs(p2.cross_section.area / k ** 2 - p1.cross_section.area) <= 1e-9 * p1.cross_section.area
            ok = ok and abs(p2.width / k - p1.width) <= 1e-9 * p1.width and abs(p2.equivalent_radius / k - p1.equivalent_radius) <= 1e-9 * p1.width
            ok = ok and len(p1.cross_section.exterior.coords) == len(p2.cross_section.exterior.coords)
            if not ok:
                chk.fail('profile-scale', f"Profile.{name} scaled by {k} is not the scaled shape", {'factory': name, 'k': k})
                return


def flow_stress(self):
    return 50e6 * (1 + self.strain) ** 0.2 * self.roll_pass.strain_rate ** 0.1


def make_sequence(k, three=False, small=False, bare=False):
    from pyroll.core import Roll, RollPass, ThreeRollPass, Transport, RoundGroove, CircularOvalGroove, PassSequence, Profile
    if small:
        # the same process at a fraction of the usual size (wire of 3 mm .. 0.3 mm instead of a 30 mm bar)
        k = k * small
    if three == 'flat':
        # a three-roll block whose second stand has flat rolls: its contact area probes the incoming (three-fold) profile exactly on its lower edge
        from pyroll.core import FlatGroove
        seq = PassSequence([
            ThreeRollPass(label="Pass1", roll=Roll(groove=RoundGroove(r1=1e-3 * k, r2=9.6e-3 * k, depth=4.3e-3 * k, pad_angle=30), nominal_radius=150e-3 * k,
                                                   rotational_frequency=1), inscribed_circle_diameter=18e-3 * k),
            ThreeRollPass(label="Pass2", roll=Roll(groove=FlatGroove(usable_width=20e-3 * k, pad_angle=30), nominal_radius=150e-3 * k, rotational_frequency=1),
                          inscribed_circle_diameter=17e-3 * k)])
        ip = Profile.round(diameter=20e-3 * k, temperature=1473.15, material=["C45", "steel"], length=1 * k, flow_stress=100e6)
    elif not three:
        seq = PassSequence([
            RollPass(label="Oval I", roll=Roll(groove=CircularOvalGroove(depth=8e-3 * k, r1=6e-3 * k, r2=40e-3 * k), nominal_radius=160e-3 * k,
                                               rotational_frequency=1, neutral_point=-20e-3 * k), gap=2e-3 * k),
            Transport(label="I => II", duration=1),
            RollPass(label="Round II", roll=Roll(groove=RoundGroove(r1=1e-3 * k, r2=12.5e-3 * k, depth=11.5e-3 * k), nominal_radius=160e-3 * k,
                                                 rotational_frequency=1), gap=2e-3 * k, disk_element_count=3),
        ])
        ip = Profile.round(diameter=30e-3 * k, temperature=1473.15, material=["C45", "steel"], length=1 * k, density=7.5e3 / k ** 2)
        if bare:
            # only what a solve needs: every optional value (length, density, strain, time, position) is left to the defaults of the package,
            # which must not smuggle in a length of their own
            ip = Profile.round(diameter=30e-3 * k, temperature=1473.15, material=["C45", "steel"])
    else:
        seq = PassSequence([
            ThreeRollPass(label="Oval I", roll=Roll(groove=CircularOvalGroove(depth=8e-3 * k, r1=6e-3 * k, r2=40e-3 * k, pad_angle=30),
                                                    nominal_radius=160e-3 * k, rotational_frequency=1), gap=2e-3 * k),
            Transport(label="I => II", duration=1),
            ThreeRollPass(label="Round II", roll=Roll(groove=RoundGroove(r1=3e-3 * k, r2=25e-3 * k, depth=11e-3 * k, pad_angle=30),
                                                      nominal_radius=160e-3 * k, rotational_frequency=1), gap=2e-3 * k),
        ])
        ip = Profile.round(diameter=55e-3 * k, temperature=1473.15, strain=0, material=["C45", "steel"], flow_stress=100e6, length=1 * k)
    return seq, ip


def numeric_hooks(obj):
    out = {}
    for name in sorted(type(obj).__hooks__):
        if name not in dimtable.TABLE:
            continue
        try:
            v = getattr(obj, name)
        except Exception:
            continue
        if isinstance(v, (bool, str)) or v is None:
            continue
        try:
            a = np.asarray(v, dtype=float)
        except Exception:
            continue
        if a.dtype == float and a.size and a.ndim <= 1:
            out[name] = np.atleast_1d(a)
    return out


def collect(seq):
    out = {}
    for i, u in enumerate(seq.units):
        out[f"u{i}"] = numeric_hooks(u)
        out[f"u{i}.in"] = numeric_hooks(u.in_profile)
        out[f"u{i}.out"] = numeric_hooks(u.out_profile)
        if hasattr(u, 'roll'):
            out[f"u{i}.roll"] = numeric_hooks(u.roll)
        for j, d in enumerate(getattr(u, 'disk_elements', None) or []):
            out[f"u{i}.disk{j}"] = numeric_hooks(d)
            out[f"u{i}.disk{j}.in"] = numeric_hooks(d.in_profile)
            out[f"u{i}.disk{j}.out"] = numeric_hooks(d.out_profile)
    out["seq"] = numeric_hooks(seq)
    return out


class Grab(logging.Handler):
    def __init__(self):
        super().__init__(level=logging.INFO)
        self.msgs = []

    def emit(self, r):
        m = r.getMessage()
        if 'Finished solving' in m or 'exceeded' in m:
            self.msgs.append(re.sub(r"of .* after", "after", m))


def sequence_twins(chk, ks, three, small=False, bare=False):
    from pyroll.core import RollPass, ThreeRollPass
    lg = logging.getLogger("pyroll")
    old = lg.level

    def solve(k):
        seq, ip = make_sequence(k, three, small, bare)
        h = Grab()
        lg.setLevel(logging.INFO)
        lg.addHandler(h)
        try:
            with RollPass.Profile.flow_stress(flow_stress), ThreeRollPass.Profile.flow_stress(flow_stress):
                seq.solve(ip)
        finally:
            lg.removeHandler(h)
            lg.setLevel(old)
        return collect(seq), [re.findall(r"after (\d+) iterations", m) or ['warn'] for m in h.msgs]
    base, it1 = solve(1.0)
    compared = 0
    for k in ks:
        try:
            sc, it2 = solve(k)
        except Exception as e:      # noqa
            chk.fail('solve-fails-scaled', f"the sequence ({'three-roll' if three else 'two-roll'}, size factor {small or 1}) solves when described in metres but "
                     f"fails when every length is scaled by {k}: {type(e).__name__}: {e}", {'k': k, 'three_roll': three, 'size': small or 1})
            return compared
        chk.cov['evaluations'] += 1
        if it1 != it2:
            chk.fail('iterations', f"iteration counts differ between the description in metres and scaled by {k}: {it1} vs {it2}", {'k': k, 'three_roll': three})
            return compared
        for where, hooks in base.items():
            for name, v1 in hooks.items():
                v2 = sc.get(where, {}).get(name)
                if v2 is None or v2.shape != v1.shape:
                    chk.fail('hook-missing', f"{where}.{name} exists in one description only (k={k})", {'k': k, 'hook': name, 'where': where})
                    return compared
                d = float(dimtable.TABLE[name])
                compared += 1
                ref = np.abs(v1).max()
                if name in dimtable.EXCEPTIONS:
                    continue
                if not np.all(np.abs(v2 / k ** d - v1) <= 1e-6 * max(ref, 1e-300)) and not (ref < 1e-12 and np.abs(v2 / k ** d).max() < 1e-9):
                    chk.fail('hook-scale', f"{where}.{name}: {v2.tolist()[:3]} / {k}^{d} = {(v2 / k ** d).tolist()[:3]} differs from {v1.tolist()[:3]}",
                             {'k': k, 'hook': name, 'where': where, 'three_roll': three})
                    return compared
    return compared


def velocity_twins(chk, ks):
    """the backward velocity calculation with the final speed typed as a whole number of the unit in use (3 m/s, 3000 mm/s, 118 inch/s ...): stand speeds scale"""
    from pyroll.core import Roll, RollPass, Transport, RoundGroove, CircularOvalGroove, PassSequence, Profile

    def run_k(k, speed):
        seq = PassSequence([
            RollPass(label="P0", roll=Roll(groove=CircularOvalGroove(depth=8e-3 * k, r1=6e-3 * k, r2=40e-3 * k), nominal_radius=160e-3 * k), gap=2e-3 * k),
            Transport(label="T0", duration=1),
            RollPass(label="P1", roll=Roll(groove=RoundGroove(r1=1e-3 * k, r2=12.5e-3 * k, depth=11.5e-3 * k), nominal_radius=160e-3 * k), gap=2e-3 * k)])
        ip = Profile.round(diameter=30e-3 * k, temperature=1473.15, material=["C45", "steel"], length=1 * k)
        with RollPass.Profile.flow_stress(flow_stress):
            seq.solve_velocities_backward(ip, final_speed=speed, final_cross_section_area=seq.roll_passes[-1].usable_cross_section.area)
        return [float(p.velocity) for p in seq.roll_passes]
    base = run_k(1.0, 3)
    for k in ks:
        speed = 3 * k
        if abs(speed - round(speed)) > 1e-9:
            continue
        got = run_k(k, int(round(speed)))
        chk.cov['evaluations'] += 1
        if any(abs(g / k - b) > 1e-6 * abs(b) for g, b in zip(got, base)):
            return chk.fail('hook-scale', f"backward velocity calculation, final speed 3 (metres) / {int(round(speed))} (lengths scaled by {k}), both typed as integers: stand speeds "
                            f"{[g / k for g in got]} vs {base}", {'k': k, 'final_speed': int(round(speed))})


def near_width_twins(chk, ks):
    """one pass solved with two width prescriptions a few hundredths of a millimetre apart - the same history described in other units gives the same widths"""
    from pyroll.core import Roll, RollPass, Profile, CircularOvalGroove

    def run_k(k):
        g = CircularOvalGroove(depth=8e-3 * k, r1=6e-3 * k, r2=40e-3 * k)
        want = {'w': None}
        model = RollPass.OutProfile.width(lambda self, cycle: None if cycle else want['w'])
        res = []
        try:
            rp = RollPass(label="p", roll=Roll(groove=g, nominal_radius=160e-3 * k, rotational_frequency=1), gap=2e-3 * k)
            for d in (0.0, 4e-5, -2.5e-5, 9e-5):
                want['w'] = 0.9 * g.usable_width + d * k
                with RollPass.Profile.flow_stress(flow_stress):
                    out = rp.solve(Profile.round(diameter=30e-3 * k, temperature=1473.15, strain=0, material=["C45", "steel"], length=1 * k))
                res.append((out.cross_section.bounds[2] - out.cross_section.bounds[0]) / k)
        finally:
            model.hook.remove_function(model)
        return res
    base = run_k(1.0)
    for k in ks:
        got = run_k(k)
        chk.cov['evaluations'] += 1
        if any(abs(a - b) > 1e-9 * abs(b) for a, b in zip(got, base)):
            return chk.fail('hook-scale', f"an oval pass solved four times with width prescriptions 0.9 x usable width + (0, 0.04, -0.025, 0.09) mm: outgoing widths "
                            f"{base} described in metres, {got} (divided by {k}) when every length is scaled by {k}", {'k': k, 'history': 'near widths on one pass'})


def astm_finding(chk):
    """the known unit-bound formula: grain size in metres is built into astm_grain_size_number"""
    from pyroll.core import Profile
    a = Profile.round(radius=1, grain_size=50e-6).astm_grain_size_number
    b = Profile.round(radius=1000, grain_size=50e-3).astm_grain_size_number
    if abs(a - b) > 1e-9:
        chk.fail('astm_grain_size_number', f"grain size 50 um gives ASTM number {a:.3f} in metres and {b:.3f} in millimetres", {'hook': 'astm_grain_size_number'})


def run(chk):
    chk.coq.add_text('Gen_dimtable.v', dimtable.to_coq())
    chk.coq.compile('Gen_dimtable.v')
    _ta.generate(chk)
    chk.coq.add_prop_file('C11.v')
    chk.coq.compile('C11.v', is_props=True, timeout=900)
    if chk.coq.failed():
        # which implementation is not homogeneous? ask Coq for the list
        chk.coq.add_text('which.v', "From PyrollLib Require Import Expr Dim.\nFrom Run Require Import Gen_hookimpls Gen_dimtable.\n"
                         "Definition excepted (i : impl) : bool := existsb (String.eqb (i_hook i)) dim_exceptions.\n"
                         "Eval vm_compute in map (fun i => (i_owner i, i_hook i, i_name i)) (filter (fun i => negb (excepted i || impl_ok dim_table i)) all_impls).\n")
        r = chk.coq.compile('which.v')
        chk.notes.append("not homogeneous according to the checker: " + re.sub(r'\s+', ' ', r['out'])[:1500])
        chk.unshown_add('non-homogeneous implementations', re.sub(r'\s+', ' ', r['out'])[:600])
    ks_geo = [1e-3, 1e-2, 0.1, 10.0, 100.0, 1000.0, 1 / 25.4] if not chk.thorough else [10.0 ** e for e in range(-3, 4) if e] + [1 / 25.4, 0.3937, 7.3]
    ks_seq = [1000.0, 39.37007874015748] if not chk.thorough else [1000.0, 100.0, 39.37007874015748, 3.28084, 0.001]
    groove_twins(chk, ks_geo)
    profile_twins(chk, ks_geo)
    from_groove_twins(chk, ks_geo)
    n1 = sequence_twins(chk, ks_seq, three=False)
    n2 = sequence_twins(chk, ks_seq[:1], three=True)
    n2 += sequence_twins(chk, ks_seq[:1], three=False, bare=True)
    n2 += sequence_twins(chk, [1000.0, 100.0, 39.37007874015748], three='flat')
    for base in (0.1, 0.03, 0.01, 10.0, 40.0):      # wire ... heavy sections: small products and large numbers in small units
        n1 += sequence_twins(chk, ks_seq[:1] + [100.0], three=False, small=base)
    if not chk.failures:
        velocity_twins(chk, [1000.0, 100.0])
    if not chk.failures:
        near_width_twins(chk, [1000.0, 39.37007874015748])
    spline_twins(chk, ks_geo)
    # fail closed: an implementation that left the translatable fragment is no longer covered by the theorem
    allow = set(open(os.path.join(os.path.dirname(os.path.dirname(os.path.abspath(__file__))), 'opaque_allowlist.txt')).read().split())
    now = {o.split(' ')[0] for o in chk.x_stats.get('translator_TA', {}).get('opaque_list', [])}
    for o in sorted(now - allow):
        chk.unshown_add('newly-opaque implementation', f"{o} is no longer in the translatable fragment: its homogeneity is not shown")
    astm_finding(chk)
    chk.cov['distinct_nontrivial'] += len(GC.CATALOGUE) * len(ks_geo) + 5 * len(ks_geo) + len(ks_seq) + 1
    chk.x_stats['twin_runs'] = {'grooves': len(GC.CATALOGUE), 'scale_factors_geometry': ks_geo, 'scale_factors_sequences': ks_seq,
                                'hook_values_compared': n1 + n2}
    chk.sample({'groove': GC.CATALOGUE[0][0], 'kwargs': GC.CATALOGUE[0][1], 'k': ks_geo[0]})
    chk.cov['rule'] = ("scaled twin runs: every groove of the catalogue (61 constructions, all classes) and 5 profile factories for 7+ scale "
                       "factors over six orders of magnitude; a two-roll and a three-roll sequence solved in metres and in mm / inch (all numeric "
                       "hook values of units, rolls, profiles divided by k^dim; iteration counts); distinct = (object, scale factor)")
    chk.trusted += ["hand-written dimension table tools/dimtable.py (length exponents per hook / attribute name)"]
    chk.assumptions += ["np.isclose tolerances in the groove junction tests, shapely buffers (1e-9, 1e-12), root-finder tolerances and float rounding are "
                        "not homogeneous and not modelled: covered by the twin runs over the stated range only (partial)",
                        "opaque (geometry-valued) implementations and the groove solvers are outside the reflection theorem; the propagation "
                        "through a whole solve (C11_network) is not a theorem - exercised by the sequence twins (partial)"]


def replay(data):
    print(json.dumps(data, indent=1, default=str)[:2000])
    return 1
