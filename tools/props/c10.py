"""C10 - all representations of one groove or roll surface describe the same shape."""
import json
import math
import random
import re
from fractions import Fraction

import numpy as np

from grooves_catalogue import CATALOGUE, build
from props import _td


def cq(x):
    f = Fraction(x)
    return f"({f.numerator} # {f.denominator})"


# ------------------------------------------------------------------ independent oracle: grooves
def groove_oracle(chk, name, kw, g):
    size = max(g.usable_width, g.depth)
    tol = 1e-9 * size
    data = {'groove': name, 'kwargs': kw}
    cp = np.asarray(g.contour_points)
    ld = np.array([float(g.local_depth(z)) for z in cp[:, 0]])
    dev = np.abs(ld - cp[:, 1])
    chk.cov['evaluations'] += len(cp)
    if np.max(dev) > tol:
        i = int(np.argmax(dev))
        return chk.fail('vertex-on-depth', f"{name}{kw}: contour vertex {i} ({cp[i, 0]:.6g}, {cp[i, 1]:.6g}) is off the depth function "
                        f"by {dev[i]:.3g} (local_depth gives {ld[i]:.6g})", data)
    # the depth function is one function of the position, whatever numeric type carries the position (whole millimetres as int,
    # numpy integers, lists or arrays of them)
    whole = [z for z in range(-int(g.z0), int(g.z0) + 1)][:60]
    if whole:
        asfloat = np.array([float(g.local_depth(float(z))) for z in whole])
        variants = {'int': lambda: np.array([float(g.local_depth(z)) for z in whole]),
                    'numpy int64': lambda: np.array([float(g.local_depth(np.int64(z))) for z in whole]),
                    'list of int': lambda: np.asarray(g.local_depth(list(whole)), dtype=float),
                    'int array': lambda: np.asarray(g.local_depth(np.array(whole)), dtype=float),
                    'float array': lambda: np.asarray(g.local_depth(np.array(whole, dtype=float)), dtype=float)}
        for label, f in variants.items():
            got = f()
            chk.cov['evaluations'] += len(whole)
            if got.shape != asfloat.shape or np.max(np.abs(got - asfloat)) > tol:
                i = int(np.argmax(np.abs(got - asfloat))) if got.shape == asfloat.shape else 0
                return chk.fail('depth-type', f"{name}{kw}: local_depth at z={whole[i]} given as {label} is {got.flat[i] if got.size else got!r}, "
                                f"given as float it is {asfloat[i]:.9g}", data)
    # the polyline as a curve: every point of the graph of the depth function lies on the polyline up to the discretisation of the arcs
    # (arcs are sampled evenly in z, Config.GROOVE_RADIUS_POINT_COUNT points each: the chord error stays below one per cent of the groove size)
    from shapely.geometry import LineString, Point
    line = LineString(cp)
    zs_ = np.linspace(-g.z1, g.z1, 801)
    ds_ = np.asarray(g.local_depth(zs_), dtype=float)
    far = max(((line.distance(Point(z, y)), z, y) for z, y in zip(zs_, ds_)), key=lambda t: t[0])
    chk.cov['evaluations'] += len(zs_)
    if far[0] > 1e-2 * size:
        return chk.fail('polyline-off-depth', f"{name}{kw}: the point ({far[1]:.6g}, {far[2]:.6g}) of the depth function is {far[0]:.3g} away from the contour "
                        f"polyline (groove size {size:.6g}): polyline and depth function describe different shapes", data)
    # continuity inside the groove: dense scan, no jump larger than what the steepest admissible slope explains
    zs = np.linspace(-g.z0, g.z0, 4001)
    d = np.array([float(g.local_depth(z)) for z in zs])
    step = zs[1] - zs[0]
    if hasattr(g, 'flank_angle'):
        # slopes are bounded by the steepest tangent: flank or face (arcs are tangent to their neighbours)
        smax = max(abs(math.tan(min(g.flank_angle, math.radians(89.9)))), abs(math.tan(g.pad_angle)), 1.0) * 1.5 + 1
        jumps = np.abs(np.diff(d))
        if np.max(jumps) > smax * step + tol:
            i = int(np.argmax(jumps))
            return chk.fail('depth-continuity', f"{name}{kw}: local_depth jumps by {jumps[i]:.3g} between z={zs[i]:.6g} and z={zs[i + 1]:.6g}", data)
    if np.max(np.abs(d - d[::-1])) > tol:
        return chk.fail('depth-even', f"{name}{kw}: local_depth is not even in z", data)
    # junction by junction: value from either side
    for j in ('z7', 'z6', 'z5', 'z4', 'z3', 'z1'):
        if hasattr(g, j):
            zj = getattr(g, j)
            e = 1e-7 * size
            a, b = float(g.local_depth(zj - e)), float(g.local_depth(zj + e))
            if abs(a - b) > 1e-3 * size * 1e-2 + 400 * e:
                return chk.fail('junction-continuity', f"{name}{kw}: local_depth differs across junction {j} ({a:.9g} | {b:.9g})", data)


def roll_oracle(chk, name, kw, g, rng, other=None):
    box = []
    try:
        return _roll_oracle(chk, name, kw, g, rng, other, box)
    finally:
        for hf in box:      # a plug-in grid registered for one step never outlives it
            try:
                hf.hook.remove_function(hf)
            except ValueError:
                pass


def _roll_oracle(chk, name, kw, g, rng, other, box):
    from pyroll.core import Roll
    size = max(g.usable_width, g.depth)
    data = {'groove': name, 'kwargs': kw}
    roll = None
    # histories: a fresh roll; a fresh roll with a contact length; then the SAME roll object after its contact length and after its
    # nominal radius were changed and the cache re-evaluated (as a solve loop does between iterations)
    steps = [(size * rng.uniform(3, 8), None), (size * rng.uniform(3, 8), size * rng.uniform(0.3, 1.2)),
             (None, size * rng.uniform(0.3, 1.2)), (size * rng.uniform(3, 8), None)]
    if other is not None:
        steps += [('swap-groove', None), ('swap-back', None)]
    # the grid lines in rolling direction are whatever the roll reports: given explicitly, supplied by a plugin registered after import, or read
    # before the contact length became known - the surface heights must be laid out on THOSE lines
    steps += [('explicit-grid', None), ('plugin-grid', None), ('x-then-contact', size * rng.uniform(0.3, 1.2))]
    if other is not None:
        steps += [('display-then-groove', None)]
    g_first = g
    plugin = None
    for step, (nominal, cl) in enumerate(steps):
        if plugin is not None:
            plugin.hook.remove_function(plugin)
            box.remove(plugin)
            plugin = None
        if nominal == 'display-then-groove':
            # a fresh roll carrying ANOTHER groove is only displayed (nothing read), then gets this groove: it describes the groove it has now
            from common import look_at
            g = g_first
            size = max(g.usable_width, g.depth)
            nominal, cl = size * rng.uniform(3, 8), None
            roll = Roll(groove=other, nominal_radius=nominal)
            look_at(roll, html=False)
            roll.groove = g
            data = dict(data, nominal_radius=nominal, contact_length=None, history=f"fresh roll built with {type(other).__name__}, displayed (repr, __attrs__), then given this groove")
        elif nominal in ('explicit-grid', 'plugin-grid', 'x-then-contact'):
            g = g_first
            size = max(g.usable_width, g.depth)
            tag, nominal = nominal, size * rng.uniform(3, 8)
            rmin = nominal - float(np.max(np.asarray(g.contour_points)[:, 1]))
            lines = np.linspace(-0.6, 0.6, rng.choice([21, 41, 399])) * rmin
            lines[len(lines) // 2] = 0.0
            if tag == 'explicit-grid':
                roll = Roll(groove=g, nominal_radius=nominal, surface_x=lines)
            elif tag == 'plugin-grid':
                plugin = Roll.surface_x(lambda self, lines=lines: lines)
                box.append(plugin)
                roll = Roll(groove=g, nominal_radius=nominal)
            else:
                roll = Roll(groove=g, nominal_radius=nominal)
                roll.surface_x                  # read (and remembered) before the contact length is known
                roll.contact_length = cl
            data = dict(data, nominal_radius=nominal, contact_length=cl, history={'explicit-grid': f"fresh roll with {len(lines)} explicitly given grid lines surface_x",
                        'plugin-grid': f"fresh roll, {len(lines)} grid lines supplied by a Roll.surface_x implementation registered after import",
                        'x-then-contact': "fresh roll: surface_x read, then contact_length assigned, then surface_y read"}[tag])
        elif nominal in ('swap-groove', 'swap-back'):
            # the SAME roll object gets another groove (deeper or shallower), the cache is re-evaluated
            g = other if nominal == 'swap-groove' else g_first
            roll.surface_y      # make sure the grid and the contour line were read before the swap
            roll.contour_line
            from common import look_at
            look_at(roll, html=False)      # ... and the roll was displayed (repr, __attrs__, rich repr): looking computes nothing that outlives the groove
            roll.groove = g
            roll.reevaluate_cache()
            nominal, cl = roll.nominal_radius, None
            data = dict(data, history=f"re-used roll after its groove was replaced by {type(g).__name__} and reevaluate_cache()")
            size = max(g.usable_width, g.depth)
        elif step < 2:
            kwr = dict(groove=g, nominal_radius=nominal)
            if cl is not None:
                kwr['contact_length'] = cl
            roll = Roll(**kwr)
        else:
            if cl is not None:
                roll.contact_length = cl
            if nominal is not None:
                roll.nominal_radius = nominal
            roll.reevaluate_cache()
            nominal = roll.nominal_radius
        if step < 4:
            data = dict(data, nominal_radius=nominal, contact_length=cl, history='fresh roll' if step < 2 else 're-used roll after changing '
                        + ('contact_length' if step == 2 else 'nominal_radius') + ' and reevaluate_cache()')
        sx, sz, sy = np.asarray(roll.surface_x), np.asarray(roll.surface_z), np.asarray(roll.surface_y)
        cp = np.asarray(g.contour_points)
        tol = 1e-9 * nominal
        chk.cov['evaluations'] += sy.size
        if np.asarray(roll.contour_points).shape != cp.shape or np.max(np.abs(np.asarray(roll.contour_points) - cp)) > 0:
            return chk.fail('roll-contour', f"{name}: the roll's contour points differ from the groove's", data)
        if not (np.all(np.isfinite(sx)) and np.all(np.isfinite(sy)) and np.all(np.isfinite(sz))):
            return chk.fail('surface-nonfinite', f"{name}: the surface grid contains non-finite values (min radius {float(roll.min_radius):.6g}, deepest contour point "
                            f"{float(np.max(cp[:, 1])):.6g}, nominal radius {float(roll.nominal_radius):.6g})", data)
        if sy.shape != (len(sz), len(sx)) or len(sz) != len(cp) or np.max(np.abs(sz - cp[:, 0])) > 0:
            return chk.fail('surface-grid', f"{name}: surface grid does not span contour x rolling direction", data)
        k0 = int(np.argmin(np.abs(sx)))
        if abs(sx[k0]) > tol or np.max(np.abs(sy[:, k0] - cp[:, 1])) > tol:
            return chk.fail('surface-highpoint', f"{name}: surface grid at the high point deviates from the groove contour by "
                            f"{np.max(np.abs(sy[:, k0] - cp[:, 1])):.3g}", data)
        if np.max(np.abs(sx + sx[::-1])) > tol or np.any(np.diff(sx) <= 0):
            return chk.fail('surface-x-symmetric', f"{name}: surface_x is not strictly increasing and antisymmetric", data)
        Rmax = roll.max_radius
        lhs = (Rmax - sy) ** 2 + sx[None, :] ** 2
        rhs = ((Rmax - cp[:, 1]) ** 2)[:, None] * np.ones_like(sx)[None, :]
        if not np.all(np.isfinite(sy)) or np.max(np.abs(lhs - rhs)) > 1e-9 * Rmax ** 2:
            return chk.fail('surface-revolution', f"{name}: the surface grid is not the surface of revolution of the contour about the roll axis "
                            f"(max deviation of squared radius {np.nanmax(np.abs(lhs - rhs)):.3g})", data)
        if abs(Rmax - (roll.nominal_radius)) > tol or abs(roll.min_radius - (Rmax - float(np.max(cp[:, 1])))) > tol:
            return chk.fail('roll-radii', f"{name}: max/min radius are not nominal radius / nominal radius - highest contour point", data)
        # interpolation: nodes, mirrored queries, high-point line against the depth function
        ix = sorted(rng.sample(range(len(sx)), min(6, len(sx))))
        iz = sorted(rng.sample(range(len(sz)), min(6, len(sz))))
        got = roll.surface_interpolation(sx[ix], sz[iz])
        if got.shape != (len(iz), len(ix)) or np.max(np.abs(got - sy[np.ix_(iz, ix)])) > tol:
            return chk.fail('interpolation-nodes', f"{name}: surface_interpolation does not reproduce the grid at its nodes", data)
        # query positions carried by integer types (the high point line z = 0 typed as 0, np.int64(0), [0]; whole-number x): the same surface
        zc = float(sz[len(sz) // 2]) if len(sz) % 2 else 0.0
        if abs(zc) <= tol:
            ref0 = np.ravel(roll.surface_interpolation(sx[ix], 0.0))
            for zi in (0, np.int64(0), [0], np.zeros(1, dtype=int)):
                alt = np.ravel(roll.surface_interpolation(sx[ix], zi))
                if alt.shape != ref0.shape or np.max(np.abs(alt - ref0)) > tol:
                    return chk.fail('interpolation-types', f"{name}: surface_interpolation(x, {zi!r}) (z of type {type(zi).__name__}) differs from surface_interpolation(x, 0.0) "
                                    f"by {np.max(np.abs(alt - ref0)) if alt.shape == ref0.shape else 'shape'}", data)
            alt = np.ravel(roll.surface_interpolation(0, np.asarray(sz[iz])))
            ref1 = np.ravel(roll.surface_interpolation(0.0, np.asarray(sz[iz])))
            if alt.shape != ref1.shape or np.max(np.abs(alt - ref1)) > tol:
                return chk.fail('interpolation-types', f"{name}: surface_interpolation(0, z) differs from surface_interpolation(0.0, z)", data)
        xs = np.sort(np.array([rng.uniform(sx[0], sx[-1]) * 0.6 for _ in range(5)]))
        zq = np.sort(np.array([rng.uniform(sz[0], sz[-1]) * 0.95 for _ in range(5)]))
        a = roll.surface_interpolation(xs, zq)
        b = roll.surface_interpolation(-xs[::-1], zq)[:, ::-1]
        c = roll.surface_interpolation(xs, -zq[::-1])[::-1, :]
        if np.max(np.abs(a - b)) > tol:
            return chk.fail('interpolation-symmetric-x', f"{name}: interpolation is not symmetric in rolling direction", data)
        symmetric_contour = np.max(np.abs(cp[:, 0] + cp[::-1, 0])) <= tol and np.max(np.abs(cp[:, 1] - cp[::-1, 1])) <= tol
        if symmetric_contour and np.max(np.abs(a - c)) > tol:
            return chk.fail('interpolation-symmetric-z', f"{name}: interpolation is not symmetric in width direction", data)
        line = roll.surface_interpolation(0.0, zq).ravel()
        ref = np.interp(zq, cp[:, 0], cp[:, 1])
        if np.max(np.abs(line - ref)) > tol:
            return chk.fail('interpolation-highpoint', f"{name}: interpolation along the high point is not the groove contour", data)
        # between nodes the interpolant stays between the surrounding node values
        i, j = rng.randrange(len(sx) - 1), rng.randrange(len(sz) - 1)
        v = float(np.ravel(roll.surface_interpolation((sx[i] + sx[i + 1]) / 2, (sz[j] + sz[j + 1]) / 2))[0])
        cell = sy[j:j + 2, i:i + 2]
        if not (cell.min() - tol <= v <= cell.max() + tol) or abs(v - cell.mean()) > tol:
            return chk.fail('interpolation-cell', f"{name}: interpolation at a cell centre is not the mean of its four nodes", data)


def entry_point_oracle(chk, rng):
    """entry point = where the roll surface at the groove bottom meets the incoming height"""
    from pyroll.core import Roll, RollPass, Profile, RoundGroove, CircularOvalGroove
    for _ in range(4):
        g = CircularOvalGroove(depth=8e-3, r1=6e-3, r2=40e-3)
        rp = RollPass(roll=Roll(groove=g, nominal_radius=rng.uniform(0.1, 0.3)), gap=rng.uniform(1e-3, 4e-3))
        ip = Profile.round(diameter=rng.uniform(24e-3, 34e-3))
        rp.in_profile = RollPass.InProfile(rp, ip)
        rp.out_profile = RollPass.OutProfile(rp, ip)
        x = float(rp.entry_point)
        # height of the opening at x (groove bottom, both rolls) equals the incoming height
        rmin = rp.roll.min_radius
        opening = rp.height + 2 * (rmin - math.sqrt(rmin ** 2 - x ** 2))
        chk.cov['evaluations'] += 1
        if x >= 0 or abs(opening - rp.in_profile.height) > 1e-9 * rp.in_profile.height:
            return chk.fail('entry-point', f"at the entry point x={x:.6g} the groove bottoms are {opening:.9g} apart, the incoming height is "
                            f"{rp.in_profile.height:.9g}", {'gap': rp.gap, 'nominal_radius': rp.roll.nominal_radius})


# ------------------------------------------------------------------ spline grooves
def spline_polyline(rng, dyadic=True):
    n = rng.choice([3, 4, 4, 5, 5, 6, 7])
    xs = [rng.choice([-4, -2, -1, 0, 1]) / 1.0]
    for _ in range(n - 1):
        xs.append(xs[-1] + rng.choice([0.25, 0.5, 1, 2]))
    ys = [0.0] + [rng.choice([0.5, 1, 1.5, 2, 0.25, 0.75]) for _ in range(n - 2)] + [0.0]
    if n >= 5 and rng.random() < 0.35:
        # contours that touch the face in between (two grooves side by side, a single peak between face points)
        for k in rng.sample(range(1, n - 1), rng.choice([1, 2])):
            ys[k] = 0.0
    pts = list(zip(xs, ys))
    # optional face padding: extra vertices on the face left and right (they are stripped)
    if rng.random() < 0.5:
        pts = [(xs[0] - 1.0, 0.0)] + pts + [(xs[-1] + 0.5, 0.0)]
    return pts


def refine(pts, rng, uneven=True):
    out = []
    for (x0, y0), (x1, y1) in zip(pts, pts[1:]):
        out.append((x0, y0))
        k = rng.choice([0, 1, 3, 6]) if uneven else 1
        ts = [rng.uniform(0.05, 0.95) for _ in range(k)]
        if uneven and rng.random() < 0.3:
            # very dense sampling next to a vertex (a drawing exported with tiny segments): still the same polyline
            ts += [rng.choice([1e-6, 1e-5, 5e-5]), 1 - rng.choice([1e-6, 1e-5, 5e-5])]
        for t in sorted(ts):
            out.append((x0 + t * (x1 - x0), y0 + t * (y1 - y0)))
    out.append(pts[-1])
    return out


def spline_cases(chk, rng, n):
    from pyroll.core import SplineGroove
    rendered = []
    for i in range(n):
        pts = spline_polyline(rng)
        if i % 4 == 3:
            # whole-number polylines carried by integer types (drawings in whole millimetres): Python ints, lists, integer arrays
            xs = [rng.choice([-3, -1, 0, 2])]
            for _ in range(rng.choice([2, 3, 4, 5])):
                xs.append(xs[-1] + rng.choice([1, 1, 2, 4]))   # dyadic slopes keep the comparison with the rational model exact
            ys = [0] + [rng.choice([1, 2, 3]) for _ in range(len(xs) - 2)] + [0]
            pts = list(zip(xs, ys))
            if rng.random() < 0.5:
                pts = [list(p) for p in pts]
        uw = rng.choice([None, None, 0, 3.0, 1.5])
        bad = rng.random() < 0.1
        if bad:
            pts[rng.choice([0, -1])] = (pts[0][0] if rng.random() < 0.5 else pts[-1][0], 0.5)
            pts = sorted(pts) if False else pts
        try:
            g = SplineGroove(pts, classifiers=['x'], usable_width=uw)
            err = False
        except ValueError:
            g, err = None, True
        chk.cov['evaluations'] += 1
        queries = [rng.choice([-3, -2, -1.5, -1, -0.5, -0.25, 0, 0.25, 0.5, 1, 1.5, 2, 3]) for _ in range(5)]
        if err:
            rendered.append((pts, uw, queries, True, [], 0, 0, 0, []))
            continue
        stored = [tuple(map(float, p)) for p in g.contour_points]
        strictly = all(b[0] > a[0] for a, b in zip(stored, stored[1:]))
        vals = [float(g.local_depth(q)) for q in queries] if strictly and len(stored) >= 2 else []
        if not vals:
            queries = []
        rendered.append((pts, uw, queries, False, stored, float(g.width), float(g.usable_width), float(g.depth), vals))
        if strictly and len(stored) >= 2:
            spline_oracle(chk, pts, uw, g, rng)

    def plist(l):
        return "[" + "; ".join(f"({cq(a)}, {cq(b)})" for a, b in l) + "]"

    def qlist(l):
        return "[" + "; ".join(cq(a) for a in l) + "]"
    txt = ["From PyrollLib Require Import Surface.", "Open Scope Q_scope.", "Definition cases : list spline_case := ["]
    rows = []
    for pts, uw, queries, err, stored, w, u, dp, vals in rendered:
        rows.append(f"{{| sc_pts := {plist(pts)}; sc_uw := {'None' if uw is None else 'Some ' + cq(uw)}; sc_queries := {qlist(queries)}; "
                    f"sc_error := {'true' if err else 'false'}; sc_stored := {plist(stored)}; sc_width := {cq(w)}; sc_usable := {cq(u)}; "
                    f"sc_depth := {cq(dp)}; sc_values := {qlist(vals)} |}}")
    txt.append(";\n".join(rows) + "].")
    txt.append("Eval vm_compute in (spline_mismatches cases 0).")
    chk.coq.add_text("spcases.v", "\n".join(txt) + "\n")
    r = chk.coq.compile("spcases.v", timeout=600)
    bad = []
    if not r['ok']:
        chk.unshown_add("correspondence:spcases.v", r['err'][-500:])
    else:
        m = re.search(r'=\s*\[(.*?)\]\s*:\s*list nat', r['out'], re.S)
        if not m:
            chk.unshown_add("correspondence:spcases.v", "unreadable")
        else:
            bad = [int(x) for x in re.findall(r'\d+', m.group(1))]
    chk.x_stats['correspondence_spline'] = {'cases': len(rendered), 'errors_expected': sum(1 for r_ in rendered if r_[3]), 'disagreements': len(bad)}
    for i in bad[:3]:
        chk.unshown_add(f"correspondence:spline-case{i}", f"spline model and SplineGroove disagree on polyline {rendered[i][0]} usable_width={rendered[i][1]}: "
                        f"implementation stored {rendered[i][4]}, width {rendered[i][5]}, values {rendered[i][8]} at {rendered[i][2]}")


def spline_oracle(chk, pts, uw, g, rng):
    """the stored polyline is the given one, centred on the middle of its extent; resampling changes nothing"""
    from pyroll.core import SplineGroove
    data = {'polyline': pts, 'usable_width': uw}
    # face padding = vertices that lie on the face AND whose two neighbours do: every vertex off the face belongs to the groove, also a single peak
    # between two face points
    inner = [p for i, p in enumerate(pts) if not (abs(p[1]) <= 1e-8 and abs(pts[i - 1][1]) <= 1e-8 and abs(pts[(i + 1) % len(pts)][1]) <= 1e-8)]
    xs = [p[0] for p in inner]
    c = (min(xs) + max(xs)) / 2
    stored = np.asarray(g.contour_points)
    if len(stored) != len(inner) or np.max(np.abs(stored - np.array([(x - c, y) for x, y in inner]))) > 1e-12:
        return chk.fail('spline-identity', f"SplineGroove({pts}) does not store the given polyline translated to the middle of its extent", data)
    for (x, y) in stored:
        if abs(float(g.local_depth(x)) - y) > 1e-12:
            return chk.fail('spline-vertex', f"SplineGroove({pts}): depth function misses its own vertex ({x}, {y})", data)
    fine = refine(pts, rng)
    g2 = SplineGroove(fine, classifiers=['x'], usable_width=uw)
    chk.cov['evaluations'] += 1
    zs = np.linspace(stored[0, 0] - 0.5, stored[-1, 0] + 0.5, 101)
    if (abs(g2.width - g.width) > 1e-9 or abs(g2.usable_width - g.usable_width) > 1e-9 or abs(g2.depth - g.depth) > 1e-9
            or np.max(np.abs(g2.local_depth(zs) - g.local_depth(zs))) > 2e-8):      # (segments of 1e-6 of an edge amplify rounding to about 2e-9)
        return chk.fail('spline-refinement', f"refining {pts} by collinear vertices ({len(fine)} vertices) changes the groove: width {g.width} -> {g2.width}, "
                        f"max depth-function deviation {np.max(np.abs(g2.local_depth(zs) - g.local_depth(zs))):.3g}", dict(data, refined=fine))


def run(chk):
    d = _td.generate(chk)
    if d:
        for f in ('C10_proofs.v', 'C10.v'):
            chk.coq.add_prop_file(f)
        chk.coq.compile('C10_proofs.v', timeout=600)
        chk.coq.compile('C10.v', is_props=True, timeout=600)
        _td.validate(chk, d)
    rng = random.Random(chk.seed * 10 + 1000)
    built = 0
    scales = (1.0,) if not chk.thorough else (1.0, 1e-3, 7.3)
    for name, kw in CATALOGUE:
        for pad in (None, 30, 45) if chk.thorough else (None,):
            kw2 = dict(kw) if pad is None else dict(kw, pad_angle=pad)
            for k in scales:
                try:
                    g = build(name, kw2, k)
                except Exception:
                    continue
                built += 1
                if chk.failures:
                    break
                groove_oracle(chk, name, kw2, g)
                if not chk.failures and (chk.thorough or built % 3 == 0):
                    sz = max(g.usable_width, g.depth)
                    from pyroll.core import RoundGroove
                    other = RoundGroove(r1=0.05 * sz, r2=0.6 * sz, depth=(0.55 if built % 2 else 0.2) * sz)     # deeper or shallower than g
                    roll_oracle(chk, name, kw2, g, rng, other)
    # sharp corners: the generic class with r1 = 0 and / or r2 = 0 (a ground corner without rounding), with and without even ground
    from pyroll.core import GenericElongationGroove
    for kw in (dict(r1=1, r2=0, usable_width=20, ground_width=10, even_ground_width=10, depth=5),
               dict(r1=0, r2=0, usable_width=20, ground_width=10, even_ground_width=10, depth=5),
               dict(r1=0, r2=0, usable_width=20, ground_width=10, even_ground_width=4, depth=5),
               dict(r1=2, r2=3, usable_width=30, ground_width=12, even_ground_width=12, depth=6),
               dict(r1=1, r2=0, usable_width=20, ground_width=0, even_ground_width=0, depth=5)):
        if chk.failures:
            break
        try:
            g = GenericElongationGroove(**kw)
        except Exception:
            continue
        built += 1
        groove_oracle(chk, 'GenericElongationGroove', kw, g)
    # spline grooves behind rolls: the roll representations are class independent
    from pyroll.core import SplineGroove
    for pts in ([(-3, 0), (-2, 0), (-1, 1), (1, 1), (2, 0), (3, 0)], [(-2.5, 0), (-2, 0), (-1.5, 1.5), (0.5, 0.5), (2, 0), (2.5, 0)]):
        g = SplineGroove(pts, classifiers=['x'])
        if not chk.failures:
            roll_oracle(chk, 'SplineGroove', {'contour_points': pts}, g, rng)
    # square grids: a polyline sampled with exactly as many vertices as the grid has nodes in rolling direction (one fewer, one more as well)
    if not chk.failures:
        from pyroll.core import Roll
        nx = Roll(groove=SplineGroove([(-3, 0), (-1, 1), (1, 1), (3, 0)], classifiers=['x']), nominal_radius=100).surface_x.size
        for n in (nx - 1, nx, nx + 1):
            z = np.linspace(-10.0, 10.0, n)
            y = np.sqrt(12.0 ** 2 - z ** 2) - np.sqrt(12.0 ** 2 - 10.0 ** 2)
            y[0] = y[-1] = 0
            pts = np.column_stack([z, y])
            g = SplineGroove(pts, classifiers=['round'])
            if not chk.failures:
                roll_oracle(chk, f'SplineGroove (circular arc sampled with {n} vertices; the grid has {nx} nodes in rolling direction)', {'vertices': n}, g, rng)
    if not chk.failures:
        entry_point_oracle(chk, rng)
    spline_cases(chk, rng, 150 if not chk.thorough else 1500)
    chk.cov['distinct_nontrivial'] += built
    chk.sample({'groove': 'RoundGroove', 'kwargs': {'depth': 15.55, 'r1': 2, 'r2': 15.8, 'pad_angle': 30}})
    chk.cov['rule'] = (f"{built} grooves of the catalogue (every parametric class, pad angles as listed{' plus 30/45 degrees and three scales' if chk.thorough else ''}): every contour "
                       "vertex against local_depth, dense continuity scan, junction-by-junction continuity, evenness; rolls with random nominal radius "
                       "with/without contact length: grid vs contour at the high point, surface-of-revolution identity on every grid entry, "
                       "antisymmetric x grid, interpolation at nodes / mirrored queries / high-point line / cell centres; entry point; spline "
                       "grooves: dyadic polylines (with face padding, usable width None/0/given, malformed ends) vs the Q model by vm_compute, "
                       "identity/centring/refinement oracle with uneven collinear refinement")
    chk.trusted += ["translator T-D (tools/py2coq/groove_td.py), validated on every catalogue groove: junction attributes, contour_points and "
                    "local_depth rebuilt from the regenerated terms",
                    "Surface.v (surf_y, xgrid, bilin, spline_init, pl_eval) is hand-written; spline part tied by exact rational correspondence, "
                    "surface part by the oracle's identities on real Roll objects; scipy's interpn/interp1d cell location is modelled as "
                    "'any cell containing the point'"]
    chk.assumptions += ["wellformed (parameter ranges, junction order, no step at z4) is what the solvers and the constructor's checks provide; "
                        "the step check tolerates 0.001 depth, the theorem assumes an exact closure (C04 covers the solvers)",
                        "float rounding abstracted to R / Q"]


def replay(data):
    print(json.dumps(data, indent=1, default=str)[:2000])
    return 1
