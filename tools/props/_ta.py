"""Shared step: regenerate Gen_hookimpls.v from /repo (fragment T-A), validate the translator
by the mock-environment differential, compile it in the check's run directory."""
import os
import random
from common import log, REPO
from py2coq import hookimpls as H, mockenv as M


def function_objects():
    fobj = {}
    for c in H.all_hookhost_classes():
        for n in c.__hooks__:
            for hf in getattr(c, n).functions:
                co = hf.function.__code__
                fobj[(os.path.relpath(co.co_filename, REPO), hf.function.__name__, co.co_firstlineno)] = hf.function
    return fobj


def generate(chk, trials=4):
    import pyroll.core as pc
    impls, chains, owners, mro = H.collect(REPO)
    text = H.emit(impls, chains, owners)
    chk.coq.add_text('Gen_hookimpls.v', text)
    rng = random.Random(chk.seed * 7919 + 17)
    cfg = {}
    for k in pc.Config.to_dict():
        try:
            v = getattr(pc.Config, k)
        except Exception:
            continue
        if isinstance(v, (bool, int, float)):
            cfg['Config.' + k] = float(v)
    fobj = function_objects()
    n_eval, n_bad, n_tr, n_op = 0, 0, 0, 0
    for k, i in sorted(impls.items()):
        if i.paths is None:
            n_op += 1
            continue
        n_tr += 1
        if not i.paths:
            continue
        n, bad = M.validate_paths(fobj[k], i.paths, i.cycle, rng, trials=trials, config_vals=cfg)
        n_eval += n
        if bad:
            n_bad += 1
            chk.unshown_add(f"translator-validation:{i.file}:{i.fname}",
                            f"real function and translated IR disagree on a mock environment: {bad[0]}")
    chk.x_stats['translator_TA'] = {'implementations': len(impls), 'translated': n_tr, 'opaque': n_op,
                                    'mock_evaluations': n_eval, 'mock_disagreements': n_bad,
                                    'opaque_list': sorted(f"{i.file}:{i.fname} ({i.opaque})" for i in impls.values() if i.opaque)}
    chk.trusted.append("translator tools/py2coq (fragment T-A: hook implementations -> Expr.v terms; floats abstracted to R); "
                       f"validated this run by mock-environment differential on {n_eval} evaluations of the real function objects")
    r = chk.coq.compile('Gen_hookimpls.v', timeout=300)
    if not r['ok']:
        chk.unshown_add('Gen_hookimpls.v', r['err'][-800:])
    return impls, chains, owners, mro
