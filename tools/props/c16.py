"""C16 - mutually defined quantities are consistent whichever member is supplied.
T-tie: formulas regenerated from the hook implementations (Gen_hookimpls.v), theorems in coq/props/C16.v.
Oracle: every group x every subset of supplied members x every read order on real objects."""
import itertools
import json
import math
import numpy as np
import random
import time

from props import _ta


def _transport(vals):
    from pyroll.core import Transport, Profile
    t = Transport(label="t", **{k: v for k, v in vals.items() if k in ('length', 'duration')})
    ip = Profile.round(radius=1)
    if 'velocity' in vals:
        t.velocity = vals['velocity']
    return t


def _roll(vals):
    from pyroll.core import Roll, RoundGroove
    return Roll(groove=RoundGroove(r1=1e-3, r2=12.5e-3, depth=11.5e-3), **vals)


def _pipe(vals):
    from pyroll.core import CoolingPipe
    return CoolingPipe(label="c", **vals)


def _pass(vals):
    from pyroll.core import RollPass, Roll, CircularOvalGroove
    return RollPass(label="p", roll=Roll(groove=CircularOvalGroove(depth=8e-3, r1=6e-3, r2=40e-3), nominal_radius=0.16), gap=2e-3, **vals)


_N = [0]


def _pass_roll(vals):
    from pyroll.core import RollPass, Roll, CircularOvalGroove
    _N[0] += 1
    if _N[0] % 2:
        rp = RollPass(label="p", roll=Roll(groove=CircularOvalGroove(depth=8e-3, r1=6e-3, r2=40e-3), nominal_radius=0.16, **vals), gap=2e-3)
        return rp.roll
    # the template roll is looked at first (representations, has_value probes, a derived read), the pass is built from it, and the members are
    # supplied on the pass's own roll afterwards: what the template merely remembered is not a supplied value of the pass's roll
    from common import look_at
    template = Roll(groove=CircularOvalGroove(depth=8e-3, r1=6e-3, r2=40e-3), nominal_radius=0.16)
    for n in ('nominal_diameter', 'nominal_radius', 'min_radius', 'rotational_frequency', 'surface_velocity', 'working_velocity'):
        template.has_value(n)
    look_at(template, html=False)
    rp = RollPass(label="p", roll=template, gap=2e-3)
    for k, v in vals.items():
        setattr(rp.roll, k, v)
    return rp.roll


def _get(obj, m):
    for part in m.split('.'):
        obj = getattr(obj, part)
    return obj


def _pass3(vals):
    from pyroll.core import ThreeRollPass, Roll, CircularOvalGroove
    return ThreeRollPass(label="p3", roll=Roll(groove=CircularOvalGroove(depth=8e-3, r1=6e-3, r2=40e-3, pad_angle=30), nominal_radius=0.16),
                         gap=2e-3, **vals)


def _pass3_roll(vals):
    from pyroll.core import ThreeRollPass, Roll, CircularOvalGroove
    rp = ThreeRollPass(label="p3", roll=Roll(groove=CircularOvalGroove(depth=8e-3, r1=6e-3, r2=40e-3, pad_angle=30), nominal_radius=0.16, **vals), gap=2e-3)
    _KEEP.append(rp)
    del _KEEP[:-4]
    return rp.roll


_KEEP = []


def _pass_with_roll(neutral_point):
    def f(vals):
        from pyroll.core import RollPass, Roll, CircularOvalGroove
        rk = {k.split('.', 1)[1]: v for k, v in vals.items() if k.startswith('roll.')}
        pk = {k: v for k, v in vals.items() if not k.startswith('roll.')}
        return RollPass(label="p", roll=Roll(groove=CircularOvalGroove(depth=8e-3, r1=6e-3, r2=40e-3), nominal_radius=0.16,
                                             neutral_point=neutral_point, **rk), gap=2e-3, **pk)
    return f


def groups(rng):
    """(name, factory, members, consistent base values, sufficient(S) -> bool)"""
    v, d = rng.uniform(0.5, 5), rng.uniform(0.5, 5)
    r = rng.uniform(0.05, 0.5)
    f = rng.uniform(0.5, 5)
    ri = rng.uniform(0.01, 0.2)
    out = []
    out.append(('transport length/duration (velocity given)', lambda vals: _transport(dict(vals, velocity=v)), ['length', 'duration'],
                {'length': v * d, 'duration': d}, lambda S: len(S) >= 1))
    out.append(('transport length/duration (no velocity)', _transport, ['length', 'duration'],
                {'length': v * d, 'duration': d}, lambda S: len(S) >= 2))
    out.append(('roll radius/diameter', _roll, ['nominal_radius', 'nominal_diameter'],
                {'nominal_radius': r, 'nominal_diameter': 2 * r}, lambda S: len(S) >= 1))
    gf = _roll({'nominal_radius': r}).groove.groove_factor if hasattr(_roll({'nominal_radius': r}).groove, 'groove_factor') else 0
    wr0 = _roll({'nominal_radius': r}).working_radius
    out.append(('roll frequency/surface velocity/working velocity', lambda vals: _roll(dict(vals, nominal_radius=r)),
                ['rotational_frequency', 'surface_velocity', 'working_velocity'],
                {'rotational_frequency': f, 'surface_velocity': f * r * 2 * math.pi, 'working_velocity': f * wr0 * 2 * math.pi},
                lambda S: len(S) >= 1))
    out.append(('cooling pipe radius/area', _pipe, ['inner_radius', 'cross_section_area'],
                {'inner_radius': ri, 'cross_section_area': ri ** 2 * math.pi}, lambda S: len(S) >= 1))
    rp = _pass({})
    uw = rp.usable_width
    fr = rng.uniform(0.7, 1.0)
    out.append(('pass target width/filling ratio', _pass, ['target_width', 'target_filling_ratio'],
                {'target_width': fr * uw, 'target_filling_ratio': fr}, lambda S: True))   # filling ratio defaults to 1
    ua = rp.usable_cross_section.area
    cfr = rng.uniform(0.7, 1.0)
    out.append(('pass target area/area filling ratio', _pass, ['target_cross_section_area', 'target_cross_section_filling_ratio'],
                {'target_cross_section_area': cfr * ua, 'target_cross_section_filling_ratio': cfr}, None))
    rp3 = _pass3({})
    uw3 = rp3.usable_width
    out.append(('three-roll pass target width/filling ratio', _pass3, ['target_width', 'target_filling_ratio'],
                {'target_width': fr * uw3, 'target_filling_ratio': fr}, lambda S: True))
    # pass velocity <-> roll working velocity <-> rotational frequency <-> surface velocity, neutral point supplied
    proto = _pass_with_roll(-0.02)({})
    wrp, Rp = proto.roll.working_radius, proto.roll.nominal_radius
    nap = math.asin(-0.02 / wrp)
    fp = rng.uniform(0.5, 3)
    wvp = fp * wrp * 2 * math.pi
    out.append(('pass velocity / roll velocities (neutral point given)', _pass_with_roll(-0.02),
                ['velocity', 'roll.working_velocity', 'roll.rotational_frequency', 'roll.surface_velocity', 'roll.neutral_angle'],
                {'velocity': wvp * math.cos(nap), 'roll.working_velocity': wvp, 'roll.rotational_frequency': fp,
                 'roll.surface_velocity': fp * Rp * 2 * math.pi, 'roll.neutral_angle': nap},
                'single-velocity'))
    wr = _pass_roll({}).working_radius
    na = -rng.uniform(0.01, 0.1)
    out.append(('pass roll neutral point/angle', _pass_roll, ['neutral_point', 'neutral_angle'],
                {'neutral_point': math.sin(na) * wr, 'neutral_angle': na}, lambda S: len(S) >= 1))
    wr3 = _pass3_roll({}).working_radius
    out.append(('three-roll pass roll neutral point/angle', _pass3_roll, ['neutral_point', 'neutral_angle'],
                {'neutral_point': math.sin(na) * wr3, 'neutral_angle': na}, lambda S: len(S) >= 1))
    # a target beyond the usable width (an overfilled pass is a target like any other): width and ratio stay interchangeable
    fro = rng.uniform(1.02, 1.12)
    out.append(('pass target width/filling ratio (overfilled)', _pass, ['target_width', 'target_filling_ratio'],
                {'target_width': fro * uw, 'target_filling_ratio': fro}, lambda S: True))
    out.append(('three-roll pass target width/filling ratio (overfilled)', _pass3, ['target_width', 'target_filling_ratio'],
                {'target_width': fro * uw3, 'target_filling_ratio': fro}, lambda S: True))
    return out


def run_group(chk, g, seen):
    name, factory, members, base, sufficient = g
    subsets = [S for k in range(len(members) + 1) for S in itertools.combinations(members, k)]
    if sufficient == 'single-velocity':
        subsets = [(m,) for m in members if m != 'roll.neutral_angle']
        sufficient = lambda S: True
    for S in subsets:
        if True:
            for order in itertools.permutations(members):
                obj = factory({m: base[m] for m in S})
                res = {}
                for m in order:
                    t0 = time.time()
                    try:
                        res[m] = ('ok', float(_get(obj, m)))
                    except AttributeError:
                        res[m] = ('attr',)
                    except RecursionError:
                        res[m] = ('exc', 'RecursionError')
                    except Exception as e:  # noqa
                        res[m] = ('exc', type(e).__name__)
                    dt = time.time() - t0
                    if dt > 1.0 and not chk.failures:
                        chk.fail('slow', f"{name}: reading {m} with {S} supplied took {dt:.1f} s", {'group': name, 'supplied': S, 'order': order})
                chk.cov['evaluations'] += 1
                seen.add((name, S, order))
                data = {'group': name, 'supplied': list(S), 'order': list(order), 'base': base, 'results': {k2: list(v) for k2, v in res.items()}}
                for m, r in res.items():
                    if r[0] == 'exc':
                        if not chk.failures:
                            chk.fail('error-class', f"{name}: reading {m} with {list(S)} supplied raised {r[1]} (must be a value or AttributeError)", data)
                        return
                    if r[0] == 'ok' and not math.isclose(r[1], base[m], rel_tol=1e-9, abs_tol=1e-15):
                        # a derived value that exists must be the consistent one - unless it stems from a default (target ratios)
                        if sufficient is not None and sufficient(S) and set(S) != set():
                            if not chk.failures:
                                chk.fail('inconsistent', f"{name}: with {list(S)} supplied, {m} reads {r[1]}, consistent value is {base[m]}", data)
                            return
                    if r[0] == 'attr' and sufficient is not None and sufficient(S) and len(S) >= 1 and name != 'pass target width/filling ratio':
                        if not chk.failures:
                            chk.fail('missing', f"{name}: with {list(S)} supplied, {m} is not derived", data)
                        return
                    if r[0] == 'ok' and m not in S and sufficient is not None and not sufficient(S) and name.startswith(('transport', 'cooling', 'roll radius')):
                        if not chk.failures:
                            chk.fail('invented', f"{name}: with only {list(S)} supplied, {m} reads {r[1]}", data)
                        return
                # the supplied values carried by 0-d float arrays (mutable numbers): reading the members leaves them as they were and gives the same answers
                if S and order == tuple(members):
                    arrs = {m: np.array(float(base[m])) for m in S}
                    try:
                        obj0 = factory(dict(arrs))
                        res0 = {}
                        for m in order:
                            try:
                                res0[m] = ('ok', float(_get(obj0, m)))
                            except AttributeError:
                                res0[m] = ('attr',)
                            except Exception as e:      # noqa
                                res0[m] = ('exc', type(e).__name__)
                    except Exception as e:      # noqa
                        res0 = {'<construction>': ('exc', type(e).__name__)}
                    changed = {m: float(a) for m, a in arrs.items() if float(a) != float(base[m])}
                    differs = [m for m in res if res0.get(m, ('?',))[0] != res[m][0] or (res[m][0] == 'ok' and not math.isclose(res0[m][1], res[m][1], rel_tol=1e-9, abs_tol=1e-15))]
                    if changed or differs:
                        if not chk.failures:
                            chk.fail('input-type', f"{name}: {list(S)} supplied as 0-d float arrays: after reading {list(order)} the caller's arrays hold {changed or 'the same values'}; "
                                     f"members answering differently from the float case: {differs[:3]} ({[res0.get(m) for m in differs[:3]]} vs {[res[m] for m in differs[:3]]})", data)
                        return
                # retraction: the supplied members are deleted again and the remembered values re-evaluated - the object must now answer like
                # one that was never supplied anything (no stale, no resurrected value)
                # (not for the cycle-guarded pairs length/duration and the velocities: there re-evaluation is an iteration step in which the remembered
                #  partner legitimately serves as the previous iterate, so a deleted member is re-derived from it - see DESIGN.md section 6)
                if S and order == tuple(members) and name.startswith(('cooling', 'roll radius')):
                    try:
                        for m in S:
                            tgt, attr = (obj, m) if '.' not in m else (_get(obj, m.rsplit('.', 1)[0]), m.rsplit('.', 1)[1])
                            if attr in tgt.__dict__:
                                delattr(tgt, attr)
                        obj.reevaluate_cache()
                        for sub in {m.rsplit('.', 1)[0] for m in members if '.' in m}:
                            if _get(obj, sub) is not getattr(obj, 'roll', None) or not hasattr(type(obj), 'roll'):
                                _get(obj, sub).reevaluate_cache()
                    except Exception as e:      # noqa
                        if not chk.failures:
                            chk.fail('retract', f"{name}: deleting {list(S)} and re-evaluating raises {type(e).__name__}: {e}", data)
                        return
                    blank = factory({})
                    for m in members:
                        def rd(o):
                            try:
                                return ('ok', float(_get(o, m)))
                            except AttributeError:
                                return ('attr',)
                            except Exception as e:      # noqa
                                return ('exc', type(e).__name__)
                        a, b = rd(obj), rd(blank)
                        same = a[0] == b[0] and (a[0] != 'ok' or math.isclose(a[1], b[1], rel_tol=1e-9, abs_tol=1e-15))
                        if not same:
                            if not chk.failures:
                                chk.fail('retract', f"{name}: {list(S)} supplied, everything read, {list(S)} deleted again and the cache re-evaluated: {m} now gives "
                                         f"{a}, an object that never had them gives {b}", data)
                            return
                # round trip: feed the derived values to a fresh object
                derived = {m: r[1] for m, r in res.items() if r[0] == 'ok' and m not in S}
                for m, val in derived.items():
                    obj2 = factory({m: val})
                    for m2 in S:
                        try:
                            back = float(_get(obj2, m2))
                        except AttributeError:
                            continue
                        if len(members) == 2 and not math.isclose(back, base[m2], rel_tol=1e-9, abs_tol=1e-15) and \
                                not name.startswith('pass target'):
                            if not chk.failures:
                                chk.fail('roundtrip', f"{name}: {m}={val} fed to a fresh object gives {m2}={back}, original {base[m2]}", data)
                            return


def reevaluation_chain(chk):
    """a supplied member is CHANGED and the remembered values re-evaluated (what the solution loop does in every iteration): members that were read in
    dependency order answer like those of a fresh object with the new value - after one call, and after a further one"""
    from pyroll.core import Roll, Transport, Profile, CircularOvalGroove
    g = lambda: CircularOvalGroove(depth=8e-3, r1=6e-3, r2=40e-3)      # noqa
    chain = ('nominal_radius', 'surface_velocity', 'working_radius', 'working_velocity')
    for d0, d1, n in ((0.32, 0.40, 1.5), (0.5, 0.25, 0.7)):
        roll = Roll(g(), nominal_diameter=d0, rotational_frequency=n)
        [getattr(roll, m) for m in chain]
        [getattr(roll, m) for m in chain]
        roll.nominal_diameter = d1
        for call in (1, 2):
            roll.reevaluate_cache()
            fresh = Roll(g(), nominal_diameter=d1, rotational_frequency=n)
            chk.cov['evaluations'] += 1
            for m in chain:
                a, b = float(getattr(roll, m)), float(getattr(fresh, m))
                if not math.isclose(a, b, rel_tol=1e-12):
                    return chk.fail('reevaluate', f"roll with nominal_diameter={d0}, rotational_frequency={n}: {list(chain)} read, nominal_diameter changed to {d1}, "
                                    f"reevaluate_cache() called {call} time(s): {m} = {a}, a fresh roll with the new diameter gives {b}",
                                    {'group': 'roll radius / velocities', 'changed': 'nominal_diameter', 'from': d0, 'to': d1, 'calls': call})
    t = Transport(length=6.0)
    t.in_profile = Profile.round(radius=10e-3, velocity=3.0)
    first = (float(t.velocity), float(t.duration))
    t.in_profile.velocity = 4.0
    t.in_profile.reevaluate_cache()
    t.reevaluate_cache()
    chk.cov['evaluations'] += 1
    if first != (3.0, 2.0) or not math.isclose(float(t.velocity), 4.0, rel_tol=1e-12) or not math.isclose(float(t.duration) * float(t.velocity), 6.0, rel_tol=1e-12):
        return chk.fail('reevaluate', f"transport of length 6 fed at velocity 3 (duration {first[1]}), then at velocity 4 and re-evaluated: velocity {float(t.velocity)}, "
                        f"duration {float(t.duration)} - duration x velocity must be the length", {'group': 'transport length/duration', 'changed': 'in_profile.velocity'})


def looked_at_template(chk):
    """a roll that was merely looked at (representations, has_value probes of derived members) before it is handed to a pass: the pass's own roll, given
    another radius, derives what it derives for an untouched template - and consistently"""
    from pyroll.core import Roll, RollPass, RoundGroove
    from common import look_at
    mk = lambda: Roll(groove=RoundGroove(r1=1e-3, depth=15e-3, usable_width=31e-3), nominal_radius=0.15, rotational_frequency=1.5)      # noqa
    members = ('nominal_radius', 'nominal_diameter', 'rotational_frequency', 'surface_velocity', 'working_radius', 'working_velocity')

    def through_pass(template):
        rp = RollPass(label="stand", roll=template, gap=2e-3)       # (kept alive: the roll refers to its pass weakly)
        roll = rp.roll
        roll.nominal_radius = 0.2
        return {m: float(getattr(roll, m)) for m in members}
    looked = mk()
    look_at(looked, html=False)
    for m in members:
        looked.has_value(m)
    a, b = through_pass(mk()), through_pass(looked)
    chk.cov['evaluations'] += 2
    bad = [m for m in members if not math.isclose(a[m], b[m], rel_tol=1e-12)]
    if bad or not math.isclose(b['nominal_diameter'], 0.4, rel_tol=1e-12) or not math.isclose(b['surface_velocity'], 2 * math.pi * 1.5 * 0.2, rel_tol=1e-12):
        return chk.fail('observer-effect', f"a roll (nominal_radius 0.15, 1.5 rev/s) looked at before it was handed to a pass; the pass's roll then given nominal_radius 0.2: "
                        f"{ {m: b[m] for m in (bad or ['nominal_diameter', 'surface_velocity'])} }, with an untouched template {{ {', '.join(f'{m}: {a[m]}' for m in (bad or ['nominal_diameter', 'surface_velocity']))} }}",
                        {'group': 'roll radius / velocities', 'history': 'template looked at before the pass was built'})


def target_group(chk):
    """two-roll pass, target filling ratio supplied: target width and target cross-section area follow it - the area is the one of the opening clipped to the
    target width - and a fresh pass given the derived width agrees"""
    from pyroll.core import Roll, RollPass, Profile, CircularOvalGroove
    for ratio in (0.9, 0.75, 1.0):
        g = CircularOvalGroove(depth=8e-3, r1=6e-3, r2=40e-3)
        mk = lambda **kw: RollPass(label="p", roll=Roll(groove=g, nominal_radius=0.16), gap=2e-3, **kw)      # noqa
        a = mk(target_filling_ratio=ratio)
        chk.cov['evaluations'] += 1
        tw, ta, ua = float(a.target_width), float(a.target_cross_section_area), float(a.usable_cross_section.area)
        want_area = Profile.from_groove(g, width=tw, gap=2e-3).cross_section.area
        b = mk(target_width=tw)
        tb = float(b.target_cross_section_area)
        data = {'group': 'pass target width / filling ratio / cross-section area', 'supplied': ['target_filling_ratio'], 'ratio': ratio}
        if not math.isclose(tw, ratio * float(a.usable_width), rel_tol=1e-9) or not math.isclose(ta, want_area, rel_tol=1e-6) or not math.isclose(ta, tb, rel_tol=1e-9) \
                or (ratio < 1 and not ta < ua):
            return chk.fail('inconsistent', f"two-roll pass with target_filling_ratio = {ratio} supplied: target_width {tw} (usable width {float(a.usable_width)}), "
                            f"target_cross_section_area {ta} (opening clipped to that width: {want_area}, usable area {ua}); a fresh pass given target_width = {tw} reads {tb}", data)


def short_lived_passes(chk):
    """passes that are built, read and dropped one after another (the addresses of their contour objects are re-used): what a pass reports for its opening is
    its own - grooves of equal usable width and different depth, alternately, compared with two passes that are kept alive"""
    import gc
    from pyroll.core import RollPass, ThreeRollPass, Roll, BoxGroove
    for cls, pad in ((RollPass, {}), (ThreeRollPass, {'pad_angle': 30})):
        grooves = [BoxGroove(usable_width=40e-3, depth=d, r1=2e-3, r2=3e-3, flank_angle=70, **pad) for d in (8e-3, 12e-3)]
        mk = lambda g: cls(label="p", roll=Roll(groove=g, nominal_radius=160e-3), gap=2e-3, target_width=36e-3)      # noqa
        keep = [mk(g) for g in grooves]
        ref = [(float(p.usable_cross_section.area), float(p.target_cross_section_area)) for p in keep]
        if abs(ref[0][0] - ref[1][0]) < 1e-9:
            continue
        for i in range(60):
            p = mk(grooves[i % 2])
            got = (float(p.usable_cross_section.area), float(p.target_cross_section_area))
            del p
            gc.collect()
            chk.cov['evaluations'] += 1
            if any(abs(a - b) > 1e-9 * abs(b) for a, b in zip(got, ref[i % 2])):
                return chk.fail('inconsistent', f"{cls.__name__} objects built, read and dropped one after another over two box grooves of equal usable width (depths 8 and 12 mm, target width "
                                f"36 mm): number {i} (depth {8 if i % 2 == 0 else 12} mm) reports usable / target cross-section areas {got}, a pass of the same description that "
                                f"is kept alive reports {ref[i % 2]}", {'case': 'short-lived passes', 'rolls': 2 if cls is RollPass else 3, 'i': i})


def nested_totals(chk):
    """a sequence's length and duration are the sums over its units - one and two levels down, whichever total is read first, solved or not"""
    from pyroll.core import PassSequence, Transport
    for order in ('outer first', 'inner first'):
        for depth in (1, 2):
            leaves = [Transport(label=f"t{i}", length=0.5 + i, duration=1.0 + i) for i in range(4)]
            inner = PassSequence(leaves[1:3], label="inner")
            if depth == 2:
                inner = PassSequence([inner], label="middle")
            outer = PassSequence([leaves[0], inner, leaves[3]], label="outer")
            chk.cov['evaluations'] += 1
            want_l, want_d = sum(0.5 + i for i in range(4)), sum(1.0 + i for i in range(4))
            try:
                if order == 'inner first':
                    inner.length, inner.duration
                got = (float(outer.length), float(outer.duration), float(inner.length), float(inner.duration))
            except Exception as e:      # noqa
                got = f"{type(e).__name__}: {str(e)[:100]}"
            want = (want_l, want_d, 1.5 + 2.5, 2.0 + 3.0)
            if got != want and not (isinstance(got, tuple) and all(abs(a - b) < 1e-12 for a, b in zip(got, want))):
                return chk.fail('inconsistent', f"four transports with length and duration supplied, the middle two in a sequence {depth} level(s) down, totals read {order}: outer "
                                f"length / duration, inner length / duration = {got}, the sums are {want}", {'group': 'sequence totals', 'depth': depth, 'order': order})


def run(chk):
    _ta.generate(chk)
    for f in ('C16_proofs.v', 'C16.v'):
        chk.coq.add_prop_file(f)
    chk.coq.compile('C16_proofs.v', timeout=600)
    chk.coq.compile('C16.v', is_props=True, timeout=600)
    rng = random.Random(chk.seed + 1600)
    seen = set()
    for rep in range(2 if not chk.thorough else 20):
        for g in groups(rng):
            run_group(chk, g, seen)
    if not chk.failures:
        reevaluation_chain(chk)
    if not chk.failures:
        looked_at_template(chk)
    if not chk.failures:
        target_group(chk)
    if not chk.failures:
        nested_totals(chk)
    if not chk.failures:
        short_lived_passes(chk)
    chk.cov['distinct_nontrivial'] += len(seen)
    chk.cov['exhaustive'] = True
    chk.sample({'group': 'transport length/duration (velocity given)', 'supplied': ['length'], 'order': ['duration', 'length']})
    chk.cov['rule'] = ("for each of 10 groups of mutually defined hooks: every subset of members supplied explicitly (consistent positive random "
                       "values) x every read order of all members, on fresh real objects; outcome class, wall time of each read, value against "
                       "the consistent base, round trip through a fresh object; distinct = (group, subset, order)")
    chk.assumptions += ["floats abstracted to R in the theorems; asin/sin round trip needs the stated angle range",
                        "definedness in bounded time is checked on the implementation (exhaustive over subsets and orders), the cycle-flag "
                        "mechanism behind it is proved in C07 (flags restored) and exercised there on generated groups"]


def replay(data):
    print(json.dumps(data, indent=1, default=str)[:2500])
    return 1
