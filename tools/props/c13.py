"""C13 - the unit tree stays consistent under every edit of a sequence.
X-tie: random edit histories on real PassSequence / unit objects vs coq/lib/UnitTree.v (vm_compute);
oracle: the property's invariant and navigation/access clauses checked directly on the real objects."""
import copy
import numpy as np
import json
import random
import re

from common import log

KINDS = ['KPass', 'KTransport', 'KOther']
_groove = None


def make_unit(kind, label):
    global _groove
    from pyroll.core import RollPass, Roll, Transport, Rotator, RoundGroove
    if _groove is None:
        _groove = RoundGroove(r1=1e-3, r2=5e-3, depth=4e-3)
    if kind == 'KPass':
        return RollPass(label=label, roll=Roll(groove=_groove, nominal_radius=0.1), gap=1e-3)
    if kind == 'KTransport':
        return Transport(label=label, duration=1)
    return Rotator(label=label, rotation=0)


# ---- rendering --------------------------------------------------------------------------------
def cz(i):
    return f"({i})%Z"


def coz(i):
    return "None" if i is None else f"(Some {cz(i)})"


def cl(l):
    return "[" + ";".join(map(str, l)) + "]"


def cop(o):
    k = o[0]
    if k == 'newunit':
        return f"(NewUnit {o[1]} {o[2]} {o[3]})"
    if k == 'construct':
        return f"(Construct {o[1]} {cl(o[2])} {o[3]})"
    if k in ('append', 'prepend', 'remove'):
        return f"({k.capitalize()} {o[1]} {o[2]})"
    if k == 'insert':
        return f"(Insert {o[1]} {cz(o[2])} {o[3]})"
    if k == 'extend':
        return f"(Extend {o[1]} {cl(o[2])})"
    if k == 'iadd':
        return f"(IAdd {o[1]} {cl(o[2])})"
    if k == 'setitem':
        return f"(SetItem {o[1]} {cz(o[2])} {o[3]})"
    if k == 'setslice':
        return f"(SetSlice {o[1]} {coz(o[2])} {coz(o[3])} {cl(o[4])})"
    if k == 'delitem':
        return f"(DelItem {o[1]} {cz(o[2])})"
    if k == 'drop':
        return f"(Drop {o[1]} {cz(o[2])})"
    if k == 'delslice':
        return f"(DelSlice {o[1]} {coz(o[2])} {coz(o[3])})"
    if k == 'pop':
        return f"(Pop {o[1]} {coz(o[2])})"
    if k == 'clear':
        return f"(Clear {o[1]})"
    if k == 'flatten':
        return f"(Flatten {o[1]})"
    if k == 'listcopy':
        return f"(ListCopy {o[1]})"
    if k == 'reverse':
        return f"(Reverse {o[1]})"
    raise ValueError(o)


class World:
    """Runs a history on real objects; after each op records result + snapshot."""

    def __init__(self):
        self.objs = {}
        self.order = []

    def uid_of(self, obj):
        for u, o in self.objs.items():
            if o is obj:
                return u
        return None

    def apply(self, o):
        from pyroll.core import PassSequence
        k, O = o[0], self.objs
        try:
            if k == 'newunit':
                O[o[1]] = make_unit(o[2], f"L{o[3]}")
                self.order.append(o[1])
            elif k == 'construct':
                O[o[1]] = PassSequence([O[u] for u in o[2]], label=f"L{o[3]}")
                self.order.append(o[1])
            elif k == 'append':
                O[o[1]].append(O[o[2]])
            elif k == 'prepend':
                O[o[1]].prepend(O[o[2]])
            elif k == 'insert':
                O[o[1]].subunits.insert(o[2], O[o[3]])
            elif k == 'extend':
                us = [O[u] for u in o[2]]
                O[o[1]].subunits.extend(us if len(us) % 2 else (u for u in us))   # list or one-shot iterable
            elif k == 'iadd':
                sub = O[o[1]].subunits
                sub += [O[u] for u in o[2]]
                assert sub is O[o[1]].subunits
            elif k == 'setitem':
                O[o[1]].subunits[o[2]] = O[o[3]]
            elif k == 'setslice':
                O[o[1]].subunits[o[2]:o[3]] = [O[u] for u in o[4]]
            elif k == 'delitem':
                del O[o[1]].subunits[o[2]]
            elif k == 'drop':
                O[o[1]].drop(o[2])
            elif k == 'delslice':
                del O[o[1]].subunits[o[2]:o[3]]
            elif k == 'pop':
                if o[2] is None:
                    O[o[1]].subunits.pop()
                else:
                    O[o[1]].subunits.pop(o[2])
            elif k == 'remove':
                O[o[1]].subunits.remove(O[o[2]])
            elif k == 'clear':
                O[o[1]].subunits.clear()
            elif k == 'flatten':
                O[o[1]].flatten()
            elif k == 'listcopy':
                c = O[o[1]].subunits.copy()
                if c is None or list(c) != list(O[o[1]].subunits) or c is O[o[1]].subunits:
                    return 'TypeError'
            elif k == 'reverse':
                O[o[1]].subunits.reverse()
            else:
                raise ValueError(o)
            return None
        except IndexError:
            return 'IndexError'
        except ValueError:
            return 'ValueError'
        except TypeError:
            return 'TypeError'
        except KeyError:
            return 'KeyError'

    def snapshot(self):
        pars, kids = [], []
        for u in self.order:
            o = self.objs[u]
            p = o.parent
            pu = self.uid_of(p) if p is not None else None
            pars.append((u, 0 if p is None else (pu + 1 if pu is not None else 9999)))
            kids.append((u, [self.uid_of(x) if self.uid_of(x) is not None else 9998 for x in list(o.subunits)]))
        return pars, kids

    # ---- the property, stated directly ------------------------------------------------------------
    def violations(self):
        """returns list of (key, text)"""
        from pyroll.core import PassSequence, BaseRollPass, Transport
        out = []
        listed_in = {}
        for q in self.order:
            seq = self.objs[q]
            lst = list(seq.subunits)
            for i, x in enumerate(lst):
                u = self.uid_of(x)
                listed_in.setdefault(u, []).append(q)
                if x.parent is not seq:
                    out.append(('parent-of-listed', f"unit {u} is listed in {q} at {i} but names parent {self.uid_of(x.parent)}"))
                    continue
                # navigation agrees with the list order
                try:
                    pv = x.prev
                    pv = ('U', self.uid_of(pv))
                except (IndexError, ValueError) as e:
                    pv = ('E', type(e).__name__)
                try:
                    nx = x.next
                    nx = ('U', self.uid_of(nx))
                except (IndexError, ValueError) as e:
                    nx = ('E', type(e).__name__)
                if lst.count(x) == 1:
                    epv = ('E', 'IndexError') if i == 0 else ('U', self.uid_of(lst[i - 1]))
                    enx = ('E', 'IndexError') if i == len(lst) - 1 else ('U', self.uid_of(lst[i + 1]))
                    if pv != epv or nx != enx:
                        out.append(('navigation', f"unit {u} at {i} of {q}: prev={pv} next={nx}, list order gives {epv} {enx}"))
            if isinstance(seq, PassSequence):
                if [self.uid_of(x) for x in seq.units] != [self.uid_of(x) for x in lst] or type(seq.subunits).__name__ != '_SubUnitsList':
                    out.append(('units', f"sequence {q}: units {seq.units} vs list"))
                for i in range(len(lst)):
                    if seq[i] is not lst[i] or seq[i - len(lst)] is not lst[i]:
                        out.append(('index-access', f"sequence {q}[{i}]"))
                    # ... whatever integer type carries the index (a loop over numpy.arange, an argmin)
                    for ix in (np.int64(i), np.int32(i - len(lst)), np.uint8(i)):
                        try:
                            hit = seq[ix]
                        except Exception as e:      # noqa
                            hit = type(e).__name__
                        if hit is not lst[i]:
                            out.append(('index-access', f"sequence {q}[{ix!r}] gives {hit if isinstance(hit, str) else 'another unit'}, the list gives unit {self.uid_of(lst[i])}"))
                            break
                if seq[1:] != lst[1:]:
                    out.append(('slice-access', f"sequence {q}[1:]"))
                for x in lst:
                    first = next(y for y in lst if y.label == x.label)
                    if seq[x.label] is not first:
                        out.append(('label-access', f"sequence {q}[{x.label!r}] is not the first match"))
                if [self.uid_of(x) for x in seq.roll_passes] != [self.uid_of(x) for x in lst if isinstance(x, BaseRollPass)]:
                    out.append(('roll_passes', f"sequence {q}: roll_passes is not the order-preserving sub-list"))
                if [self.uid_of(x) for x in seq.transports] != [self.uid_of(x) for x in lst if isinstance(x, Transport)]:
                    out.append(('transports', f"sequence {q}: transports is not the order-preserving sub-list"))
        for u in self.order:
            x = self.objs[u]
            if u not in listed_in and x.parent is not None:
                out.append(('parent-of-removed', f"unit {u} is listed nowhere but names parent {self.uid_of(x.parent)}"))
            if x.parent is not None and u in listed_in and self.uid_of(x.parent) not in listed_in[u]:
                pass  # already reported as parent-of-listed
        return out


def adds_listed_unit(o, listed, before_kids):
    """the known-finding pattern: an operation adds a unit that is currently listed somewhere (or twice at once)"""
    k = o[0]
    added = []
    if k in ('append', 'prepend'):
        added = [o[2]]
    elif k == 'insert':
        added = [o[3]]
    elif k in ('extend', 'iadd'):
        added = list(o[2])
    elif k == 'construct':
        added = list(o[2])
    elif k == 'setitem':
        added = [o[3]]
    elif k == 'setslice':
        added = list(o[4])
    if len(set(added)) != len(added):
        return True
    for u in added:
        if u in listed:
            if k == 'setitem':
                cur = before_kids.get(o[1], [])
                n = o[2] if o[2] >= 0 else o[2] + len(cur)
                if 0 <= n < len(cur) and cur[n] == u and listed[u] == [o[1]]:
                    continue
            if k == 'setslice':
                # a unit of the replaced window itself may stay (the window is filtered, reordered or re-assigned)
                cur = before_kids.get(o[1], [])
                if u in cur[slice(o[2], o[3])] and listed[u] == [o[1]]:
                    continue
            return True
    return False


# ---- generator --------------------------------------------------------------------------------------
def gen_history(rng, n_ops, inadmissible_rate):
    ops = []
    kids = {}          # model-free bookkeeping of lists, to generate mostly valid ops
    free, seqs, nid = [], [], 1

    def new_unit():
        nonlocal nid
        u = nid
        nid += 1
        ops.append(('newunit', u, rng.choice(KINDS), rng.randint(1, 4)))
        kids[u] = []
        free.append(u)
        return u

    def listed():
        return {x for l in kids.values() for x in l}

    def ancestors(q):
        out, cur = {q}, q
        while True:
            ps = [p for p, l in kids.items() if cur in l]
            if not ps or ps[0] in out:
                return out
            cur = ps[0]
            out.add(cur)

    def pick_add(q=None):
        bad = ancestors(q) if q is not None else set()      # never build a cycle (a sequence inside itself)
        if rng.random() < inadmissible_rate and (listed() - bad):
            return rng.choice(sorted(listed() - bad))
        cands = [u for u in free if u not in listed() and u not in bad]
        if not cands or rng.random() < 0.5:
            return new_unit()
        return rng.choice(cands)

    for _ in range(rng.randint(1, 3)):
        us = [new_unit() for _ in range(rng.randint(0, 4))]
        q = nid
        nid += 1
        ops.append(('construct', q, us, rng.randint(1, 4)))
        kids[q] = list(us)
        seqs.append(q)
        free.append(q)
    for _ in range(n_ops):
        q = rng.choice(seqs)
        L = len(kids[q])
        idx = lambda: rng.randint(-L - 2, L + 1)
        r = rng.random()
        if r < 0.12:
            u = pick_add(q); ops.append(('append', q, u)); kids[q].append(u)
        elif r < 0.18:
            u = pick_add(q); ops.append(('prepend', q, u)); kids[q].insert(0, u)
        elif r < 0.26:
            i, u = idx(), pick_add(q); ops.append(('insert', q, i, u)); kids[q].insert(i, u)
        elif r < 0.34:
            us = list(dict.fromkeys(pick_add(q) for _ in range(rng.randint(0, 3))))
            ops.append((rng.choice(['extend', 'iadd']), q, us)); kids[q].extend(us)
        elif r < 0.42:
            i = idx()
            u = kids[q][i] if (-L <= i < L and rng.random() < 0.2) else pick_add(q)
            ops.append(('setitem', q, i, u))
            if -L <= i < L:
                kids[q][i] = u
        elif r < 0.50:
            a, b = rng.choice([None, idx()]), rng.choice([None, idx()])
            us = list(dict.fromkeys(pick_add(q) for _ in range(rng.randint(0, 3))))
            if rng.random() < 0.4:
                # a window filtered / reordered / re-assigned in place: units of the replaced window stay (seq.subunits[:] = [u for u in ... if ...])
                window = list(kids[q][a:b])
                keep = [u for u in window if rng.random() < 0.6]
                if rng.random() < 0.3:
                    rng.shuffle(keep)
                us = list(dict.fromkeys(keep + (us[:1] if rng.random() < 0.3 else [])))
            ops.append(('setslice', q, a, b, us)); kids[q][a:b] = us
        elif r < 0.58:
            i = idx(); ops.append((rng.choice(['delitem', 'drop']), q, i))
            if -L <= i < L:
                del kids[q][i]
        elif r < 0.63:
            a, b = rng.choice([None, idx()]), rng.choice([None, idx()])
            ops.append(('delslice', q, a, b)); del kids[q][a:b]
        elif r < 0.71:
            i = rng.choice([None, idx()]); ops.append(('pop', q, i))
            try:
                kids[q].pop() if i is None else kids[q].pop(i)
            except IndexError:
                pass
        elif r < 0.78:
            u = rng.choice(kids[q]) if kids[q] and rng.random() < 0.8 else rng.choice(free)
            ops.append(('remove', q, u))
            if u in kids[q]:
                kids[q].remove(u)
        elif r < 0.81:
            ops.append(('clear', q)); kids[q] = []
        elif r < 0.87:
            ops.append(('flatten', q))
            nl = []
            for u in kids[q]:
                if u in seqs:
                    nl.extend(kids[u]); kids[u] = []
                else:
                    nl.append(u)
            kids[q] = nl
        elif r < 0.90:
            ops.append(('listcopy', q))
        elif r < 0.95:
            ops.append(('reverse', q)); kids[q].reverse()
        else:
            us = [pick_add() for _ in range(rng.randint(0, 3))]
            us = list(dict.fromkeys(us))
            q2 = nid
            nid += 1
            ops.append(('construct', q2, us, rng.randint(1, 4))); kids[q2] = list(us); seqs.append(q2); free.append(q2)
    return ops


def run_history(ops, check_each=True):
    """returns (results, snapshots, first violation or None, whether it follows the known-finding pattern)"""
    W = World()
    results, snaps, viol = [], [], None
    tainted = False
    for o in ops:
        before = {u: [W.uid_of(x) for x in W.objs[u].subunits] for u in W.order}
        listed = {}
        for q, l in before.items():
            for u in l:
                listed.setdefault(u, []).append(q)
        if adds_listed_unit(o, listed, before):
            tainted = True
        res = W.apply(o)
        results.append(res)
        snaps.append(W.snapshot())
        if check_each and viol is None:
            v = W.violations()
            if v:
                viol = (o, v[0], tainted)
    return results, snaps, viol, W


def render_case(ops, results, snaps):
    exp = []
    for res, (pars, kids) in zip(results, snaps):
        r = "None" if res is None else f"(Some {res})"
        sp = "[" + ";".join(f"({u},{p})" for u, p in pars) + "]"
        sk = "[" + ";".join(f"({u},{cl(l)})" for u, l in kids) + "]"
        exp.append(f"({r}, mksnap {sp} {sk})")
    return "([" + "; ".join(cop(o) for o in ops) + "],\n [" + ";\n  ".join(exp) + "])"


def deepcopy_check(chk, W):
    """a deep copy of a root sequence is itself consistent and shares no unit with the original"""
    from pyroll.core import PassSequence
    for q in W.order:
        s = W.objs[q]
        if isinstance(s, PassSequence) and s.parent is None:
            c = copy.deepcopy(s)
            orig = {id(x) for x in W.objs.values()}
            stack = [c]
            while stack:
                x = stack.pop()
                if id(x) in orig:
                    return f"deep copy of sequence {q} shares a unit with the original"
                for y in x.subunits:
                    if y.parent is not x:
                        return f"deep copy of sequence {q}: a listed unit does not name the copy as parent"
                    stack.append(y)
            # the copy is a sequence like any other: edits go on, on the copy and on the copied inner sequences (also after the original is gone from view)
            from pyroll.core import Transport
            seqs, stack = [], [c]
            while stack:
                x = stack.pop()
                if isinstance(x, PassSequence):
                    seqs.append(x)
                stack.extend(x.subunits)
            for k, x in enumerate(seqs):
                new = [Transport(label=f"added{k}{j}", duration=1) for j in range(4)]
                how = ('append', 'prepend', 'extend', 'item assignment')[k % 4]
                if how == 'append':
                    x.append(new[0])
                elif how == 'prepend':
                    x.prepend(new[0])
                elif how == 'extend':
                    lst = x.subunits
                    lst += new[1:3]
                elif len(x.subunits):
                    x.subunits[0] = new[3]
                else:
                    x.subunits.insert(0, new[3])
                for y in x.subunits:
                    if y.parent is not x:
                        return (f"deep copy of sequence {q}, then {how} on {'the copy' if x is c else 'a copied inner sequence'}: the listed unit {y.label!r} names "
                                f"{'the ORIGINAL sequence' if any(y.parent is o for o in W.objs.values()) else 'none' if y.parent is None else 'another sequence'} as parent")
    # a deep copy of a unit taken on its own (a pass out of a sequence, an inner sequence out of an outer one): the copy is a unit like any other -
    # it names a parent only if that parent lists it, and never reaches into the original tree
    for u in W.order:
        x = W.objs[u]
        if x.parent is None:
            continue
        memo = {}
        c = copy.deepcopy(x, memo)
        pc = c.parent
        if pc is not None and (all(y is not c for y in pc.subunits) or any(pc is o for o in W.objs.values())):
            return (f"deep copy of unit {u} (listed in {W.uid_of(x.parent)}): the copy names "
                    f"{'the ORIGINAL sequence ' + str(W.uid_of(pc)) if any(pc is o for o in W.objs.values()) else 'a sequence'} as parent"
                    f"{'' if any(y is c for y in pc.subunits) else ' but is not listed there'}")
        for y in c.subunits:
            if y.parent is not c or any(y is o for o in W.objs.values()):
                return f"deep copy of unit {u}: a unit listed in the copy does not name the copy as parent or is shared with the original"
    return None


def run(chk):
    from py2coq import unitlist_tu
    from py2coq.ir import Untranslatable
    try:
        txt, info = unitlist_tu.generate()
        chk.x_stats['translator_TU'] = info
    except Untranslatable as e:
        chk.unshown_add('translator T-U', f"unit.py left the recognised fragment: {e}")
        txt = ("From PyrollLib Require Import UnitTree UnitEffects.\nFrom Coq Require Import String.\n"
               "Definition gen_methods : list (string * list effect) := [].\n")
    chk.coq.add_text('Gen_unitlist.v', txt)
    chk.coq.compile('Gen_unitlist.v')
    chk.coq.add_prop_file('C13.v')
    chk.coq.compile('C13.v', is_props=True, timeout=600)
    chk.trusted.append("translator T-U (tools/py2coq/unitlist_tu.py): _SubUnitsList methods as effect sequences in source order; fail closed; the list semantics "
                       "of each method (which list results, which units are current / new) stay hand-written in UnitTree.step and are tied by the correspondence run")
    rng = random.Random(chk.seed * 613 + 13)
    n = 4000 if chk.thorough else 600
    cases, rendered, opmix = [], [], {}
    n_viol = 0
    # corpus (runs first): look-alike units - two empty sequences with equal labels, two transports with equal labels - side by side in one parent;
    # navigation and removal go by identity, never by what the units look like
    corpus = [
        [('construct', 1, [], 1), ('construct', 2, [], 1), ('newunit', 3, KINDS[1], 2), ('construct', 10, [1, 3, 2], 3), ('remove', 10, 2), ('append', 10, 2),
         ('reverse', 10), ('pop', 10, 0), ('prepend', 10, 2), ('remove', 10, 1)],
        [('newunit', 1, KINDS[2], 1), ('newunit', 2, KINDS[2], 1), ('construct', 3, [], 2), ('construct', 4, [], 2), ('construct', 10, [1, 3, 2, 4], 3),
         ('remove', 10, 4), ('remove', 10, 2), ('insert', 10, 0, 4), ('delitem', 10, -1), ('append', 10, 3), ('reverse', 10)],
        [('construct', 1, [], 1), ('construct', 2, [], 1), ('construct', 3, [], 1), ('construct', 10, [1, 2, 3], 1), ('remove', 10, 3), ('remove', 10, 2),
         ('extend', 10, [3, 2]), ('pop', 10, 1), ('flatten', 10)],
    ]
    for i in range(n):
        if i < len(corpus):
            ops = corpus[i]
        else:
            ops = gen_history(rng, rng.randint(3, 40 if not chk.thorough else 80), inadmissible_rate=0.0 if i % 10 else 0.3)
        results, snaps, viol, W = run_history(ops)
        cases.append(ops)
        rendered.append(render_case(ops, results, snaps))
        for o in ops:
            opmix[o[0]] = opmix.get(o[0], 0) + 1
        chk.cov['evaluations'] += 1
        if viol:
            o, (key, text), tainted = viol
            n_viol += 1
            if tainted:
                if not any(f.key == 'add-listed-unit' for f in chk.failures):
                    chk.fail('add-listed-unit', f"after {o}: {text}", {'history': ops[:ops.index(o) + 1]})
            elif sum(1 for f in chk.failures if f.key != 'add-listed-unit') < 3:
                chk.fail(key, f"after {o}: {text}", {'history': ops[:ops.index(o) + 1]})
        elif i % 25 == 0:
            d = deepcopy_check(chk, W)
            if d:
                chk.fail('deepcopy', d, {'history': ops})
    chk.cov['distinct_nontrivial'] += len({json.dumps(c, default=str) for c in cases})
    chk.sample([list(map(str, o)) for o in cases[1][:14]])
    # correspondence with the Coq model
    import concurrent.futures as cf
    files, shard = [], 100
    for s in range(0, len(rendered), shard):
        name = f"ucases_{s // shard}.v"
        chk.coq.add_text(name, "From PyrollLib Require Import UnitTree UnitCases.\nOpen Scope nat_scope.\n"
                         "Definition cases : list (list op * list (result * snap)) := [\n" + ";\n".join(rendered[s:s + shard]) +
                         "].\nEval vm_compute in (umismatches cases 0).\n")
        files.append((name, s))
    with cf.ThreadPoolExecutor(12) as ex:
        res = list(ex.map(lambda f: chk.coq.compile(f[0], timeout=900), files))
    bad = []
    for (name, s), r in zip(files, res):
        if not r['ok']:
            chk.unshown_add(f"correspondence:{name}", r['err'][-600:])
            continue
        m = re.search(r'=\s*\[(.*?)\]\s*:\s*list nat', r['out'], re.S)
        if not m:
            chk.unshown_add(f"correspondence:{name}", "unreadable: " + r['out'][-200:])
            continue
        bad += [s + int(x) for x in re.findall(r'\d+', m.group(1))]
    chk.x_stats['correspondence'] = {'histories': len(cases), 'disagreements': len(bad), 'op_mix': opmix,
                                     'histories_with_known_pattern': sum(1 for i in range(n) if i % 10 == 0)}
    for i in bad[:3]:
        chk.unshown_add(f"correspondence:case{i}", "model and implementation disagree on history " + json.dumps(cases[i], default=str)[:1200])
    if bad and not [f for f in chk.failures if f.key != 'add-listed-unit']:
        i = bad[0]
        chk.fail('deviation', "implementation deviates from the verified unit-tree model", {'history': cases[i]})
    chk.cov['rule'] = ("seeded random edit histories (3-80 operations) over 1-5 sequences, flat and nested, with units moving between "
                       "sequences; every 10th history deliberately adds units that are still listed (known-finding pattern); "
                       "after every operation: parent of every unit ever created, every list, prev/next, index/slice/label access, "
                       "roll_passes/transports; distinct = distinct histories")
    chk.trusted += ["correspondence harness tools/props/c13.py (renders histories to real objects and to Coq terms)"]
    chk.assumptions += ["deep copy is checked on the implementation only (consistency of the copy, nothing shared)",
                        "Flatten is outside the general invariant theorem (checked by computation on an instance, by the "
                        "correspondence run and by the oracle)"]


def replay(data):
    inp = data.get('input') or {}
    ops = [tuple(tuple(x) if isinstance(x, list) and i == 0 else x for i, x in enumerate(o)) for o in inp.get('history', [])]
    ops = [tuple(o) for o in inp.get('history', [])]
    results, snaps, viol, W = run_history(ops)
    print("replay:", viol if viol else "property holds on this history")
    return 1 if viol else 0
