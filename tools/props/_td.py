"""Shared by C03/C04/C10/C11: fragment T-D (generic_elongation.py -> Gen_groove.v) and its validation against real grooves."""
import math

import numpy as np

from py2coq import groove_td
from py2coq.ir import Untranslatable, evaluate
from grooves_catalogue import CATALOGUE, build


def generate(chk):
    """writes and compiles Gen_groove.v; returns the translation dict or None"""
    try:
        txt, d = groove_td.generate()
    except Untranslatable as e:
        chk.unshown_add('translator T-D', f"generic_elongation.py left the recognised fragment: {e}")
        return None
    chk.coq.add_text('Gen_groove.v', txt)
    r = chk.coq.compile('Gen_groove.v')
    chk.x_stats['translator_TD'] = {'junction_terms': len(d['junctions']), 'contour_functions': len(d['funcs']),
                                    'pieces': len(d['pieces']), 'items': len(d['items'])}
    return d if r['ok'] else None


def rho_of(g):
    """the resolved inputs of the junction chain, read back from a real groove"""
    pa = g.pad_angle
    pad = math.hypot(g.z0 - g.z1, g.y0 - g.y1)
    return {'r1': g.r1, 'r2': g.r2, 'r3': g.r3, 'r4': g.r4, 'alpha3': g.alpha3, 'alpha4': g.alpha4, 'indent': g.indent,
            'even_ground_width': g.even_ground_width, 'pad': pad, 'pad_angle': pa, 'flank_angle': g.flank_angle,
            'usable_width': g.usable_width, 'depth': g.depth, 'ground_width': g.ground_width}


def model_right_points(d, rho, n):
    """the right half of the polyline from the regenerated items (with the isclose guards)"""
    J = {k: evaluate(v, rho) for k, v in d['junctions'].items()}
    pts = []
    for it in d['items']:
        if it[0] == 'point':
            if it[3] is not None and np.isclose(J[it[3][0]], J[it[3][1]]):
                continue
            pts.append((J[it[1]], J[it[2]]))
        else:
            a, b = J[it[1]], J[it[2]]
            if np.isclose(a, b):
                continue
            f = d['funcs'][it[3]]
            for i in range(n):
                z = a + (b - a) * i / n
                r2 = dict(rho)
                r2['z'] = z
                pts.append((z, 0.0 if f == ('z', 0) else evaluate(f, r2)))
    return pts


def model_local_depth(d, rho, z):
    J = {k: evaluate(v, rho) for k, v in d['junctions'].items()}
    z = abs(z)
    r2 = dict(rho)
    r2['z'] = z
    out = evaluate(d['funcs'][d['default']], r2)
    for lo, hi, f in d['pieces']:
        if (lo is None or J[lo] <= z) and z < J[hi]:
            out = evaluate(d['funcs'][f], r2)
    return out


def validate(chk, d, grooves=None):
    """mock-free validation of T-D: the regenerated chain, evaluated on the inputs read back from real grooves, must give the
    real junction attributes, the real contour and the real local_depth"""
    from pyroll.core import Config
    n = Config.GROOVE_RADIUS_POINT_COUNT
    worst = 0.0
    count = 0
    wellformed = 0
    not_wf = []
    for name, kw in (grooves or CATALOGUE):
        try:
            g = build(name, kw)
        except Exception:
            continue
        rho = rho_of(g)
        size = max(g.usable_width, g.depth, 1e-300)
        for k, e in d['junctions'].items():
            if not hasattr(g, k) or k in ('usable_width', 'depth'):
                continue
            dev = abs(evaluate(e, rho) - getattr(g, k)) / (size if k[0] in 'zy' else 1.0)
            worst = max(worst, dev)
            if dev > 1e-9:
                chk.unshown_add(f"translator-validation:{k}", f"{name}{kw}: regenerated {k} = {evaluate(e, rho)!r}, attribute {getattr(g, k)!r}")
                return
        right = model_right_points(d, rho, n)
        real = g.contour_points[len(g.contour_points) // 2:][::-1]
        if len(right) != len(real) or np.max(np.abs(np.array(right) - real)) > 1e-9 * size:
            chk.unshown_add("translator-validation:contour", f"{name}{kw}: the regenerated sampling loop does not rebuild contour_points")
            return
        for z in np.linspace(-g.z0 * 1.05, g.z0 * 1.05, 41):
            if abs(model_local_depth(d, rho, z) - float(g.local_depth(z))) > 1e-9 * size:
                chk.unshown_add("translator-validation:local_depth", f"{name}{kw}: regenerated piecewise table differs from local_depth at z={z!r}")
                return
        count += 1
        # do the hypotheses of the theorems (Groove.wellformed) hold for this real groove?
        beta = g.alpha4 - g.alpha3 / 2
        t = 1e-9 * size
        wf = (min(g.r1, g.r2, g.r3, g.r4) >= 0 and math.cos(g.flank_angle) > 0 and math.cos(g.pad_angle) > 0 and math.cos(g.alpha4) >= -1e-12
              and math.cos(g.alpha3 / 2 - beta) >= -1e-12 and math.sin(g.gamma) >= -1e-12
              and -t <= g.z7 <= g.z6 + t and g.z6 <= g.z5 + t and g.z5 <= g.z4 + t and g.z4 <= g.z3 + t and g.z3 <= g.z1 + t and g.z1 <= g.z0 + t
              and abs(g._flank_contour_line(g.z4) - g.y4) <= t)
        wellformed += bool(wf)
        if not wf:
            not_wf.append(f"{name}{kw}")
    chk.x_stats['translator_TD']['validated_on_grooves'] = count
    chk.x_stats['translator_TD']['max_junction_deviation'] = worst
    chk.x_stats['theorem_hypotheses'] = {'grooves': count, 'wellformed': wellformed, 'not_wellformed': not_wf[:10]}
