"""C15 - profile factories return valid shapes with exactly the requested dimensions."""
import itertools
import json
import math
import random

import numpy as np

from py2coq import factories_ti
from py2coq.ir import Untranslatable, evaluate

# shapely's default quad_segs=16 (fillet quantum pi/32).  GEOS divides each corner's arc into round(total/quantum) equal steps, so a step can be
# up to 1.5 quanta and the point of the arc nearest to an axis direction up to 0.75 quanta away from it: worst sagitta relative to r
ARC = 1 - math.cos(0.75 * math.pi / 32)


def measure(p):
    cs = p.cross_section
    b = cs.bounds
    return dict(w=b[2] - b[0], h=b[3] - b[1], cx=(b[0] + b[2]) / 2, cy=(b[1] + b[3]) / 2, area=cs.area,
                valid=cs.is_valid and cs.is_simple and len(cs.interiors) == 0 and not cs.is_empty)


def sym_ok(cs, tol):
    from shapely.affinity import scale
    for xf, yf in ((-1, 1), (1, -1)):
        m = scale(cs, xfact=xf, yfact=yf, origin=(0, 0))
        if cs.symmetric_difference(m).area > tol:
            return False
    return True


def expect(chk, name, args, exp_w, exp_h, exp_area, r, data):
    """exp_area: (lower, upper) analytic bounds"""
    from pyroll.core import Profile
    p = getattr(Profile, name)(**args)
    m = measure(p)
    size = max(exp_w, exp_h)
    slack = 2 * r * ARC + 1e-12 * size
    if not m['valid']:
        return chk.fail('invalid', f"Profile.{name}({args}) is not a valid, simple, hole-free polygon", data)
    if abs(m['cx']) > slack or abs(m['cy']) > slack:
        return chk.fail('centre', f"Profile.{name}({args}) is not centred: centre of bounds ({m['cx']}, {m['cy']})", data)
    if not (exp_w - 2 * slack <= m['w'] <= exp_w + 1e-12 * size) or not (exp_h - 2 * slack <= m['h'] <= exp_h + 1e-12 * size):
        return chk.fail('dimensions', f"Profile.{name}({args}): {m['w']} x {m['h']}, requested {exp_w} x {exp_h}", data)
    if abs(float(p.width) - m['w']) > 1e-12 * size or abs(float(p.height) - m['h']) > 1e-12 * size:
        return chk.fail('hooks', f"Profile.{name}({args}): width/height hooks differ from the bounds", data)
    lo, hi = exp_area
    if not (lo * (1 - 1e-9) <= m['area'] <= hi * (1 + 1e-9)):
        return chk.fail('area', f"Profile.{name}({args}): area {m['area']} outside the analytic bounds [{lo}, {hi}]", data)
    if not sym_ok(p.cross_section, 1e-9 * m['area']):
        return chk.fail('symmetry', f"Profile.{name}({args}) is not mirror symmetric about both axes", data)
    return True


def rounded_area(poly_area, perimeter_core, r):
    """area of a convex core buffered by r: exact (with circle) and with the inscribed 64-gon instead of the circle"""
    exact = poly_area + perimeter_core * r + math.pi * r * r
    inscribed = poly_area + perimeter_core * r + 32 * math.sin(math.pi / 32) * r * r
    return (exact - 2 * (exact - inscribed), exact)     # tolerance: twice the discretisation error of the arcs


def valid_cases(chk, rng, n):
    for i in range(n):
        s = 10 ** rng.uniform(-3, 2)
        frac = rng.choice([0.0, 0.05, 0.3, 0.5, 0.9, 1.0])
        kind = ['round', 'box', 'diamond', 'square', 'hexagon'][i % 5]
        chk.cov['evaluations'] += 1
        if kind == 'round':
            alt = rng.choice(['radius', 'diameter'])
            args = {alt: s if alt == 'radius' else 2 * s}
            ok = expect(chk, 'round', args, 2 * s, 2 * s, (math.pi * s * s - 2 * (math.pi - 32 * math.sin(math.pi / 32)) * s * s, math.pi * s * s), s, {'factory': kind, 'args': args})
        elif kind == 'box':
            w, h = s, s * rng.uniform(0.3, 3)
            r = frac * min(w, h) / 2
            args = dict(width=w, height=h, corner_radius=r)
            cw, ch = w - 2 * r, h - 2 * r
            ok = expect(chk, 'box', args, w, h, rounded_area(cw * ch, 2 * (cw + ch), r), r, {'factory': kind, 'args': args})
        elif kind == 'diamond':
            w, h = s, s * rng.uniform(0.3, 3)
            r = frac * min(w, h) / 2
            args = dict(width=w, height=h, corner_radius=r)
            a, b = w / 2 - r, h / 2 - r
            ok = expect(chk, 'diamond', args, w, h, rounded_area(2 * a * b, 4 * math.hypot(a, b), r), r, {'factory': kind, 'args': args})
        elif kind == 'square':
            r = frac * s / 2
            alt = rng.choice(['side', 'diagonal'])
            r = r if alt == 'side' else r * (1 - 1e-9)     # the exact boundary is only exact in the directly given argument
            args = {alt: s if alt == 'side' else math.sqrt(2) * s, 'corner_radius': r}
            d = math.sqrt(2) * s
            ext = d - 2 * r * (math.sqrt(2) - 1)
            a = d / 2 - r * math.sqrt(2)
            ok = expect(chk, 'square', args, ext, ext, rounded_area(2 * a * a, 4 * math.sqrt(2) * a, r), r, {'factory': kind, 'args': args})
        else:
            r = frac * s / 2
            alt = rng.choice(['side', 'height', 'diagonal'])
            r = r if alt == 'side' else r * (1 - 1e-9)
            args = {alt: {'side': s, 'height': math.sqrt(3) * s, 'diagonal': 2 * s}[alt], 'corner_radius': r}
            sc = s - 2 * r / math.sqrt(3)
            ok = expect(chk, 'hexagon', args, 2 * s - 2 * r * (2 / math.sqrt(3) - 1), math.sqrt(3) * s,
                        rounded_area(3 * math.sqrt(3) / 2 * sc * sc, 6 * sc, r), r, {'factory': kind, 'args': args})
        if ok is not True:
            return


def invalid_cases(chk):
    from pyroll.core import Profile
    nan, inf = float('nan'), float('inf')
    bad = [
        ('round', {}, TypeError), ('round', dict(radius=1, diameter=2), TypeError), ('round', dict(radius=0), ValueError), ('round', dict(radius=-1), ValueError),
        ('round', dict(diameter=0), ValueError), ('round', dict(radius=nan), Exception), ('round', dict(radius=inf), Exception),
        ('box', dict(width=0, height=1), ValueError), ('box', dict(width=1, height=-1), ValueError), ('box', dict(width=2, height=1, corner_radius=0.6), ValueError),
        ('box', dict(width=1, height=2, corner_radius=0.6), ValueError), ('box', dict(width=1, height=1, corner_radius=-0.1), ValueError),
        ('box', dict(width=nan, height=1), Exception), ('box', dict(width=inf, height=1), Exception), ('box', dict(width=1, height=1, corner_radius=nan), Exception),
        ('diamond', dict(width=0, height=1), ValueError), ('diamond', dict(width=1, height=1, corner_radius=0.6), ValueError), ('diamond', dict(width=1, height=nan), Exception),
        ('square', {}, TypeError), ('square', dict(side=1, diagonal=1.5), TypeError), ('square', dict(side=0), ValueError), ('square', dict(side=1, corner_radius=0.6), ValueError),
        ('square', dict(side=1, corner_radius=-1), ValueError), ('square', dict(diagonal=-2), ValueError), ('square', dict(side=nan), Exception),
        ('hexagon', {}, TypeError), ('hexagon', dict(side=1, height=2), TypeError), ('hexagon', dict(side=1, diagonal=2), TypeError), ('hexagon', dict(side=1, height=1, diagonal=2), TypeError),
        ('hexagon', dict(side=0), ValueError), ('hexagon', dict(height=-1), ValueError), ('hexagon', dict(side=1, corner_radius=0.6), ValueError), ('hexagon', dict(side=inf), Exception),
    ]
    for name, args, exc in bad:
        chk.cov['evaluations'] += 1
        try:
            p = getattr(Profile, name)(**args)
            got = None
        except Exception as e:
            got = e
        data = {'factory': name, 'args': {k: repr(v) for k, v in args.items()}}
        if got is None:
            m = measure(p)
            return chk.fail('accepted-invalid', f"Profile.{name}({args}) did not raise (result {m['w']} x {m['h']}, valid={m['valid']})", data)
        if exc is not Exception and not isinstance(got, exc):
            return chk.fail('wrong-exception', f"Profile.{name}({args}) raised {type(got).__name__}, documented {exc.__name__}", data)
    # additional keyword values are attached unchanged
    marker = object()
    for name, args in (('round', dict(radius=1)), ('box', dict(width=2, height=1)), ('diamond', dict(width=2, height=1)), ('square', dict(side=1)), ('hexagon', dict(side=1))):
        extra = dict(temperature=1234.5, my_value=marker, strain=0, t=12.5, length=3.0, x=-1.0, velocity=0.0, material=["a", "b"])
        p = getattr(Profile, name)(**args, **extra)
        if any(getattr(p, k) is not v and getattr(p, k) != v for k, v in extra.items()) or p.my_value is not marker:
            return chk.fail('kwargs', f"Profile.{name}: additional keyword values are not attached unchanged", {'factory': name})
    # from_polygon guards
    from shapely.geometry import Polygon
    bow = Polygon([(0, 0), (1, 1), (1, 0), (0, 1)])
    holed = Polygon([(0, 0), (4, 0), (4, 4), (0, 4)], [[(1, 1), (2, 1), (2, 2), (1, 2)]])
    for nm, poly in (('self-intersecting', bow), ('with hole', holed), ('empty', Polygon())):
        try:
            Profile.from_polygon(poly, {'x'})
            return chk.fail('from_polygon', f"Profile.from_polygon accepted a {nm} polygon", {'polygon': nm})
        except Exception:
            pass
    good = Polygon([(0, 0), (4, 0), (4, 3), (0, 3)])
    p = Profile.from_polygon(good, {'x'}, temperature=5)
    if not p.cross_section.equals(good) or p.temperature != 5:
        return chk.fail('from_polygon', "Profile.from_polygon does not reproduce the given polygon / keyword values", {'polygon': 'rectangle'})


def from_groove_cases(chk, rng):
    """Profile.from_groove: width|filling and height|gap alternatives, requested dimensions, range errors"""
    from pyroll.core import Profile
    import grooves_catalogue as GC
    for name, kw in GC.CATALOGUE:
        if kw.get('pad_angle', 0) != 0 or name in ('EquivalentRibbedGroove', 'FlatGroove') or 'indent' in kw:
            continue
        g = GC.build(name, kw, 1e-3)
        uw, d = g.usable_width, g.depth
        fill, gap = rng.choice([0.5, 0.8, 0.95, 1.0]), rng.choice([0.0, 1e-3, 3e-3])
        variants = [dict(filling=fill, gap=gap), dict(width=fill * uw, gap=gap), dict(filling=fill, height=gap + 2 * d), dict(width=fill * uw, height=gap + 2 * d)]
        shapes = []
        for v in variants:
            chk.cov['evaluations'] += 1
            data = {'factory': 'from_groove', 'groove': name, 'kwargs': kw, 'args': v}
            try:
                p = Profile.from_groove(g, **v, temperature=77.0)
            except Exception as e:
                return chk.fail('from_groove-valid-rejected', f"Profile.from_groove({name}, {v}) raised {type(e).__name__}: {e}", data)
            m = measure(p)
            if not m['valid'] or abs(m['w'] - fill * uw) > 1e-9 * uw or abs(m['h'] - (gap + 2 * d)) > 1e-9 * max(d, uw) and fill >= 0.95 \
                    or abs(m['cx']) > 1e-9 * uw or abs(m['cy']) > 1e-9 * uw or p.temperature != 77.0 or set(p.classifiers) != set(g.classifiers):
                return chk.fail('from_groove-dimensions', f"Profile.from_groove({name}, {v}): {m['w']} x {m['h']}, requested width {fill * uw}, "
                                f"height {gap + 2 * d} (if filled), valid={m['valid']}", data)
            shapes.append(p.cross_section)
        if any(not shapes[0].equals_exact(x, 1e-12 * uw) for x in shapes[1:]):
            return chk.fail('from_groove-alternatives', f"Profile.from_groove({name}): the alternative size arguments give different shapes", {'groove': name, 'kwargs': kw})
        bad = [dict(filling=0.9), dict(gap=1e-3), dict(), dict(filling=0.9, width=0.9 * uw, gap=1e-3), dict(filling=0.9, gap=1e-3, height=1e-3 + 2 * d),
               dict(filling=0, gap=1e-3), dict(filling=-0.5, gap=1e-3), dict(width=0, gap=1e-3), dict(filling=0.9, gap=-1e-3),
               dict(filling=0.9, height=0), dict(filling=0.9, height=-1.0), dict(filling=0.9, height=d), dict(filling=0.9, height=1.9 * d),
               dict(width=3 * g.width, gap=1e-3), dict(filling=float('nan'), gap=1e-3)]
        for v in bad:
            chk.cov['evaluations'] += 1
            try:
                p = Profile.from_groove(g, **v)
            except Exception:
                continue
            m = measure(p)
            return chk.fail('from_groove-accepted-invalid', f"Profile.from_groove({name}, {v}) did not raise (result {m['w']} x {m['h']}, valid={m['valid']})",
                            {'factory': 'from_groove', 'groove': name, 'kwargs': kw, 'args': {k: repr(x) for k, x in v.items()}})


def positional_calls(chk):
    """the size arguments given by position: the factory `Profile.<shape>(...)` and the profile class it stands for read them in the same order"""
    from pyroll.core import Profile
    import pyroll.core.profile.profile as P
    pairs = {'round': 'RoundProfile', 'square': 'SquareProfile', 'box': 'BoxProfile', 'diamond': 'DiamondProfile', 'hexagon': 'HexagonProfile'}
    patterns = {'round': [(7.0,), (None, 9.0)], 'square': [(6.0,), (None, 9.0), (6.0, None, 1.0)], 'box': [(8.0, 5.0), (8.0, 5.0, 1.0)],
                'diamond': [(8.0, 5.0), (8.0, 5.0, 0.5)], 'hexagon': [(4.0,), (None, 7.0), (None, None, 9.0), (4.0, None, None, 0.5)]}
    for fac, clsname in pairs.items():
        cls = getattr(P, clsname, None)
        if cls is None:
            continue
        for args in patterns[fac]:
            chk.cov['evaluations'] += 1
            res = []
            for maker in (getattr(Profile, fac), cls):
                try:
                    p_ = maker(*args)
                    res.append(tuple(round(x, 12) for x in p_.cross_section.bounds))
                except Exception as e:      # noqa
                    res.append(type(e).__name__)
            if res[0] != res[1]:
                return chk.fail('positional', f"Profile.{fac}{args} gives {res[0]}, {clsname}{args} gives {res[1]} (bounds of the cross-section): the factory and the "
                                f"class read positional size arguments in different orders", {'factory': fac, 'args': [repr(a) for a in args]})
    return True


def from_groove_overfilled(chk, rng):
    """requests wider than the usable width (over-filled), up to and just beyond the end of the contour lines, at closed and open gaps:
    the factory either raises or returns a valid, simple cross-section of exactly the requested width"""
    from pyroll.core import Profile
    import grooves_catalogue as GC
    for name, kw in GC.CATALOGUE:
        if kw.get('pad_angle', 0) != 0 or name in ('EquivalentRibbedGroove', 'FlatGroove') or 'indent' in kw:
            continue
        g = GC.build(name, kw, 1e-3)
        uw = g.usable_width
        cw = 2 * g.contour_line.bounds[2]              # where the contour lines (roll faces included) end
        for width in (1.02 * uw, 0.5 * (uw + cw), 0.999 * cw, cw, 1.0001 * cw, 1.005 * cw, 1.02 * cw):
            for gap in (0, 0.0, 1e-9 * uw, 0.05 * uw):
                chk.cov['evaluations'] += 1
                v = dict(width=width, gap=gap)
                try:
                    p = Profile.from_groove(g, **v)
                except Exception:      # noqa  (a rejection is an answer)
                    continue
                m = measure(p)
                # (a request up to one per cent beyond the contour lines is admitted on purpose - property C08 states that tolerance - and delivers the contour width)
                want = width if width <= cw else (cw if width <= 1.01 * cw else None)
                if not m['valid'] or not p.cross_section.is_simple or want is None or abs(m['w'] - want) > 1e-9 * uw:
                    return chk.fail('from_groove-overfilled', f"Profile.from_groove({name}, width={width:.9g} (usable width {uw:.9g}, contour lines end at {cw:.9g}), gap={gap!r}) "
                                    f"neither raises nor delivers the request: {m['w']:.9g} wide, valid={m['valid']}, simple={p.cross_section.is_simple}",
                                    {'factory': 'from_groove', 'groove': name, 'kwargs': kw, 'args': {k: repr(x) for k, x in v.items()}})


def from_groove_splines(chk, rng):
    """spline grooves whose deepest point is not on the centre line (W-shaped, lopsided): height and gap alternatives agree, the height is the requested one"""
    from pyroll.core import Profile, SplineGroove
    shapes = {
        'flat-top': [(-30, 0), (-20, 0), (-12, 10), (12, 10), (20, 0), (30, 0)],
        'W': [(-30, 0), (-22, 0), (-14, 12), (-10, 12), (0, 7), (10, 12), (14, 12), (22, 0), (30, 0)],
        'lopsided': [(-30, 0), (-20, 0), (-12, 6), (4, 8), (12, 14), (16, 14), (20, 0), (30, 0)],
    }
    for nm, pts in shapes.items():
        f = rng.choice([1e-3, 1.0])
        pts = [(z * f, y * f) for z, y in pts]
        uw = 40 * f
        g = SplineGroove(pts, usable_width=uw, classifiers=['generic_elongation'])
        dmax = max(y for _, y in pts)
        for gap in (0.0, 2 * f):
            a = Profile.from_groove(g, filling=1.0, gap=gap)
            data = {'factory': 'from_groove', 'groove': f"SplineGroove {nm}", 'points': pts, 'gap': gap}
            chk.cov['evaluations'] += 2
            try:
                b = Profile.from_groove(g, filling=1.0, height=gap + 2 * dmax)
            except Exception as e:
                return chk.fail('from_groove-valid-rejected', f"Profile.from_groove(SplineGroove {nm}, height={gap + 2 * dmax}) raised {type(e).__name__}: {e}", data)
            # the shape: the groove contour above, the same contour turned by half a turn below (the symmetry of a two-roll opening), also for lopsided grooves
            from shapely.affinity import rotate as _rot
            from shapely.geometry import LineString as _LS
            cs = a.cross_section
            if _rot(cs, 180, origin=(0, 0)).symmetric_difference(cs).area > 1e-9 * cs.area:
                return chk.fail('from_groove-symmetry', f"Profile.from_groove(SplineGroove {nm} {pts}, filling=1, gap={gap}): the cross-section is not invariant under a half "
                                f"turn about the centre", data)
            for z in np.linspace(-0.45 * uw, 0.45 * uw, 19):
                col = cs.intersection(_LS([(z, -10 * uw), (z, 10 * uw)]))
                top, bot = col.bounds[3], col.bounds[1]
                wt, wb = gap / 2 + float(g.local_depth(z)), -(gap / 2 + float(g.local_depth(-z)))
                if abs(top - wt) > 1e-9 * uw or abs(bot - wb) > 1e-9 * uw:
                    return chk.fail('from_groove-shape', f"Profile.from_groove(SplineGroove {nm} {pts}, filling=1, gap={gap}): at z={z:.6g} the section reaches from {bot:.6g} to "
                                    f"{top:.6g}, the groove contours (upper: depth(z), lower: depth(-z)) give {wb:.6g} to {wt:.6g}", data)
            ma, mb = measure(a), measure(b)
            if abs(mb['h'] - (gap + 2 * dmax)) > 1e-9 * uw or abs(ma['h'] - (gap + 2 * dmax)) > 1e-9 * uw or not a.cross_section.equals_exact(b.cross_section, 1e-12 * uw):
                return chk.fail('from_groove-dimensions', f"Profile.from_groove(SplineGroove {nm} {pts}): requested height {gap + 2 * dmax}, got {mb['h']} "
                                f"(by gap: {ma['h']})", data)
        for h in (1.2 * dmax, 1.9 * dmax, 1.999 * dmax):
            chk.cov['evaluations'] += 1
            try:
                p = Profile.from_groove(g, filling=0.9, height=h)
            except Exception:      # noqa
                continue
            return chk.fail('from_groove-accepted-invalid', f"Profile.from_groove(SplineGroove {nm} {pts}, height={h}) did not raise although the grooves alone are "
                            f"{2 * dmax} high (result {measure(p)['h']} high)", {'factory': 'from_groove', 'groove': f"SplineGroove {nm}", 'points': pts, 'height': h})


def kernel_law_k4(chk, rng, n):
    """bounds(buffer(P, r)) = bounds(P) +- r up to the arc discretisation, for convex cores like the factories'"""
    from shapely.geometry import Polygon
    for _ in range(n):
        k = rng.randint(3, 7)
        ang = sorted(rng.uniform(0, 2 * math.pi) for _ in range(k))
        P = Polygon([(math.cos(a) * rng.uniform(0.5, 2), math.sin(a) * rng.uniform(0.5, 2)) for a in ang]).convex_hull
        r = rng.uniform(0.01, 1)
        b0, b1 = np.array(P.bounds), np.array(P.buffer(r).bounds)
        exp = b0 + np.array([-r, -r, r, r])
        chk.cov['evaluations'] += 1
        if np.any(np.abs(b1 - exp) > 2 * r * ARC + 1e-12):
            return chk.fail('kernel-law-K4', f"bounds of a buffered convex polygon differ from bounds +- r by more than the arc discretisation", {'r': r})


def translator_validation(chk, rng):
    """the regenerated core polygon / radius formulas against what the real factory builds: the core is recovered as the
    negative buffer of the real cross-section"""
    from pyroll.core import Profile
    import ast
    import os
    from common import REPO
    tree = ast.parse(open(os.path.join(REPO, 'pyroll/core/profile/profile.py')).read())
    for cls, name in (('BoxProfile', 'box'), ('DiamondProfile', 'diamond'), ('SquareProfile', 'square'), ('HexagonProfile', 'hexagon')):
        args, branches = factories_ti.translate_factory(factories_ti._cls(tree, cls))
        for b in branches:
            given = [a for a, g in b['pattern'].items() if g] or [a for a in args if a != 'corner_radius']
            vals = {a: rng.uniform(2, 5) for a in given}
            vals['corner_radius'] = 0.3
            rho = dict(vals)
            core = [(evaluate(x, rho), evaluate(y, rho)) for x, y in b['core']]
            r = evaluate(b['radius'], rho)
            p = getattr(Profile, name)(**vals)
            from shapely.geometry import Polygon
            model = Polygon(core).buffer(r)
            chk.cov['evaluations'] += 1
            if model.symmetric_difference(p.cross_section).area > 1e-9 * model.area:
                chk.unshown_add(f"translator-validation:{cls}", f"core polygon / radius regenerated from the source do not rebuild Profile.{name}({vals})")


def run(chk):
    try:
        txt, info = factories_ti.generate()
        chk.x_stats['translator_TI'] = info
    except Untranslatable as e:
        chk.unshown_add('translator T-I', f"profile.py left the recognised fragment: {e}")
        txt = None
    if txt:
        chk.coq.add_text('Gen_factories.v', txt)
        chk.coq.compile('Gen_factories.v')
        for f in ('C15_proofs.v', 'C15.v'):
            chk.coq.add_prop_file(f)
        chk.coq.compile('C15_proofs.v', timeout=600)
        chk.coq.compile('C15.v', is_props=True, timeout=600)
    rng = random.Random(chk.seed + 1500)
    if txt:
        translator_validation(chk, rng)
    valid_cases(chk, rng, 200 if not chk.thorough else 3000)
    invalid_cases(chk)
    if not chk.failures:
        positional_calls(chk)
    from_groove_cases(chk, rng)
    if not chk.failures:
        from_groove_splines(chk, rng)
    if not chk.failures:
        from_groove_overfilled(chk, rng)
    # Config.PROFILE_CONTOUR_REFINEMENT set at run time: more vertices ON the outline, never another outline - sizes, validity, symmetry and areas stay
    from pyroll.core import Config
    for refinement in (50, 137) if not chk.failures else ():
        Config.PROFILE_CONTOUR_REFINEMENT = refinement
        chk.context = (f"Config.PROFILE_CONTOUR_REFINEMENT = {refinement} set at run time", {'PROFILE_CONTOUR_REFINEMENT': refinement})
        try:
            before = len(chk.failures)
            valid_cases(chk, rng, 60 if not chk.thorough else 400)
            if len(chk.failures) == before:
                from_groove_cases(chk, rng)
        finally:
            chk.context = None
            del Config.PROFILE_CONTOUR_REFINEMENT
    kernel_law_k4(chk, rng, 100 if not chk.thorough else 2000)
    chk.cov['distinct_nontrivial'] += chk.cov['evaluations']
    chk.sample({'factory': 'hexagon', 'args': {'side': 1.0, 'corner_radius': 0.2}})
    chk.cov['rule'] = ("every factory x every alternative size argument x sizes over five orders of magnitude x corner radii 0..100 % of the "
                       "admissible range: validity, centre, bounds vs requested (tolerance = arc discretisation of the buffer), hooks, area "
                       "between inscribed-polygon and exact analytic values, mirror symmetry; 33 out-of-range / non-finite / contradictory "
                       "argument sets must raise; keyword passthrough; from_polygon guards; kernel law K4 on random convex polygons")
    chk.trusted += ["translator T-I (tools/py2coq/factories_ti.py), validated by rebuilding each factory's shape from the regenerated core polygon and radius",
                    "kernel law K4 (bounds of shapely's round-join buffer = bounds +- r up to r(1-cos(pi/64))) is sampled, not verified"]
    chk.assumptions += ["non-finite arguments are rejected only because GEOS raises; the theorems quantify over real numbers",
                        "area and mirror symmetry are checked on the implementation only (partial)"]


def replay(data):
    print(json.dumps(data, indent=1, default=str)[:2000])
    return 1
