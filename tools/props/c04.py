"""C04 - groove parameters resolve consistently whichever defining subset is given."""
import json
import math
import random

import numpy as np

from grooves_catalogue import CATALOGUE, LENGTH_KEYS, ANGLE_KEYS, build
from props import _td
from py2coq import solvers_te
from py2coq.ir import Untranslatable, evaluate


# ------------------------------------------------------------------ T-E validation against the real solvers
def validate_te(chk, d, rng):
    from pyroll.core.grooves import generic_elongation_solvers as S
    n = 0
    scale = [1.0]       # residuals are lengths: tolerance relative to the size of the groove at hand

    def close(a, b, what, ctx):
        nonlocal n
        n += 1
        if abs(a - b) > 1e-7 * max(1.0, abs(a), abs(b)) * scale[0]:
            chk.unshown_add(f"translator-validation:T-E:{what}", f"regenerated {what} gives {a!r}, the solver gives {b!r} for {ctx}")
            return False
        return True
    for _ in range(40):
        r1, r2, depth, pad = rng.uniform(1, 4), rng.uniform(12, 40), rng.uniform(4, 10), rng.choice([0.0, math.radians(30)])
        for spec in ({}, {'flank_length': rng.uniform(1, 3)}, {'flank_width': rng.uniform(0.5, 2)}, {'flank_height': rng.uniform(0.5, 2)}):
            try:
                sol = S.solve_r124(r1=r1, r2=r2, depth=depth, width=None, pad_angle=pad, **spec)
            except Exception:
                continue
            rho = {'r1': r1, 'r2': r2, 'depth': depth, 'pad_angle': pad, 'flank_angle': sol['alpha'], 'alpha': sol['alpha'], 'r4': 0.0, 'indent': 0.0,
                   'alpha4': 0.0, 'width': sol['width']}
            rho.update(spec)
            if spec:
                key = next(iter(spec))
                fw, fh = next((a, b) for k, a, b in d['variants'] if k == key)
                rho['fw'], rho['fh'] = evaluate(fw, rho), evaluate(fh, rho)
            else:
                rho['fw'] = rho['fh'] = 0.0
            if not (close(evaluate(d['r124_width_formula'], rho), sol['width'], 'r124_width_formula', (r1, r2, depth, spec))
                    and close(evaluate(d['r124_res_width_none'], rho), 0.0, 'r124_res_width_none at the returned root', (r1, r2, depth, spec))
                    and close(evaluate(d['r124_depth_formula'], rho), depth, 'r124_depth_formula', (r1, r2, depth, spec))):
                return n
    for name, kw in CATALOGUE:
        if name in ('Oval3RadiiGroove', 'UpsetOvalGroove', 'GothicGroove'):
            pad = math.radians(kw.get('pad_angle', 0))
            try:
                sol = S.solve_r123(kw['r1'], kw['r2'], kw['r3'], kw['depth'], kw['usable_width'], pad)
            except Exception:
                continue
            scale[0] = max(kw['usable_width'], kw['depth'])
            rho = dict(r1=kw['r1'], r2=kw['r2'], r3=kw['r3'], depth=kw['depth'], width=kw['usable_width'], pad_angle=pad,
                       alpha2=sol['alpha2'], alpha3=sol['alpha3'], fw=0.0, fh=0.0)
            if not (close(evaluate(d['r123_res_y'], rho), 0.0, 'r123_res_y at the returned root', kw)
                    and close(evaluate(d['r123_res_z'], rho), 0.0, 'r123_res_z at the returned root', kw)):
                return n
    scale[0] = 1.0
    for _ in range(60):
        r2, r4, depth = rng.uniform(1, 20), rng.choice([0.0, rng.uniform(1, 10)]), rng.uniform(5, 50)
        indent = 0.0 if r4 == 0 else rng.uniform(0, 0.5) * (r2 + r4)
        fa, uw = math.radians(rng.uniform(30, 85)), rng.uniform(80, 200)
        gw = uw - 2 * depth / math.tan(fa)
        for given in (dict(usable_width=uw, ground_width=gw), dict(usable_width=uw, flank_angle=fa), dict(ground_width=gw, flank_angle=fa)):
            args = dict(r2=r2, r4=r4, depth=depth, indent=indent, ground_width=None, even_ground_width=None, usable_width=None, flank_angle=None)
            args.update(given)
            try:
                sol = S.solve_box_like(**args)
            except Exception:
                continue
            rho = dict(r2=r2, r4=r4, depth=depth, indent=indent, **{k: sol[k] for k in ('ground_width', 'usable_width', 'flank_angle', 'even_ground_width', 'alpha4')})
            ok = (close(evaluate(d['box_alpha4'], rho), sol['alpha4'], 'box_alpha4', args)
                  and close(evaluate(d['box_egw_from_gw'], rho), sol['even_ground_width'], 'box_egw_from_gw', args)
                  and close(evaluate(d['box_gw_from_egw'], rho), sol['ground_width'], 'box_gw_from_egw', args)
                  and close(evaluate(d['box_gw_from_uw_fa'], rho), sol['ground_width'], 'box_gw_from_uw_fa', args)
                  and close(evaluate(d['box_uw_from_gw_fa'], rho), sol['usable_width'], 'box_uw_from_gw_fa', args)
                  and close(evaluate(d['box_fa_from_uw_gw'], rho), sol['flank_angle'], 'box_fa_from_uw_gw', args)
                  and close(evaluate(d['box_res_uw_egw'], rho), 0.0, 'box_res_uw_egw', args))
            if not ok:
                return n
    from pyroll.core import DiamondGroove, GenericElongationGroove
    for _ in range(20):
        r1, r2, uw, ta = rng.uniform(1, 5), rng.uniform(2, 8), rng.uniform(30, 60), rng.uniform(80, 130)
        try:
            g = DiamondGroove(r1=r1, r2=r2, usable_width=uw, tip_angle=ta)
        except Exception:
            continue
        rho = dict(r1=r1, r2=r2, usable_width=uw, tip_angle=math.radians(ta), tip_depth=g.tip_depth, alpha=g.flank_angle)
        if not (close(evaluate(d['dia_alpha_ta'], rho), g.flank_angle, 'dia_alpha_ta', rho) and close(evaluate(d['dia_td_uw_ta'], rho), g.tip_depth, 'dia_td_uw_ta', rho)
                and close(evaluate(d['dia_depth'], rho), g.depth, 'dia_depth', rho) and close(evaluate(d['dia_alpha_uw_td'], rho), g.flank_angle, 'dia_alpha_uw_td', rho)
                and close(evaluate(d['dia_uw_td_ta'], rho), uw, 'dia_uw_td_ta', rho)):
            return n
        full = dict(usable_width=g.usable_width, ground_width=g.ground_width, flank_angle=g.flank_angle, depth=g.depth)
        for k, term in (('usable_width', 'gen_uw'), ('ground_width', 'gen_gw'), ('flank_angle', 'gen_fa'), ('depth', 'gen_depth')):
            kw = {a: b for a, b in full.items() if a != k}
            g2 = GenericElongationGroove(r1=g.r1, r2=g.r2, **kw)
            if not close(evaluate(d[term], full), getattr(g2, k), term, kw):
                return n
    return n


# ------------------------------------------------------------------ independent oracle
FLANKLESS = ('CircularOvalGroove', 'ConstrictedCircularOvalGroove', 'FlatOvalGroove', 'GothicGroove', 'Oval3RadiiGroove', 'RoundGroove',
             'UpsetOvalGroove', 'EquivalentRibbedGroove')


def retrace(g):
    """walk the contour from the groove centre using only the resolved radii and angles; return where the flank line, prolonged,
    meets the roll face (z at y = 0) and the point 4 reached"""
    z, y, phi = g.even_ground_width / 2, g.depth - g.indent, 0.0

    def arc(z, y, phi, r, turn):
        # turn > 0: towards +y (centre on the +y side), turn < 0: towards -y
        s = 1.0 if turn >= 0 else -1.0
        cz, cy = z - s * r * math.sin(phi), y + s * r * math.cos(phi)
        phi2 = phi + turn
        return cz + s * r * math.sin(phi2), cy - s * r * math.cos(phi2), phi2
    z, y, phi = arc(z, y, phi, g.r4, g.alpha4)
    z, y, phi = arc(z, y, phi, g.r3, -g.alpha3)
    z, y, phi = arc(z, y, phi, g.r2, -(g.flank_angle + phi))          # down to the direction of the flank
    # straight flank with inclination -flank_angle
    if abs(math.sin(g.flank_angle)) < 1e-12:
        return None, (z, y)
    return z + y / math.tan(g.flank_angle), (z, y)


def consistency(chk, name, kw, g, label):
    size = max(g.usable_width, g.depth)
    tol = 1e-8 * size
    data = {'groove': name, 'kwargs': kw, 'history': label}
    chk.cov['evaluations'] += 1
    gap = abs(g.y4 - g._flank_contour_line(g.z4))
    if gap > tol:
        return chk.fail('step-at-z4', f"{name}{kw} ({label}): ground/arcs and flank do not join: step of {gap:.3g} at z4", data)
    zf, p4 = retrace(g)
    if zf is not None and g.depth > 0:
        if abs(zf - g.usable_width / 2) > 1e-7 * size * max(1.0, 1 / abs(math.tan(g.flank_angle))):
            return chk.fail('retrace', f"{name}{kw} ({label}): re-tracing from the centre with the resolved radii and angles meets the face at z = {zf:.9g}, "
                            f"usable_width / 2 = {g.usable_width / 2:.9g}", data)
        if math.hypot(p4[0] - g.z4, p4[1] - g.y4) > tol:
            return chk.fail('retrace', f"{name}{kw} ({label}): the re-traced end of the r2 arc ({p4[0]:.9g}, {p4[1]:.9g}) is not (z4, y4) = ({g.z4:.9g}, {g.y4:.9g})", data)
    # tangential joins: slope from both sides at every junction with non-degenerate neighbours
    for j in ('z7', 'z6', 'z5', 'z4', 'z3'):
        zj = getattr(g, j)
        e = 1e-6 * size
        lo, hi = zj - 2 * e, zj + 2 * e
        if lo <= 0 or hi >= g.z1:
            continue
        near = [getattr(g, k) for k in ('z7', 'z6', 'z5', 'z4', 'z3', 'z1') if k != j]
        if any(abs(zj - o) < 10 * e for o in near):
            continue
        sl = (float(g.local_depth(zj - e)) - float(g.local_depth(zj - 2 * e))) / e
        sr = (float(g.local_depth(zj + 2 * e)) - float(g.local_depth(zj + e))) / e
        # the one-sided difference quotients see the curvature of the neighbouring arc: d(angle) ~ arc length / radius
        rmin = min([r for r in (g.r1, g.r2, g.r3, g.r4) if r > 0] or [size])
        allowed = 1e-3 + 6 * e * math.sqrt(1 + max(abs(sl), abs(sr)) ** 2) / rmin
        if abs(math.atan(sl) - math.atan(sr)) > allowed:
            return chk.fail('tangency', f"{name}{kw} ({label}): kink at junction {j}: slopes {sl:.6g} | {sr:.6g}", data)
    # the given values are reproduced exactly
    for k, v in kw.items():
        if not isinstance(v, (int, float)):
            continue
        if hasattr(g, k) and isinstance(getattr(g, k), (int, float, np.floating)):
            want = math.radians(v) if k in ANGLE_KEYS else v
            have = float(getattr(g, k))
            if abs(have - want) > 1e-9 * max(1.0, abs(want)):      # given values may pass through a root finder (xtol 2e-12 on the angle) and back
                return chk.fail('given-reproduced', f"{name}{kw} ({label}): given {k} = {want!r}, the groove reports {have!r}", data)
    # a flank given by width / height / length is measured on the contour between z4 and z3
    fw, fh = g.z3 - g.z4, g.y4 - g.y3
    # classes made of arcs only: the face-corner arc r1 joins the arc r2 directly (the derived flank angle is the common tangent there);
    # a straight piece between them means the resolved angles do not solve the tangency conditions
    if name in FLANKLESS and math.hypot(fw, fh) > 1e-7 * size:
        return chk.fail('phantom-flank', f"{name}{kw} ({label}): the arcs r1 and r2 do not join: a straight flank of length {math.hypot(fw, fh):.6g} lies between "
                        f"(z4, y4) and (z3, y3) although the class has no flank", data)
    for k, have in (('flank_width', fw), ('flank_height', fh), ('flank_length', math.hypot(fw, fh))):
        if k in kw and abs(have - kw[k]) > 1e-7 * size:
            return chk.fail('flank-reproduced', f"{name}{kw} ({label}): requested {k} = {kw[k]!r}, the flank between z4 and z3 measures {have!r}", data)
    if 'flank_angle' in kw and abs(g.flank_angle - math.radians(kw['flank_angle'])) > 1e-9:
        return chk.fail('given-reproduced', f"{name}{kw} ({label}): flank angle not reproduced", data)
    if 'tip_depth' in kw or 'tip_angle' in kw:
        td = g.usable_width / 2 * math.tan(g.flank_angle)
        if 'tip_depth' in kw and abs(td - kw['tip_depth']) > 1e-7 * size:
            return chk.fail('given-reproduced', f"{name}{kw} ({label}): the extrapolated flanks meet at depth {td!r}, requested tip_depth {kw['tip_depth']!r}", data)
        if 'tip_angle' in kw and abs((math.pi - 2 * g.flank_angle) - math.radians(kw['tip_angle'])) > 1e-9:
            return chk.fail('given-reproduced', f"{name}{kw} ({label}): angle between the flanks {math.degrees(math.pi - 2 * g.flank_angle)!r}, requested {kw['tip_angle']!r}", data)


def derived_value(g, k):
    if k in ('flank_width', 'flank_height', 'flank_length'):
        fw, fh = g.z3 - g.z4, g.y4 - g.y3
        return {'flank_width': fw, 'flank_height': fh, 'flank_length': math.hypot(fw, fh)}[k]
    if k == 'tip_depth':
        return g.usable_width / 2 * math.tan(g.flank_angle)
    if k == 'tip_angle':
        return math.degrees(math.pi - 2 * g.flank_angle)
    if not hasattr(g, k):
        return None
    v = getattr(g, k)
    if not isinstance(v, (int, float, np.floating)):
        return None
    return math.degrees(v) if k in ANGLE_KEYS else float(v)


_OPT = {}


def optional(name):
    """the over-determined parameters of a class: constructor arguments whose default is None"""
    if name not in _OPT:
        import inspect
        import pyroll.core as pc
        _OPT[name] = {p for p, v in inspect.signature(getattr(pc, name).__init__).parameters.items() if v.default is None}
    return _OPT[name]


def same_contour(a, b, tol):
    A, B = np.asarray(a.contour_points), np.asarray(b.contour_points)
    return A.shape == B.shape and np.max(np.abs(A - B)) <= tol


def boundary_and_order_cases(chk, rng):
    """(a) the same number given as flank width, then height, then length (same other values), in every order: each groove reproduces ITS flank;
       (b) box-like grooves whose even ground width is exactly 0 (the flanks' ground corners touch): found by bisection over the flank angle,
           rebuilt from (usable_width, even_ground_width=0.0): same contour"""
    import itertools
    n = 0
    flanked = [('FalseRoundGroove', dict(depth=31.8646, r1=5, r2=38)), ('FalseRoundGroove', dict(depth=31.8646, r1=5, r2=38, pad_angle=30)),
               ('Oval3RadiiFlankedGroove', dict(depth=41.1, r1=6, r2=23.5, r3=183, usable_width=74.2506498 * 2))]
    for name, base in flanked:
        for v in (3.0, 4.0, rng.uniform(2.0, 6.0)):
            for order in itertools.permutations(('flank_width', 'flank_height', 'flank_length')):
                for kind in order:
                    kw = dict(base, **{kind: v})
                    try:
                        g = build(name, kw)
                    except Exception:       # noqa  (this flank does not fit: nothing to compare)
                        continue
                    n += 1
                    consistency(chk, name, kw, g, f"the number {v:.4g} given as {' then '.join(order)}")
                    if chk.failures:
                        return n
    for name, base in (('BoxGroove', dict(depth=52, r1=15, r2=18, usable_width=185.29)), ('SwedishOvalGroove', dict(depth=20, r1=8, r2=10, usable_width=100)),
                       ('HexagonalGroove', dict(depth=7.66025404, r1=3, r2=1, usable_width=18.84529946)), ('UpsetBoxGroove', dict(depth=30, r1=5, r2=3, usable_width=20)),
                       ('ConstrictedBoxGroove', dict(depth=52, r1=15, r2=18, r4=10, usable_width=185.29, indent=10))):
        lo, hi = 1.0, 89.0          # flank angle in degrees: small angle -> wide flanks -> negative even ground (rejected), large -> positive
        def egw(fa):
            try:
                return build(name, dict(base, flank_angle=fa)).even_ground_width
            except Exception:       # noqa
                return None
        if egw(hi) is None or egw(hi) <= 0:
            continue
        for _ in range(60):
            mid = (lo + hi) / 2
            e = egw(mid)
            if e is None or e < 0:
                lo = mid
            else:
                hi = mid
        g = build(name, dict(base, flank_angle=hi))
        size = max(g.usable_width, g.depth)
        if abs(g.even_ground_width) > 1e-9 * size:
            continue
        kw0 = dict(base, even_ground_width=0.0)
        n += 1
        try:
            g0 = build(name, kw0)
        except Exception as e:      # noqa
            chk.fail('subset-roundtrip', f"{name}{dict(base, flank_angle=hi)} has an even ground width of {g.even_ground_width:.2e}; rebuilt from usable_width and "
                     f"even_ground_width=0.0 it is rejected: {type(e).__name__}: {e}", {'groove': name, 'kwargs': kw0})
            return n
        if not same_contour(g, g0, 1e-6 * size):
            chk.fail('subset-roundtrip', f"{name}: the groove with touching ground corners rebuilt from (usable_width, even_ground_width=0.0) differs from the one "
                     f"built with flank angle {hi!r}", {'groove': name, 'kwargs': kw0})
            return n
        consistency(chk, name, kw0, g0, "even ground width exactly 0")
        if chk.failures:
            return n
    # (c) a sharp face corner (r1 exactly 0): the groove is resolved like any other and its contour still meets the roll face at half the usable width
    for name, kw in CATALOGUE:
        if 'r1' not in kw or 'pad_angle' in kw:
            continue
        kw0 = dict(kw, r1=0)
        try:
            g = build(name, kw0)
        except Exception:       # noqa  (some classes refuse the sharp corner: nothing to compare)
            continue
        n += 1
        cp = np.asarray(g.contour_points)
        size = max(g.usable_width, g.depth)
        dist = float(np.min(np.hypot(np.abs(cp[:, 0]) - g.usable_width / 2, cp[:, 1])))
        onface = float(np.interp(g.usable_width / 2, cp[:, 0], cp[:, 1]))
        if dist > 1e-9 * size or abs(onface) > 1e-9 * size:
            chk.fail('face-corner', f"{name}{kw0} (sharp face corner): no contour vertex at the end of the usable width (nearest is {dist:.6g} away); the contour is "
                     f"{onface:.6g} deep at z = usable_width/2 = {g.usable_width / 2:.6g}", {'groove': name, 'kwargs': kw0})
            return n
        consistency(chk, name, kw0, g, "sharp face corner r1 = 0")
        if chk.failures:
            return n
    return n


def run(chk):
    rng = random.Random(chk.seed * 4 + 400)
    d = _td.generate(chk)
    te = None
    try:
        txt, te = solvers_te.generate()
        chk.coq.add_text('Gen_solvers.v', txt)
        chk.coq.compile('Gen_solvers.v')
    except Untranslatable as e:
        chk.unshown_add('translator T-E', f"the solvers left the recognised fragment: {e}")
    if d and te:
        for f in ('C10_proofs.v', 'C04_proofs.v', 'C04.v'):
            chk.coq.add_prop_file(f)
        chk.coq.compile('C10_proofs.v', timeout=600)
        chk.coq.compile('C04_proofs.v', timeout=900)
        chk.coq.compile('C04.v', is_props=True, timeout=900)
        _td.validate(chk, d)
        chk.x_stats['translator_TE'] = {'terms': len(te), 'comparisons_with_real_solvers': validate_te(chk, te, rng)}
    # key sets per class = the admissible defining subsets exercised
    subsets = {}
    for name, kw in CATALOGUE:
        subsets.setdefault(name, [])
        ks = tuple(sorted(k for k in kw if k != 'pad_angle'))
        if ks not in subsets[name]:
            subsets[name].append(ks)
    pads = (None, 30, 45) if chk.thorough else (None, 30)
    rounds = 6 if chk.thorough else 2
    built = 0
    # histories: the whole catalogue in order, several times (a solver must not remember anything), each groove also perturbed
    for rnd in range(rounds):
        for name, kw in CATALOGUE:
            for pad in pads:
                if chk.failures:
                    break
                kw2 = dict(kw) if pad is None else dict(kw, pad_angle=pad)
                if rnd > 0:
                    # feasible region: all lengths scaled together, then individual parameters nudged by a few per cent
                    s = math.exp(rng.uniform(-1.5, 1.5))
                    kw2 = {k: (v * s if k in LENGTH_KEYS else v) for k, v in kw2.items()}
                    if rnd > 1:
                        k = rng.choice([k for k in kw2 if k in LENGTH_KEYS or (k in ANGLE_KEYS and k != 'pad_angle')])
                        kw2[k] = kw2[k] * rng.uniform(0.97, 1.03)
                try:
                    g = build(name, kw2)
                except Exception as e:       # noqa
                    if rnd <= 1 and pad is None:
                        chk.fail('rejects-valid', f"{name}{kw2} (round {rnd + 1} of building the catalogue in order) is rejected: {type(e).__name__}: {e}",
                                 {'groove': name, 'kwargs': kw2, 'round': rnd})
                    continue
                built += 1
                if rnd == 0:
                    # resolution does not depend on how the numbers are carried (0-d float arrays: an in-place operation on an argument would show in the
                    # caller's object), and a groove that was looked at (representations, plot) resolves to what it resolved to before
                    from common import look_at, as_0d
                    import pyroll.core as _pc
                    before = np.array(g.contour_points, dtype=float, copy=True)
                    kw0, orig = as_0d(kw2, LENGTH_KEYS | ANGLE_KEYS)
                    try:
                        g0 = getattr(_pc, name)(**kw0)
                    except Exception as e:      # noqa
                        chk.fail('input-type', f"{name}{kw2}: the same values handed in as 0-d float arrays are rejected: {type(e).__name__}: {str(e)[:100]}",
                                 {'groove': name, 'kwargs': kw2})
                        break
                    chk.cov['evaluations'] += 1
                    changed = {k: float(kw0[k]) for k, v in orig.items() if float(kw0[k]) != v}
                    if changed or not same_contour(g, g0, 1e-9 * max(g.usable_width, g.depth)):
                        chk.fail('input-type', f"{name}{kw2}: resolved from 0-d float arrays the groove differs from the one resolved from floats, or the caller's "
                                 f"arrays were changed: {changed}", {'groove': name, 'kwargs': kw2})
                        break
                    look_at(g, html=(built % 5 == 0))
                    after = np.asarray(g.contour_points, dtype=float)
                    if after.shape != before.shape or np.any(after != before):
                        chk.fail('observer-effect', f"{name}{kw2}: after the groove was looked at (repr, __attrs__, html / plot) its contour points changed (max "
                                 f"{np.max(np.abs(after - before)) if after.shape == before.shape else 'shape'})", {'groove': name, 'kwargs': kw2})
                        break
                consistency(chk, name, kw2, g, f"round {rnd + 1}")
                if chk.failures:
                    break
                # the same groove from every other admissible subset, filled with the derived values
                mine = set(k for k in kw2 if k != 'pad_angle')
                for ks in subsets[name]:
                    if set(ks) == mine or (set(ks) - optional(name)) != (mine - optional(name)):
                        continue        # only alternative defining subsets: same mandatory part, different over-determined part
                    kw3 = {}
                    for k in ks:
                        v = kw2.get(k, derived_value(g, k))
                        if v is None:
                            break
                        kw3[k] = v
                    else:
                        if 'pad_angle' in kw2:
                            kw3['pad_angle'] = kw2['pad_angle']
                        try:
                            g3 = build(name, kw3)
                        except Exception as e:       # noqa
                            chk.fail('subset-roundtrip', f"{name}{kw2} rebuilt from {sorted(ks)} with its own derived values is rejected: {type(e).__name__}: {e}",
                                     {'groove': name, 'kwargs': kw2, 'second': kw3})
                            break
                        chk.cov['evaluations'] += 1
                        if not same_contour(g, g3, 1e-6 * max(g.usable_width, g.depth)):
                            dev = np.max(np.abs(np.asarray(g.contour_points) - np.asarray(g3.contour_points))) if np.asarray(g.contour_points).shape == np.asarray(g3.contour_points).shape else float('nan')
                            chk.fail('subset-roundtrip', f"{name}{kw2} rebuilt from {sorted(ks)} with its own derived values gives another contour (max deviation {dev:.3g})",
                                     {'groove': name, 'kwargs': kw2, 'second': kw3})
                            break
                        consistency(chk, name, kw3, g3, "rebuilt from another subset")
    if not chk.failures:
        built += boundary_and_order_cases(chk, rng)
    # histories with refusals in between: resolution is a function of the given values alone - a groove that was built is built again, with the
    # same contour, after any number of infeasible requests to the same class (a solver must not remember where a failed search ended)
    refused = 0
    for name, kw in CATALOGUE:
        if chk.failures:
            break
        try:
            g0 = build(name, kw)
        except Exception:      # noqa  (reported above)
            continue
        for k in [k for k in kw if k in LENGTH_KEYS]:
            for f in (50.0, 0.02, 7.0):
                try:
                    build(name, dict(kw, **{k: kw[k] * f}))
                except Exception:      # noqa
                    refused += 1
        chk.cov['evaluations'] += 1
        try:
            g1 = build(name, kw)
        except Exception as e:      # noqa
            chk.fail('history-dependent', f"{name}{kw} was built, then infeasible variants of it (one length x50, x0.02, x7) were requested, then the same values again: "
                     f"now rejected ({type(e).__name__}: {str(e)[:100]})", {'groove': name, 'kwargs': kw})
            break
        if not same_contour(g0, g1, 1e-9 * max(g0.usable_width, g0.depth)):
            chk.fail('history-dependent', f"{name}{kw} built before and after a series of infeasible requests gives two different contours", {'groove': name, 'kwargs': kw})
            break
    # a groove is the same groove after it has been copied, deep-copied or pickled: same resolved values, same contour (with and without a pad angle)
    import copy as _copy
    import pickle as _pickle
    for name, kw in CATALOGUE[::2]:
        if chk.failures:
            break
        for pad in ({}, {'pad_angle': 30}):
            try:
                g0 = build(name, dict(kw, **pad))
            except Exception:      # noqa
                continue
            for how, fn in (('copy.copy', _copy.copy), ('copy.deepcopy', _copy.deepcopy), ('pickle', lambda g: _pickle.loads(_pickle.dumps(g)))):
                chk.cov['evaluations'] += 1
                try:
                    g1 = fn(g0)
                except Exception as e:      # noqa
                    if how == 'pickle':      # not every groove can be pickled today (local classes); copies can always be made
                        continue
                    chk.fail('copy-differs', f"{name}{dict(kw, **pad)}: {how} raises {type(e).__name__}: {str(e)[:100]}", {'groove': name, 'kwargs': dict(kw, **pad), 'how': how})
                    break
                vals = [(k, float(getattr(g0, k)), float(getattr(g1, k))) for k in ('r1', 'r2', 'depth', 'usable_width', 'pad_angle', 'width', 'alpha1', 'alpha2')
                        if isinstance(getattr(g0, k, None), (int, float, np.floating))]
                off = [(k, a, b) for k, a, b in vals if not abs(a - b) <= 1e-12 * max(1, abs(a))]
                if off or not same_contour(g0, g1, 1e-12 * max(g0.usable_width, g0.depth)):
                    chk.fail('copy-differs', f"{name}{dict(kw, **pad)}: the groove obtained by {how} is another groove: "
                             f"{', '.join(f'{k} {a:.9g} -> {b:.9g}' for k, a, b in off) or 'same resolved values'}; contour vertices {len(g0.contour_points)} -> {len(g1.contour_points)}",
                             {'groove': name, 'kwargs': dict(kw, **pad), 'how': how})
                    break
            if chk.failures:
                break
    chk.x_stats['refusals_between_rebuilds'] = refused
    chk.cov['distinct_nontrivial'] += built
    chk.sample({'groove': 'FalseRoundGroove', 'kwargs': {'depth': 31.8646, 'r1': 5, 'r2': 38, 'flank_height': 7.037185254850074, 'pad_angle': 30}})
    chk.cov['rule'] = (f"{built} constructions: the catalogue (every solver-backed class x every defining subset listed) built in order {rounds} times with pad angles "
                       f"none/30{'/45' if chk.thorough else ''}, rounds 2+ with all lengths rescaled (e^-1.5..e^1.5) and one parameter nudged by 3 %: step at z4, independent "
                       "re-trace from the centre with the resolved radii and angles (arrives at usable_width/2 and at (z4, y4)), slope continuity at "
                       "the junctions, given values reproduced (flank width/height/length measured between z4 and z3, tip depth/angle from the "
                       "flanks), and every groove rebuilt from every other subset of its class filled with its own derived values: same contour")
    chk.trusted += ["translators T-D and T-E (tools/py2coq/groove_td.py, solvers_te.py); T-E validated against the real solvers: closed forms vs returned "
                    "values, residuals vanish at the returned roots",
                    "root finders (root_scalar, root, fixed_point) are not modelled: theorems speak about any root of the regenerated residual"]
    chk.assumptions += ["solve_r1234 (constricted circular oval), the r2-unknown branch of solve_r124 and the flank-given branch of solve_r123 have no theorem; "
                        "they are covered by the oracle only (partial)",
                        "that a root is found and unique (subset independence) is numerical behaviour: exercised by the round trips, not proved"]


def replay(data):
    print(json.dumps(data, indent=1, default=str)[:2000])
    return 1
