"""C18 - pre-/post-processors run in hierarchy order and affect only what they should."""
import json
import random
import re


def cfact(f):
    return f"{{| f_id := {f[0]}; f_ret := {'None' if f[1] is None else f'(Some {f[1]})'} |}}"


def cop(o):
    k = o[0]
    if k == 'newclass':
        return f"(NewClass {o[1]} [{';'.join(map(str, o[3]))}])"
    if k == 'regpre':
        return f"(RegPre {o[1]} {cfact(o[2])})"
    if k == 'regpost':
        return f"(RegPost {o[1]} {cfact(o[2])})"
    return f"(Solve {o[1]})"


def cl(l):
    return "[" + ";".join(map(str, l)) + "]"


class World:
    def __init__(self):
        from pyroll.core import Transport, Unit, Profile
        from pyroll.core.profile import Profile as BaseProfile
        self.Transport, self.Unit, self.BaseProfile = Transport, Unit, BaseProfile
        self.classes = {}
        self.mixins = {}
        self.calls = []
        self.factories = {}
        world = self

        class Proc(Unit):
            def __init__(self, pid):
                super().__init__(label=f"proc{pid}")
                self.pid = pid

            def solve(self, in_profile):
                world.calls.append(self.pid)
                d = {k: v for k, v in in_profile.__dict__.items() if not k.startswith("_")}
                d['marks'] = tuple(d.get('marks', ())) + (self.pid,)
                return BaseProfile(**d)
        self.Proc = Proc

        class EmptyLine(Proc):          # a processor that is "empty" like a PassSequence without units: falsy, but not nothing
            def __len__(self):
                return 0

        class Unsure(Proc):             # a processor whose truth value is False
            def __bool__(self):
                return False
        self.flavours = [Proc, EmptyLine, Unsure]

    def newclass(self, c, bases, with_mixin):
        if not bases:
            pb = (self.Transport,)
        else:
            pb = tuple(self.classes[b] for b in bases)
        if with_mixin:
            m = type(f"Mix{c}", (), {})
            pb = (m,) + pb if with_mixin == 1 else pb + (m,)
        k = type(f"U{c}", pb, {})
        self.classes[c] = k
        ours = {v: kk for kk, v in self.classes.items()}
        return [ours[x] for x in k.__mro__ if x in ours]

    def factory(self, f):
        fid, ret = f
        if fid in self.factories:        # the SAME factory object registered once more (on another class, or twice on one class)
            return self.factories[fid]
        self.factories[fid] = self._factory(f)
        return self.factories[fid]

    def _factory(self, f):
        fid, ret = f
        Proc = self.Proc
        if ret is None:
            return lambda unit: None
        flavour = self.flavours[fid % 3]       # only a factory that returns nothing is skipped - not one that returns a falsy unit
        return lambda unit: flavour(ret)

    def solve(self, c, in_sequence):
        from pyroll.core import Profile, PassSequence
        ip = Profile.round(radius=10e-3, temperature=1273.15, strain=0, material="steel", length=1, t=0, marks=())
        u = self.classes[c](label="u", duration=1)
        self.calls.clear()
        if in_sequence:
            # the sequence solves its unit once per iteration: observe the last invocation of u.solve
            last = {}
            orig = u.solve

            def observed(p):
                self.calls.clear()
                last['ret'] = orig(p)
                return last['ret']
            u.solve = observed
            seq = PassSequence([u])
            seq.solve(ip)
            ret = last['ret']
        else:
            ret = u.solve(ip)
        return dict(calls=list(self.calls), inm=list(u.in_profile.marks), outm=list(u.out_profile.marks),
                    ret=list(ret.marks), ip_untouched=(ip.marks == ()))


def gen_case(rng):
    ops, ncls = [], 0
    shape = rng.choice(['chain', 'diamond', 'tree', 'mixed'])
    plan = {'chain': [[], [0], [1], [2]], 'diamond': [[], [0], [0], [1, 2], [3]],
            'tree': [[], [0], [0], [1], [2]], 'mixed': [[], [0], [0], [2, 1]]}[shape]
    defined = []
    todo = list(enumerate(plan))
    fid, pidn = 0, 10

    regs = []

    def reg():
        nonlocal fid, pidn
        c = rng.choice(defined)
        if regs and rng.random() < 0.2:
            # one factory object registered again: on another class of the hierarchy or once more on the same class (same kind of list)
            kind, _, f = rng.choice(regs)
            ops.append((kind, c, f))
            return
        fid += 1
        ret = None if rng.random() < 0.25 else pidn
        pidn += 1
        ops.append((rng.choice(['regpre', 'regpre', 'regpost']), c, (fid, ret)))
        regs.append(ops[-1])
    # interleave class definitions (subclasses defined later than registrations on their bases) with registrations
    while todo or rng.random() < 0.7:
        if todo and (not defined or rng.random() < 0.4):
            c, bases = todo.pop(0)
            ops.append(('newclass', c, bases, None, rng.choice([0, 0, 1, 2])))
            defined.append(c)
        elif defined:
            reg()
        if len(ops) > 40:
            break
    for c in defined:
        ops.append(('solve', c, rng.random() < 0.3))
    if rng.random() < 0.5 and defined:
        reg()
        ops.append(('solve', rng.choice(defined), False))
    return ops


def run_case(ops):
    W = World()
    out_ops, obs = [], []
    for o in ops:
        if o[0] == 'newclass':
            mro = W.newclass(o[1], o[2], o[4])
            out_ops.append(('newclass', o[1], o[2], mro))
            obs.append(None)
        elif o[0] in ('regpre', 'regpost'):
            lst = W.classes[o[1]].pre_processors if o[0] == 'regpre' else W.classes[o[1]].post_processors
            lst.append(W.factory(o[2]))
            out_ops.append(o)
            obs.append(None)
        else:
            try:
                obs.append(W.solve(o[1], o[2]))
            except Exception as e:      # noqa  (a solve of a transport with processors never fails: reported by the oracle)
                obs.append(dict(calls=[-1], inm=[], outm=[], ret=[], ip_untouched=True, raised=f"{type(e).__name__}: {str(e)[:100]}"))
            out_ops.append(o)
    return out_ops, obs


def spec_order(ops, upto, c, which):
    """the documented order computed from the registration log (independent of the model)"""
    mro = None
    log = []
    for o in ops[:upto]:
        if o[0] == 'newclass':
            log = [e for e in log if e[0] != o[1]]
            if o[1] == c:
                mro = o[3]
        elif o[0] == which:
            log.append((o[1], o[2]))
    out = []
    for k in reversed(mro):
        out += [f[1] for (kk, f) in log if kk == k and f[1] is not None]
    return out


def history_cases(chk, rng):
    """stated directly on the implementation:
       (a) ONE unit object solved several times while the factories' answers change (a factory that returned a processor may return nothing next time,
           or a differently configured one): each solve uses exactly that solve's answers, in hierarchy/registration order;
       (b) processors that change the profile they are given IN PLACE: a post-processor registered on a base class only must leave unit.out_profile
           alone, and a pre-processor of the NEXT unit must not reach back into the previous unit's out profile"""
    from pyroll.core import Transport, Unit, Profile, PassSequence
    from pyroll.core.profile import Profile as BaseProfile
    from shapely.affinity import rotate
    calls = []

    class Proc(Unit):
        def __init__(self, pid, inplace=False):
            super().__init__(label=f"proc{pid}")
            self.pid, self.inplace = pid, inplace

        def solve(self, in_profile):
            calls.append(self.pid)
            if self.inplace:
                in_profile.marks = tuple(getattr(in_profile, 'marks', ())) + (self.pid,)
                return in_profile
            d = {k: v for k, v in in_profile.__dict__.items() if not k.startswith("_")}
            d['marks'] = tuple(d.get('marks', ())) + (self.pid,)
            return BaseProfile(**d)

    class EmptyLine(Proc):
        def __len__(self):
            return 0

    def ip():
        return Profile.round(radius=10e-3, temperature=1273.15, strain=0, material="steel", length=1, t=0, marks=())
    # (a)
    class Boom(Proc):
        def solve(self, in_profile):
            calls.append(self.pid)
            raise RuntimeError("injected fault in a processor")
    for trial in range(8 if not chk.thorough else 60):
        Base = type("HB", (Transport,), {})
        Sub = type("HS", (Base,), {})
        plans = []          # per factory: where registered, pre/post, list of answers per solve
        nsolves = rng.randint(2, 4)
        for fid in range(rng.randint(2, 5)):
            kind = rng.choice(['pre', 'pre', 'post'])
            owner = rng.choice([Base, Sub])
            # an answer: nothing, a processor, or (never in the last solve) a processor that raises - the next solve must run every registration again
            answers = [rng.choice([None, 100 + 10 * fid + k, 100 + 10 * fid] + ([-(100 + 10 * fid + k)] if k < nsolves - 1 and trial % 2 else []))
                       for k in range(nsolves)]
            state = {'k': -1}

            def make(answers=answers, state=state):
                def factory(unit):
                    a = answers[state['k']]
                    return None if a is None else Boom(-a) if a < 0 else (EmptyLine(a) if a % 10 == 1 else Proc(a))
                return factory
            (owner.pre_processors if kind == 'pre' else owner.post_processors).append(make())
            plans.append((kind, owner, answers, state))
        # ... also units that stop at their iteration limit (Config / max_iteration_count lowered): the warning is the only difference
        limit = rng.choice([None, None, 1, 2])
        u = Sub(label="u", duration=1, **({'max_iteration_count': limit} if limit else {}))
        for k in range(nsolves):
            for _, _, _, st in plans:
                st['k'] = k
            calls.clear()
            chk.cov['evaluations'] += 1

            def expect(kind):
                out = []
                for cls in (Base, Sub):
                    out += [a[k] for kd, ow, a, _ in plans if kd == kind and ow is cls and a[k] is not None]
                return out
            full = expect('pre') + expect('post')
            fault = next((i for i, a in enumerate(full) if a < 0), None)
            want = [abs(a) for a in (full if fault is None else full[:fault + 1])]
            data = {'solve': k + 1, 'plans': [(kd, ow.__name__, a) for kd, ow, a, _ in plans], 'max_iteration_count': limit}
            try:
                ret = u.solve(ip())
                raised = None
            except Exception as e:      # noqa
                ret, raised = None, e
            if (raised is None) != (fault is None):
                return chk.fail('processor-history', f"solve {k + 1} of the same unit object (iteration limit {limit}): "
                                f"{'raised ' + type(raised).__name__ if raised else 'did not raise'}, this solve's factories answer {full} (negative = a processor that raises)", data)
            if list(calls) != want:
                return chk.fail('processor-history', f"solve {k + 1} of the same unit object (iteration limit {limit}): processors run {list(calls)}, this solve's factories answer "
                                f"{want} (pre then post, base class before subclass, registration order; a factory answering nothing is skipped; negative answers of "
                                f"earlier solves were processors that raised)", data)
            if raised is None and (list(u.in_profile.marks) != expect('pre') or list(u.out_profile.marks) != expect('pre') or list(ret.marks) != want):
                return chk.fail('processor-history', f"solve {k + 1} (iteration limit {limit}): marks in={list(u.in_profile.marks)} out={list(u.out_profile.marks)} "
                                f"returned={list(ret.marks)}, expected in=out={expect('pre')}, returned={want}", data)
    # (b)
    for where in ('base', 'own', 'none'):
        Base = type("IB", (Transport,), {})
        Sub = type("IS", (Base,), {})
        if where != 'none':
            (Base if where == 'base' else Sub).post_processors.append(lambda unit: Proc(7, inplace=True))
        Next = type("IN", (Transport,), {})
        Next.pre_processors.append(lambda unit: Proc(9, inplace=True))
        u, n = Sub(label="u", duration=1), Next(label="n", duration=1)
        seq = PassSequence([u, n])
        calls.clear()
        p = ip()
        ret = seq.solve(p)
        chk.cov['evaluations'] += 1
        data = {'post_processor_on': where}
        if 7 in tuple(u.out_profile.marks):
            return chk.fail('post-touches-unit', f"an in-place post-processor registered on {'a base class' if where == 'base' else 'the class'} of the unit changed "
                            f"unit.out_profile (marks {list(u.out_profile.marks)}): post-processors act on the returned profile only", data)
        if 9 in tuple(u.out_profile.marks):
            return chk.fail('pre-reaches-back', f"the in-place pre-processor of the next unit changed the previous unit's out profile (marks {list(u.out_profile.marks)}; "
                            f"post-processor on: {where})", data)
        if 9 not in tuple(n.in_profile.marks) or (where != 'none' and 7 not in tuple(n.in_profile.marks)):
            return chk.fail('processor-history', f"in-place processors: next unit's in profile carries {list(n.in_profile.marks)}", data)
        if tuple(p.marks) != ():
            return chk.fail('post-touches-unit', "the caller's incoming profile was changed by an in-place processor", data)


    # (b2) two levels: the processor is an ordinary unit (solved by Unit.solve) whose own class carries registrations - they run while it works for the outer unit
    for kind in ('pre', 'post'):
        Inner = type("Inner", (Transport,), {})
        Inner.post_processors.append(lambda unit: Proc(500))
        Inner.pre_processors.append(lambda unit: Proc(400))
        Outer = type("Outer", (Transport,), {})
        (Outer.pre_processors if kind == 'pre' else Outer.post_processors).append(lambda unit: Inner(label="inner stage", duration=0))
        u = Outer(label="outer", duration=1)
        calls.clear()
        ret = u.solve(ip())
        chk.cov['evaluations'] += 1
        got = (list(calls), list(u.in_profile.marks), list(ret.marks))
        want = ([400, 500], [400, 500] if kind == 'pre' else [], [400, 500])
        if got != want:
            return chk.fail('processor-nesting', f"a {kind}-processor that is an ordinary unit whose class has a pre- and a post-processor of its own (marks 400, 500): processors run "
                            f"{got[0]}, outer in profile carries {got[1]}, returned profile {got[2]}; expected {want}", {'kind': kind})
    # (b3) a factory whose product belongs to the class it is registered on: the product is a unit like any other, the factory is asked for it as well
    for kind in ('pre', 'post'):
        Stage = type("Stage", (Transport,), {})
        asked = []

        def deeper(unit, asked=asked, Stage=Stage):
            asked.append(unit.label)
            d = int(unit.label[1:])
            return Stage(label=f"d{d + 1}", duration=0) if d < 2 else None
        (Stage.pre_processors if kind == 'pre' else Stage.post_processors).append(deeper)
        (Stage.pre_processors if kind == 'pre' else Stage.post_processors).append(lambda unit: Proc(600 + int(unit.label[1:])))
        calls.clear()
        Stage(label="d0", duration=1).solve(ip())
        chk.cov['evaluations'] += 1
        if asked != ['d0', 'd1', 'd2'] or list(calls) != [602, 601, 600]:
            return chk.fail('processor-nesting', f"a {kind}-processor factory registered on the class its own product belongs to (it answers for d0 and d1 with a unit one level deeper, "
                            f"d2 gets none), followed by a second factory on the same class: the first was asked for {asked} (expected d0, d1, d2), the second's processors ran "
                            f"{list(calls)} (expected 602, 601, 600)", {'kind': kind, 'case': 'own-class product'})
    # (b4) the package's own registrations are registrations like any other: a factory the user adds to BaseRollPass comes after what the package put there at import
    #      time, so it receives the output of the pass's entry rotation, and the pass's in profile is what it returned
    from pyroll.core import BaseRollPass, RollPass, Roll, CircularOvalGroove, RoundGroove, ThreeRollPass
    seen = {}

    class Recorder(Unit):
        def __init__(self, host):
            super().__init__(label="recorder")
            self.host = host

        def solve(self, in_profile):
            seen[self.host.label] = in_profile.cross_section.wkt
            return in_profile

    def recorder(unit):
        return Recorder(unit)
    hf = BaseRollPass.Profile.flow_stress(lambda self: 50e6)
    BaseRollPass.pre_processors.append(recorder)
    try:
        for cls, g2 in ((RollPass, RoundGroove(r1=1e-3, r2=12.5e-3, depth=11.5e-3)), (ThreeRollPass, RoundGroove(r1=3e-3, r2=25e-3, depth=11e-3, pad_angle=30))):
            seen.clear()
            first = cls(label="first", roll=Roll(groove=CircularOvalGroove(depth=8e-3, r1=6e-3, r2=40e-3, **({'pad_angle': 30} if cls is ThreeRollPass else {})),
                                                 nominal_radius=160e-3, rotational_frequency=1), gap=2e-3)
            second = cls(label="second", roll=Roll(groove=g2, nominal_radius=160e-3, rotational_frequency=1), gap=2e-3)
            line = PassSequence([first, Transport(label="t", duration=1), second])
            try:
                line.solve(Profile.round(diameter=30e-3 if cls is RollPass else 55e-3, temperature=1473.15, strain=0, material="steel", length=1, t=0))
            except Exception as e:      # noqa
                chk.notes.append(f"b4 {cls.__name__}: {type(e).__name__}") if hasattr(chk, 'notes') else None
                continue
            chk.cov['evaluations'] += 1
            for u in (first, second):
                if seen.get(u.label) != u.in_profile.cross_section.wkt:
                    return chk.fail('processor-order', f"a pre-processor added to BaseRollPass after import (it hands the profile on unchanged) and a {cls.__name__} {u.label!r} with entry "
                                    f"rotation {u.rotation!r}: the pass's in profile is not the profile this last pre-processor returned (the entry rotation ran after it)",
                                    {'case': 'package registrations first', 'class': cls.__name__, 'unit': u.label})
    finally:
        BaseRollPass.pre_processors.remove(recorder)
        hf.hook.remove_function(hf)
    # (c) real Rotator units as processors, fed with a profile that has been turned before: the processor's result must not reach back into
    #     the unit's own outgoing state, nor into the out profile of the unit in front
    from pyroll.core import Rotator
    for angle in (45, 90, 180, 30):
        class Turner(Rotator):
            pass
        Turner.post_processors.append(lambda unit, angle=angle: Rotator(rotation=angle, label="post-turn"))
        Behind = type("Behind", (Transport,), {})
        Behind.pre_processors.append(lambda unit, angle=angle: Rotator(rotation=angle, label="pre-turn"))
        for layout in ('alone', 'sequence', 'behind-rotator'):
            p = Profile.box(height=10e-3, width=20e-3, temperature=1273.15, strain=0, material="steel", length=1, t=0)
            before_p = (set(p.classifiers), p.cross_section.wkt)
            t = Turner(rotation=90, label="turner")
            chk.cov['evaluations'] += 1
            if layout == 'alone':
                ret = t.solve(p)
                watched = [t]
            elif layout == 'sequence':
                nxt = Transport(label="after", duration=1)
                PassSequence([t, nxt]).solve(p)
                watched = [t]
            else:
                first = Rotator(rotation=90, label="first")
                b = Behind(label="behind", duration=1)
                PassSequence([first, b]).solve(p)
                watched = [first]
            data = {'processor': f"Rotator({angle})", 'layout': layout}
            for w in watched:
                own = set(w.out_profile.classifiers)
                want = set(w.in_profile.classifiers) | {'rotated'} | ({'vertical'} if w.rotation == 90 else set())
                geo = rotate(w.in_profile.cross_section, w.rotation, origin=(0, 0))
                if own != want or geo.symmetric_difference(w.out_profile.cross_section).area > 1e-12:
                    return chk.fail('post-touches-unit', f"[{layout}] a Rotator({angle}) used as {'post-processor of the unit' if layout != 'behind-rotator' else 'pre-processor of the next unit'} "
                                    f"changed the own outgoing state of {w.label!r}: classifiers {sorted(own)}, the unit itself produced {sorted(want)}", data)
            if (set(p.classifiers), p.cross_section.wkt) != before_p:
                return chk.fail('post-touches-unit', f"[{layout}] the caller's incoming profile was changed (classifiers now {sorted(p.classifiers)})", data)


def nested_cases(chk, rng, n):
    """processors that are units of classes with registrations of their own (also of the class the factory is registered on): real Transport subclasses,
    factories answering by the nesting depth of the unit they are asked for; observed: every (factory, depth) asked in order, the marks on the outer unit's
    in profile and on the returned profile - compared with ProcNest.nsolve by vm_compute"""
    from pyroll.core import Transport, Profile
    rendered, described = [], []
    for _ in range(n):
        ncls = rng.randint(1, 4)
        bases = [None] + [rng.randrange(i) for i in range(1, ncls)]          # a tree of classes
        asked, per_unit = [], {}

        class Marked(Transport):
            def init_solve(self, in_profile):
                super().init_solve(in_profile)                                # the pre-processors have run; now the unit's own work leaves its mark
                self.in_profile.marks = tuple(self.in_profile.marks) + (self.mark,)
                self.out_profile.marks = self.in_profile.marks                # (the out profile was set up from the in profile a moment ago)
        K = []
        for i in range(ncls):
            K.append(type(f"N{i}", (Marked if bases[i] is None else K[bases[i]],), {}))

        def mro(i):
            return [i] + (mro(bases[i]) if bases[i] is not None else [])
        facs, nmark = [], [10]
        for fid in range(1, rng.randint(2, 5) + 1):
            table = {}
            for d in range(3):
                if rng.random() < (0.55 if d == 0 else 0.4 if d == 1 else 0.25):
                    nmark[0] += 1
                    table[d] = (rng.randrange(ncls), nmark[0])

            def make(fid=fid, table=table):
                def factory(unit):
                    d = int(unit.label[1:])
                    asked.append((fid, d))
                    per_unit.setdefault(id(unit), (unit, []))[1].append(fid)
                    if d not in table:
                        return None
                    u = K[table[d][0]](label=f"d{d + 1}", duration=0)
                    u.mark = table[d][1]
                    per_unit.setdefault(id(u), (u, []))
                    return u
                return factory
            facs.append((fid, table, make()))
        pre = {i: [] for i in range(ncls)}
        post = {i: [] for i in range(ncls)}
        for fid, table, f in facs:
            for _k in range(rng.choice([1, 1, 2])):                           # one factory object may be registered in two places
                c, where = rng.randrange(ncls), rng.choice(['pre', 'pre', 'post'])
                (pre if where == 'pre' else post)[c].append(fid)
                (K[c].pre_processors if where == 'pre' else K[c].post_processors).append(f)
        c0 = rng.randrange(ncls)
        u = K[c0](label="d0", duration=1)
        u.mark = 1
        ip = Profile.round(radius=10e-3, temperature=1273.15, strain=0, material="steel", length=1, t=0, marks=())
        chk.cov['evaluations'] += 1
        desc = {'classes': bases, 'solved': c0, 'factories': {fid: {d: list(v) for d, v in table.items()} for fid, table, _ in facs}, 'pre': pre, 'post': post}
        try:
            ret = u.solve(ip)
        except Exception as e:      # noqa
            chk.fail('processor-nesting', f"nested processors {desc}: solve raises {type(e).__name__}: {str(e)[:120]}", desc)
            return
        inm, retm = list(u.in_profile.marks), list(ret.marks)
        if 1 not in inm or retm[:len(inm)] != inm:
            chk.fail('processor-nesting', f"nested processors {desc}: in profile carries {inm}, returned profile {retm}", desc)
            return
        pm, qm = inm[:-1], retm[len(inm):]
        # the property stated directly: the unit itself (depth 0) is asked by every factory of its walk once, bases first, pre then post
        per_unit.setdefault(id(u), (u, []))
        for unit, own in per_unit.values():
            ci = K.index(type(unit))
            want = [f for k in reversed(mro(ci)) for f in pre[k]] + [f for k in reversed(mro(ci)) for f in post[k]]
            if own != want and not chk.failures:
                chk.fail('processor-nesting', f"nested processors {desc}: for the unit {unit.label!r} of class {ci} ({'the solved unit' if unit is u else 'a processor unit'}) the "
                         f"factories asked are {own}, the walk over its class gives {want}", desc)
        fac_txt = {fid: "{| nf_id := %d; nf_ans := [%s] |}" % (fid, "; ".join(f"({d}, AProc {c} {m})" for d, (c, m) in sorted(table.items()))) for fid, table, _ in facs}
        st = ("{| nmros := [%s]; npre := [%s]; npost := [%s] |}" % (
            "; ".join(f"({i}, {cl(mro(i))})" for i in range(ncls)),
            "; ".join(f"({i}, [{'; '.join(fac_txt[f] for f in pre[i])}])" for i in range(ncls)),
            "; ".join(f"({i}, [{'; '.join(fac_txt[f] for f in post[i])}])" for i in range(ncls))))
        rendered.append(f"({st}, {c0}, ([{'; '.join(f'({a}, {b})' for a, b in asked)}], {cl(pm)}, {cl(qm)}))")
        described.append(desc)
    chk.coq.add_text("ncases.v", "From PyrollLib Require Import ProcNest.\nOpen Scope nat_scope.\nDefinition cases : list ncase := [\n" + ";\n".join(rendered) +
                     "].\nEval vm_compute in (nmismatches cases 0).\n")
    r = chk.coq.compile("ncases.v", timeout=600)
    bad = []
    if not r['ok']:
        chk.unshown_add("correspondence:ncases.v", r['err'][-600:])
    else:
        m = re.search(r'=\s*\[(.*?)\]\s*:\s*list nat', r['out'], re.S)
        bad = [int(x) for x in re.findall(r'\d+', m.group(1))] if m else []
        if not m:
            chk.unshown_add("correspondence:ncases.v", "unreadable result")
    chk.x_stats['correspondence_nested'] = {'cases': len(rendered), 'disagreements': len(bad)}
    for i in bad[:3]:
        chk.unshown_add(f"correspondence:nested-case{i}", "model and implementation disagree on " + json.dumps(described[i], default=str)[:800])
    if bad and not chk.failures:
        chk.fail('deviation', "nested processors: the implementation deviates from the verified model (ProcNest.nsolve) on " + json.dumps(described[bad[0]], default=str)[:600],
                 {'nested': described[bad[0]]})


def run(chk):
    chk.coq.add_prop_file('C18.v')
    chk.coq.compile('C18.v', is_props=True, timeout=300)
    rng = random.Random(chk.seed * 181 + 18)
    n = 1500 if chk.thorough else 300
    rendered, all_ops = [], []
    for i in range(n):
        ops0 = gen_case(rng)
        ops, obs = run_case(ops0)
        all_ops.append(ops)
        chk.cov['evaluations'] += 1
        exp = []
        for j, (o, ob) in enumerate(zip(ops, obs)):
            if ob is None:
                exp.append("None")
                continue
            exp.append(f"(Some {{| o_calls := {cl(ob['calls'])}; o_in := {cl(ob['inm'])}; o_out := {cl(ob['outm'])}; o_ret := {cl(ob['ret'])} |}})")
            # oracle: property stated directly
            a, b = spec_order(ops, j, o[1], 'regpre'), spec_order(ops, j, o[1], 'regpost')
            what = None
            if ob.get('raised'):
                what = f"solve raised {ob['raised']}; processors in hierarchy/registration order: {a + b}"
            elif ob['calls'] != a + b:
                what = f"processors ran in order {ob['calls']}, hierarchy/registration order gives {a + b}"
            elif ob['inm'] != a:
                what = f"unit.in_profile carries {ob['inm']}, the pre-processor chain yields {a}"
            elif ob['ret'] != a + b:
                what = f"returned profile carries {ob['ret']}, expected {a + b}"
            elif ob['outm'] != a:
                what = f"unit.out_profile carries {ob['outm']} (post-processors must not change the unit's own outgoing state)"
            elif not ob['ip_untouched']:
                what = "the caller's profile was modified"
            if what and not chk.failures:
                chk.fail('processors', what + f" (class {o[1]})", {'history': ops[:j + 1]})
        rendered.append("([" + "; ".join(cop(o) for o in ops) + "],\n [" + "; ".join(exp) + "])")
    chk.cov['distinct_nontrivial'] += len({json.dumps(o, default=str) for o in all_ops})
    chk.sample([list(map(str, o)) for o in all_ops[0]])
    name = "pcases.v"
    chk.coq.add_text(name, "From PyrollLib Require Import Processors.\nOpen Scope nat_scope.\n"
                     "Definition cases : list (list op * list (option sobs)) := [\n" + ";\n".join(rendered) +
                     "].\nEval vm_compute in (pmismatches cases 0).\n")
    r = chk.coq.compile(name, timeout=600)
    bad = []
    if not r['ok']:
        chk.unshown_add("correspondence:" + name, r['err'][-600:])
    else:
        m = re.search(r'=\s*\[(.*?)\]\s*:\s*list nat', r['out'], re.S)
        bad = [int(x) for x in re.findall(r'\d+', m.group(1))] if m else []
        if not m:
            chk.unshown_add("correspondence:" + name, "unreadable result")
    chk.x_stats['correspondence'] = {'histories': n, 'disagreements': len(bad)}
    for i in bad[:3]:
        chk.unshown_add(f"correspondence:case{i}", "model and implementation disagree on " + json.dumps(all_ops[i], default=str)[:1000])
    if bad and not chk.failures:
        chk.fail('deviation', "implementation deviates from the verified processor model", {'history': all_ops[bad[0]]})
    if not chk.failures:
        nested_cases(chk, random.Random(chk.seed * 18 + 1802), 120 if not chk.thorough else 1200)
    if not chk.failures:
        history_cases(chk, random.Random(chk.seed * 18 + 1801))
    chk.cov['rule'] = ("seeded unit class hierarchies (chains, diamonds, trees, with non-unit mixins) x interleavings of class "
                       "definitions and pre/post registrations (factories returning a processor or None), every class solved alone "
                       "or inside a sequence; distinct = distinct histories")
    chk.trusted += ["correspondence harness tools/props/c18.py"]
    chk.assumptions += ["processors are modelled by the mark they append to the profile they return"]


def replay(data):
    print(json.dumps(data, indent=1)[:2000])
    return 1
