"""C17 - derived profile, stress and deformation quantities obey their identities.
T-tie: Gen_hookimpls.v regenerated from /repo; theorems in coq/props/C17.v.
Oracle: the identities stated directly on real Profile objects / solved passes."""
import itertools
import math
import random

import numpy as np

from common import log
from props import _ta


def run(chk):
    _ta.generate(chk)
    for f in ('C17_proofs.v', 'C17.v'):
        chk.coq.add_prop_file(f)
    chk.coq.compile('C17_proofs.v', timeout=300)
    chk.coq.compile('C17.v', timeout=600, is_props=True)
    broken = bool(chk.coq.failed()) or bool(chk.unshown)
    oracle(chk, n=(4000 if chk.thorough else 400) * (3 if broken else 1))
    chk.cov['rule'] = ("oracle cases: seeded random principal-stress triples (incl. permutations, hydrostatic, uniaxial), "
                       "positive material constants, factory profiles of random size; non-trivial = not all-equal / non-zero; "
                       "distinct by rounded input tuple")
    chk.assumptions += [
        "IEEE-754 floats abstracted to real numbers in the theorems",
        "local heights/widths (chords) are GEOS intersections: not modelled, exercised by the oracle only (partial)",
        "equivalent_rectangle (shapely Polygon from shapes.rectangle) is tied to equivalent_width/height by the oracle only",
    ]


def vm(a, b, c):
    return math.sqrt(((a - b) ** 2 + (b - c) ** 2 + (c - a) ** 2) / 2)


def close(a, b, tol=1e-9):
    return abs(a - b) <= tol * max(1.0, abs(a), abs(b))


def stress_case(chk, s):
    from pyroll.core import Profile
    vals = []
    for perm in itertools.permutations(s):
        p = Profile.round(radius=1, longitudinal_stress=perm[0], altitudinal_stress=perm[1], latitudinal_stress=perm[2])
        try:
            vals.append((perm, float(p.equivalent_stress), float(p.hydrostatic_stress)))
        except Exception as e:      # noqa  (e.g. a non-finite result)
            chk.fail('equivalent_stress', f"stresses {perm}: reading equivalent / hydrostatic stress raises {type(e).__name__}: {str(e)[:100]}; von Mises value is {vm(*s)}",
                     {'kind': 'stress', 'stresses': list(perm)})
            return False
    ref = vm(*s)
    for perm, ev, hv in vals:
        if not close(ev, ref):
            chk.fail('equivalent_stress', f"equivalent_stress{perm} = {ev}, von Mises value is {ref}",
                     {'kind': 'stress', 'stresses': list(perm)})
            return False
        if not close(hv, sum(s) / 3):
            chk.fail('hydrostatic_stress', f"hydrostatic_stress{perm} = {hv}, mean is {sum(s) / 3}",
                     {'kind': 'stress', 'stresses': list(perm)})
            return False
    return True


def thermal_case(chk, k, d, c, cls):
    from pyroll.core import Profile, Roll, RoundGroove
    if cls == 'Profile':
        o = Profile.round(radius=1, thermal_conductivity=k, density=d, specific_heat_capacity=c)
    else:
        o = Roll(groove=RoundGroove(r1=1, r2=10, depth=8), nominal_radius=100,
                 thermal_conductivity=k, density=d, specific_heat_capacity=c)
    a, e = float(o.thermal_diffusivity), float(o.heat_penetration_number)
    if not (close(a, k / (d * c)) and close(e * e, k * d * c) and close(e, k / math.sqrt(a))):
        chk.fail('thermal', f"{cls}: diffusivity {a}, heat penetration {e} for k={k} rho={d} c={c}",
                 {'kind': 'thermal', 'cls': cls, 'k': k, 'd': d, 'c': c})
        return False
    return True


def shape_case(chk, kind, a, b, r):
    from pyroll.core import Profile
    from shapely.geometry import Polygon
    from shapely.affinity import translate, rotate
    if kind in ('tee', 'ell', 'offbox', 'tri3'):
        # arbitrary polygons: non-convex, off-centre (offset r in units of the size), 3-fold classified
        if kind == 'tee':
            poly = Polygon([(-1, -4), (1, -4), (1, 2), (4, 2), (4, 4), (-4, 4), (-4, 2), (-1, 2)])
        elif kind == 'ell':
            poly = Polygon([(0, 0), (4, 0), (4, 1), (1, 1), (1, 5), (0, 5)])
        elif kind == 'offbox':
            poly = Polygon([(-3, -5), (3, -5), (3, 5), (-3, 5)])
        else:
            poly = rotate(Polygon([(0, 2), (-1.7320508, -1), (1.7320508, -1)]), 0)
        from shapely.affinity import scale
        poly = translate(scale(poly, a, a * (b / a if kind != 'tri3' else 1), origin=(0, 0)), xoff=r * a * 7, yoff=-r * a * 9)
        p = Profile.from_polygon(poly, {'3fold'} if kind == 'tri3' else {'generic'})
    elif kind == 'round':
        p = Profile.round(radius=a)
    elif kind == 'square':
        p = Profile.square(side=a, corner_radius=r * a / 2)
    elif kind == 'box':
        p = Profile.box(height=a, width=b, corner_radius=r * min(a, b) / 2)
    else:
        p = Profile.diamond(height=a, width=b, corner_radius=r * min(a, b) / 4)
    data = {'kind': 'shape', 'shape': kind, 'a': a, 'b': b, 'r': r}
    if kind in ('box', 'round', 'offbox', 'tee'):
        # for every state: the same profile object after its cross-section was replaced by another one and the remembered values were re-evaluated
        # (the values above were all read - and remembered - with the first section)
        _ = (p.equivalent_rectangle, float(p.equivalent_height), float(p.equivalent_width), float(p.equivalent_radius), p.width, p.height)
        from shapely.affinity import scale as _scale
        p.cross_section = _scale(p.cross_section, 1.7, 0.6, origin=(0, 0))
        p.reevaluate_cache()
        data = dict(data, history="cross_section replaced (stretched 1.7 x 0.6), then reevaluate_cache()")
    if kind in ('ell', 'tee', 'offbox', 'tri3'):
        # the chords of the mirror image (same bounds extent, area and perimeter - another shape): every chord is the chord of the mirrored position
        from shapely.affinity import scale as _sc
        cs0 = p.cross_section
        minx0, miny0, maxx0, maxy0 = cs0.bounds
        zs = [minx0 + f * (maxx0 - minx0) for f in (0.13, 0.37, 0.61, 0.88)]
        own = [float(p.local_height(z)) for z in zs]
        cx = (minx0 + maxx0) / 2
        mirrored = Profile.from_polygon(_sc(cs0, -1.0, 1.0, origin=(cx, 0)), set(p.classifiers))
        mir = [float(mirrored.local_height(2 * cx - z)) for z in zs]
        again = [float(p.local_height(z)) for z in zs]
        if any(abs(a_ - b_) > 1e-9 * (maxy0 - miny0) for a_, b_ in zip(own, mir)) or own != again:
            chk.fail('local_height_mirror', f"{kind}: local heights {own} at {zs}; its mirror image (evaluated in the same process) gives {mir} at the mirrored positions, "
                     f"the shape itself afterwards {again}", data)
            return False
    A = p.cross_section.area
    h, w, rr = float(p.equivalent_height), float(p.equivalent_width), float(p.equivalent_radius)
    er = p.equivalent_rectangle
    if not (close(h * w, A) and close(w / h, p.width / p.height) and close(math.pi * rr ** 2, A)):
        chk.fail('equivalent_rectangle', f"{kind}: h_eq*w_eq={h * w}, area={A}, ratio {w / h} vs {p.width / p.height}", data)
        return False
    if not (close(er.width, w) and close(er.height, h) and close(er.area, A)):
        chk.fail('equivalent_rectangle_shape', f"{kind}: rectangle {er.width}x{er.height} vs {w}x{h}", data)
        return False
    # chords: bounded by the extent, zero outside, integrate to the area.  The chord length is piecewise
    # linear between vertex coordinates (with jumps exactly at vertices of non-convex shapes), so the midpoint
    # rule on the intervals between consecutive vertex coordinates is exact.
    minx, miny, maxx, maxy = p.cross_section.bounds
    for axis, fn, lo, hi, ext in ((0, p.local_height, minx, maxx, maxy - miny), (1, p.local_width, miny, maxy, maxx - minx)):
        cs_ = sorted(set(np.round(np.array(p.cross_section.exterior.coords)[:, axis], 13)))
        mids = [(cs_[i] + cs_[i + 1]) / 2 for i in range(len(cs_) - 1)]
        vals = [fn(m) for m in mids]
        name = 'local_height' if axis == 0 else 'local_width'
        if any(v > ext * (1 + 1e-9) + 1e-9 or v < 0 for v in vals):
            chk.fail(name + '_bound', f"{kind}: a {name} is outside [0, extent]", data)
            return False
        integral = sum((cs_[i + 1] - cs_[i]) * vals[i] for i in range(len(mids)))
        if not close(integral, A, 1e-6):
            chk.fail(name + '_integral', f"{kind}: {name} integrates to {integral}, area is {A}", data)
            return False
        span = hi - lo
        if fn(hi + 0.05 * span) > 1e-9 * span or fn(lo - 0.05 * span) > 1e-9 * span:
            chk.fail(name + '_outside', f"{kind}: non-zero {name} outside the shape", data)
            return False
    return True


def pass_case(chk, rng, i=0):
    from pyroll.core import Profile, RollPass, Roll, CircularOvalGroove
    r = 10 + rng.random() * 10
    ip = Profile.round(radius=r * 1e-3, temperature=1200 + 273.15, strain=0, material="C45", flow_stress=100e6, length=1)
    rp = RollPass(label="Oval", roll=Roll(groove=CircularOvalGroove(depth=r * 0.4e-3, r1=6e-3, r2=r * 2e-3),
                                          nominal_radius=160e-3, rotational_frequency=1),
                  gap=(2 + rng.random() * 2) * 1e-3)
    ok = True
    # every solved pass: also one whose equivalent rectangles come from a plugin model (here: the bounding box of the section, on the entry
    # side, the exit side or both) - the coefficients stay mutually consistent whatever the rectangles are
    from pyroll.core.shapes import rectangle
    plug = [None, 'in', 'out', 'both'][i % 4]
    hfs = []
    box = lambda self: rectangle(self.width, self.height)       # noqa
    if plug in ('in', 'both'):
        hfs.append(RollPass.InProfile.equivalent_rectangle(box))
    if plug in ('out', 'both'):
        hfs.append(RollPass.OutProfile.equivalent_rectangle(box))
    try:
        return _pass_history(chk, rng, rp, ip, r, plug)
    finally:
        for hf in hfs:
            hf.hook.remove_function(hf)


def _pass_history(chk, rng, rp, ip, r, plug):
    ok = True
    # histories: the same pass object solved, its gap edited, solved again (twice)
    from common import look_at
    _ = (ip.equivalent_rectangle, ip.width, ip.height)      # a derived value read - and the profile displayed - before the first solve
    look_at(ip, html=False)
    for step, factor in enumerate((1.0, 0.7, 1.4)):
        rp.gap = float(rp.gap) * factor
        if step:
            for obj in (rp, rp.in_profile, rp.out_profile, rp.roll):      # displayed between the solves
                look_at(obj, html=False)
        rp.solve(ip)
        d, s, e = rp.draught, rp.spread, rp.elongation
        data = {'kind': 'pass', 'r': r, 'history': f"solve number {step + 1} of the same pass object (gap {float(rp.gap):.6g})"
                + (f", equivalent rectangle of the {plug} profile(s) supplied by a plugin" if plug else "")}
        ri, ro = rp.in_profile.equivalent_rectangle, rp.out_profile.equivalent_rectangle
        ok = close(rp.log_draught, math.log(d)) and close(rp.log_spread, math.log(s)) and close(rp.log_elongation, math.log(e))
        ok = ok and close(rp.rel_draught, d - 1) and close(rp.rel_spread, s - 1)
        ok = ok and close(rp.abs_draught, ro.height - ri.height) and close(rp.abs_spread, ro.width - ri.width)
        ok = ok and close(rp.rel_draught, rp.abs_draught / ri.height) and close(rp.rel_spread, rp.abs_spread / ri.width)
        ok = ok and close(d, ro.height / ri.height) and close(s, ro.width / ri.width)
        ok = ok and close(e, rp.in_profile.cross_section.area / rp.out_profile.cross_section.area, 1e-6)
        ok = ok and close(rp.strain, math.sqrt(2 / 3 * (rp.log_elongation ** 2 + rp.log_spread ** 2 + rp.log_draught ** 2)))
        ok = ok and close(rp.rel_elongation, rp.out_profile.length / rp.in_profile.length - 1, 1e-6)
        if not ok:
            chk.fail('coefficients', f"draught/spread/elongation do not match the in/out equivalent rectangles and sections on a solved oval pass "
                     f"(round r={r:.4g} mm, {data['history']})", data)
            break
    return ok


def mirror_pair_case(chk):
    """two different shapes with equal bounds, area and perimeter - a lopsided polygon and its mirror image, whole-number coordinates - evaluated in one
    process, in both orders: each one's local heights and widths are its own chords"""
    from pyroll.core import Profile
    from shapely.geometry import Polygon, LineString
    base = [(-4, 0), (4, 0), (4, 1), (-1, 3), (-4, 1)]
    shapes = {'lopsided': Polygon(base), 'mirrored': Polygon([(-x, y) for x, y in reversed(base)])}
    for order in (('lopsided', 'mirrored'), ('mirrored', 'lopsided')):
        profs = {k: Profile.from_polygon(shapes[k], {'generic'}) for k in order}
        for k in order:
            for z in (-3.0, -1.5, 0.5, 2.0, 3.5):
                chk.cov['evaluations'] += 1
                got = float(profs[k].local_height(z))
                col = shapes[k].intersection(LineString([(z, -10), (z, 10)]))
                want = col.length
                if abs(got - want) > 1e-9:
                    return chk.fail('local_height_mirror', f"{k} pentagon {list(shapes[k].exterior.coords)[:-1]} (evaluated {'first' if k == order[0] else 'after its mirror image'}): "
                                    f"local_height({z}) = {got}, the chord is {want}", {'kind': 'mirror-pair', 'order': list(order)})
    return True


def sequence_case(chk, rng, layout):
    """solved sequences (flat, nested, nested twice): the elongation coefficients of every deformation unit in the tree - passes, inner sequences,
    the outer sequence - are mutually consistent and compose: a unit's elongation is the product of its parts' elongations"""
    from pyroll.core import Profile, RollPass, Roll, Transport, PassSequence, CircularOvalGroove, RoundGroove, BaseRollPass
    def oval(lbl, d, r2):
        return RollPass(label=lbl, roll=Roll(groove=CircularOvalGroove(depth=d, r1=6e-3, r2=r2), nominal_radius=160e-3, rotational_frequency=1), gap=2e-3)
    def rnd(lbl, d, r2):
        return RollPass(label=lbl, roll=Roll(groove=RoundGroove(r1=1e-3, r2=r2, depth=d), nominal_radius=160e-3, rotational_frequency=1), gap=2e-3)
    t = lambda l: Transport(label=l, duration=1)     # noqa
    if layout == 'flat':
        seq = PassSequence([oval('o1', 8e-3, 40e-3), t('t1'), rnd('r2', 11.5e-3, 12.5e-3), t('t2'), oval('o3', 6e-3, 35e-3)])
    elif layout == 'nested':
        seq = PassSequence([oval('o1', 8e-3, 40e-3), t('t1'), PassSequence([rnd('r2', 11.5e-3, 12.5e-3), t('t2'), oval('o3', 6e-3, 35e-3)], label='line B')])
    elif layout == 'nested-first':
        seq = PassSequence([PassSequence([oval('o1', 8e-3, 40e-3), t('t1')], label='line A'), rnd('r2', 11.5e-3, 12.5e-3), t('t2'), oval('o3', 6e-3, 35e-3)])
    else:
        seq = PassSequence([PassSequence([oval('o1', 8e-3, 40e-3), t('t1'), PassSequence([rnd('r2', 11.5e-3, 12.5e-3)], label='inner')], label='line A'), t('t2'),
                            oval('o3', 6e-3, 35e-3)])
    ip = Profile.round(diameter=30e-3, temperature=1200 + 273.15, strain=0, material="C45", flow_stress=100e6, length=rng.choice([1, 2.5, 12.0]))
    seq.solve(ip)
    def walk(u):
        yield u
        for c in getattr(u, 'units', []) if isinstance(u, PassSequence) else []:
            yield from walk(c)
    for u in walk(seq):
        if not isinstance(u, (PassSequence, BaseRollPass)):
            continue
        data = {'kind': 'sequence', 'layout': layout, 'unit': f"{type(u).__name__} {u.label!r}"}
        e = u.elongation
        ratio = u.in_profile.cross_section.area / u.out_profile.cross_section.area
        parts = [c for c in u.units if isinstance(c, (PassSequence, BaseRollPass))] if isinstance(u, PassSequence) else []
        ok = close(e, ratio, 1e-6) and close(u.log_elongation, math.log(e)) and close(u.abs_elongation, u.out_profile.length - u.in_profile.length)
        ok = ok and close(u.rel_elongation, u.abs_elongation / u.in_profile.length) and close(u.rel_elongation, e - 1, 1e-6)
        ok = ok and close(u.out_profile.length, e * u.in_profile.length, 1e-6)
        if parts:
            ok = ok and close(e, math.prod(c.elongation for c in parts), 1e-6) and close(u.log_elongation, sum(c.log_elongation for c in parts), 1e-6)
        chk.cov['evaluations'] += 1
        if not ok:
            chk.fail('sequence-coefficients', f"[{layout}] {data['unit']}: elongation {e:.6g}, area ratio {ratio:.6g}, log_elongation {float(u.log_elongation):.6g}, "
                     f"rel_elongation {float(u.rel_elongation):.6g}, out/in length {u.out_profile.length / u.in_profile.length:.6g}, product of its parts "
                     f"{math.prod(c.elongation for c in parts) if parts else float('nan'):.6g}: not mutually consistent", data)
            return False
    return True


def oracle(chk, n):
    rng = random.Random(chk.seed + 1700)
    seen = set()
    ev = 0
    special = [(1.0, 2.0, 4.0), (2.0, 4.0, 1.0), (3.0, 0.0, 0.0), (0.0, -3.0, 0.0), (5.0, 5.0, 5.0), (0.0, 0.0, 0.0),
               (-7.5, 2.25, 1e3),
               # every state: a large pressure with a small deviator on top, hydrostatic states whose squares are not representable
               (1e9 + 1.0, 1e9, 1e9), (-2.5e8, -2.5e8, -2.5e8 + 3.0), (0.1, 0.1, 0.1), (1e6 / 3, 1e6 / 3, 1e6 / 3), (-7e7 / 9, -7e7 / 9, -7e7 / 9),
               (123456789.123, 123456789.123, 123456790.123)]
    for i in range(n // 2):
        s = special[i] if i < len(special) else tuple(rng.choice([rng.uniform(-500, 500), rng.uniform(-1, 1) * 10 ** rng.randint(-3, 8), 0.0])
                                                        for _ in range(3))
        ev += 1
        if len(set(s)) > 1:
            seen.add(('s',) + tuple(round(x, 9) for x in s))
        if i < 3:
            chk.sample({'stresses': s})
        if not stress_case(chk, s):
            break
    for i in range(n // 8):
        k, d, c = (10 ** rng.uniform(-2, 3), 10 ** rng.uniform(2, 4.3), 10 ** rng.uniform(1, 3.5))
        ev += 1
        seen.add(('t', round(k, 9), round(d, 9)))
        if not thermal_case(chk, k, d, c, 'Profile' if i % 2 else 'Roll'):
            break
    for i in range(max(16, n // 20)):
        kind = ['round', 'square', 'box', 'diamond', 'tee', 'ell', 'offbox', 'tri3'][i % 8]
        a, b, r = 10 ** rng.uniform(-3, 2), 10 ** rng.uniform(-3, 2), rng.choice([0, 0.1, 0.5, 0.9])
        if kind in ('tee', 'ell', 'offbox', 'tri3'):
            b = a * rng.uniform(0.5, 2)
        if kind in ('box', 'diamond'):
            b = a * rng.uniform(0.3, 3)
        ev += 1
        seen.add((kind, round(a, 9), round(b, 9), r))
        if i < 2:
            chk.sample({'shape': kind, 'a': a, 'b': b, 'corner_ratio': r})
        if not shape_case(chk, kind, a, b, r):
            break
    for i in range(4 if not chk.thorough else 12):
        ev += 1
        seen.add(('p', i))
        pass_case(chk, rng, i)
    if not chk.failures:
        mirror_pair_case(chk)
    for layout in ('flat', 'nested', 'nested-first', 'nested-twice'):
        ev += 1
        seen.add(('q', layout))
        if chk.failures or not sequence_case(chk, rng, layout):
            break
    chk.cov['evaluations'] += ev
    chk.cov['distinct_nontrivial'] += len(seen)


def replay(data):
    from common import Check
    chk = Check('C17', 'quick', 0)
    inp = data.get('input') or {}
    k = inp.get('kind')
    ok = True
    if k == 'stress':
        ok = stress_case(chk, tuple(inp['stresses']))
    elif k == 'thermal':
        ok = thermal_case(chk, inp['k'], inp['d'], inp['c'], inp['cls'])
    elif k == 'shape':
        ok = shape_case(chk, inp['shape'], inp['a'], inp['b'], inp['r'])
    elif k == 'sequence':
        ok = sequence_case(chk, random.Random(0), inp['layout'])
    elif k == 'pass':
        ok = all(pass_case(chk, random.Random(j), j) for j in range(4))
    print("replay:", "property holds on this input" if ok else "FAILS: " + chk.failures[0].what)
    return 0 if ok else 1
