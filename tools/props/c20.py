"""C20 - configuration values resolve as explicit value, else environment, else default.
T-G regenerates gen_params from config.py; the model PyrollLib.Config is run (vm_compute) on the
same operation histories as the real `config`-decorated classes (X-tie); an independent Python
oracle states precedence / round trips directly on the implementation."""
import enum
import json
import os
import random
import re
from pathlib import Path

from common import log, sh, COQLIB
from py2coq import config_tg
from py2coq.ir import Untranslatable

WS = [' ', '\t', '\n', '  ', '\r', '\x0b', '\x0c', '\x1c', '\x1f']


class Color(enum.Enum):
    RED = 1
    GREEN = 2
    BLUE = 5
    low = 7          # member names are not always upper case
    Mixed = 9
    MIXED = 10       # ... and may differ in case only: the exact name wins


def make_class():
    from pyroll.core.config import config

    @config("VT")
    class Cfg:
        B = True
        BF = False
        I = 5
        Z = 0
        F = 1.5
        S = "abc"
        P = Path("x")
        E = Color.GREEN
        D = {"a": "1"}
        L = ["x"]
        T = ("x", "y")
        lower = 1
        _PRIV = 2
    return Cfg


FIELDS = {'B': 'TBool', 'BF': 'TBool', 'I': 'TInt', 'Z': 'TInt', 'F': 'TFloat', 'S': 'TStr', 'P': 'TPath',
          'E': 'TEnum', 'D': 'TDict', 'L': 'TList', 'T': 'TTuple'}


# ---- rendering to Coq -------------------------------------------------------------------------
def cstr(s):
    return "(mk [" + ";".join(str(ord(c)) for c in s) + "]%nat)"


class Tokens:
    def __init__(self):
        self.objs = []

    def tok(self, o):
        for i, x in enumerate(self.objs):
            if x is o or (type(x) is type(o) and isinstance(o, float) and x == o):
                return i
        self.objs.append(o)
        return len(self.objs) - 1


def cval(v, toks):
    if v is None:
        return "VNone"
    if isinstance(v, bool):
        return f"(VBool {'true' if v else 'false'})"
    if isinstance(v, int):
        return f"(VInt ({v})%Z)"
    if isinstance(v, str):
        return f"(VStr {cstr(v)})"
    if isinstance(v, Path):
        return f"(VPath {cstr(str(v))})"
    if isinstance(v, Color):
        return f"(VEnum {cstr(v.name)})"
    if isinstance(v, list) and all(isinstance(x, str) for x in v):
        return "(VList [" + ";".join(cstr(x) for x in v) + "])"
    if isinstance(v, tuple) and all(isinstance(x, str) for x in v):
        return "(VTuple [" + ";".join(cstr(x) for x in v) + "])"
    if isinstance(v, dict) and all(isinstance(k, str) and isinstance(x, str) for k, x in v.items()):
        return "(VDict [" + ";".join(f"({cstr(k)},{cstr(x)})" for k, x in v.items()) + "])"
    return f"(VTok {toks.tok(v)}%Z)"


def cty(t):
    if t == 'TEnum':
        return "(TEnum [" + ";".join(f"({cstr(m.name)},({m.value})%Z)" for m in Color) + "])"
    return t


def cop(o, toks):
    k = o[0]
    if k == 'get':
        return f"Get {cstr(o[1])}"
    if k == 'set':
        return f"Set_ {cstr(o[1])} {cval(o[2], toks)}"
    if k == 'del':
        return f"Del {cstr(o[1])}"
    if k == 'setenv':
        return f"SetEnv {cstr(o[1])} {cstr(o[2])}"
    if k == 'unsetenv':
        return f"UnsetEnv {cstr(o[1])}"
    if k == 'update':
        return "Update [" + ";".join(f"({cstr(n)},{cval(v, toks)})" for n, v in o[1]) + "]"
    raise ValueError(o)


ERR = {'ValueError': 'ValueError', 'KeyError': 'KeyError', 'AttributeError': 'AttributeError', 'TypeError': 'TypeError'}


# ---- generators ------------------------------------------------------------------------------------
def wellformed_text(rng, t):
    pad = lambda s: rng.choice(['', '', rng.choice(WS)]) + s + rng.choice(['', '', rng.choice(WS)])
    if t == 'TBool':
        w = rng.choice(['true', 'false'])
        return pad(''.join(c.upper() if rng.random() < 0.4 else c for c in w))
    if t == 'TInt':
        n = str(rng.choice([0, 1, 7, 42, 100, 12345, 10 ** 12, 3]))
        if len(n) > 2 and rng.random() < 0.3:
            n = n[0] + '_' + n[1:]
        if rng.random() < 0.2:
            n = '00' + n
        return pad(rng.choice(['', '', '-', '+']) + n)
    if t == 'TFloat':
        return rng.choice(['1.5', '2', '1e-3', ' 3.25 ', '-0.5', 'inf', '1_0.5'])
    if t in ('TStr',):
        return rng.choice(['abc', 'a,b', ' x ', '', 'true', '5'])
    if t == 'TPath':
        return rng.choice(['a/b', 'x.txt', '/tmp/y', 'rel'])
    if t == 'TEnum':
        m = rng.choice(list(Color))
        if rng.random() < 0.5:
            return pad(str(m.value))
        if rng.random() < 0.5:
            return m.name       # the natural text form of a member: its name
        return ''.join(c.lower() if rng.random() < 0.5 else c for c in m.name)
    items = [rng.choice(['a', 'b', 'xy', 'k1', '7', 'A b']) for _ in range(rng.randint(1, 4))]
    if t in ('TList', 'TTuple', 'TDict') and rng.random() < 0.15:
        return rng.choice(['', '', ' ', '\t '])       # the empty collection
    if t in ('TList', 'TTuple'):
        return ','.join(pad(i) if rng.random() < 0.3 else i for i in items)
    if t == 'TDict':
        return ','.join((pad(k) if rng.random() < 0.3 else k) + '=' + rng.choice(['1', 'v', 'x y', pad('z')]) for k in items)
    raise ValueError(t)


def malformed_text(rng, t):
    if t == 'TBool':
        return rng.choice(['yes', '1', '', 'tru e', 'TRUE!', 'fals'])
    if t == 'TInt':
        return rng.choice(['', 'x', '1.5', '1__0', '_1', '1_', '- 1', '+', '0x10', '1 2', '--1'])
    if t == 'TEnum':
        return rng.choice(['9', 'PURPLE', '', ' red', 'red ', '1.0', '0'])
    if t == 'TDict':
        return rng.choice(['a', 'a=1,b', 'a=1=2', '', 'a=1,,b=2', '=', 'a=1,a=2', ' a = 1 , a=3,b=4'])
    if t in ('TList', 'TTuple'):
        return rng.choice(['', ',', 'a,,b', ' , a'])
    return wellformed_text(rng, t)


def explicit_value(rng, name, toks_pool):
    t = FIELDS[name]
    generic = [None, 0, False, '', [], 3.25, toks_pool[0]]
    typed = {'TBool': [True, False], 'TInt': [0, 1, -7, 10 ** 20], 'TFloat': [0.0, 2.5], 'TStr': ['', 'q', 'a,b'],
             'TPath': [Path('p/q')], 'TEnum': list(Color), 'TDict': [{}, {'k': 'v', 'a': 'b'}], 'TList': [[], ['a', 'b']],
             'TTuple': [(), ('z',)]}[t]
    return rng.choice(typed + typed + generic)


def gen_history(rng, n_ops, pool):
    names = list(FIELDS)
    focus = rng.sample(names, rng.randint(1, 3))
    ops = []
    for _ in range(n_ops):
        n = rng.choice(focus) if rng.random() < 0.8 else rng.choice(names)
        r = rng.random()
        if r < 0.34:
            ops.append(('get', n))
        elif r < 0.52:
            ops.append(('set', n, explicit_value(rng, n, pool)))
        elif r < 0.62:
            ops.append(('del', n))
        elif r < 0.80:
            t = FIELDS[n]
            txt = malformed_text(rng, t) if (rng.random() < 0.25 and t != 'TFloat') else wellformed_text(rng, t)
            ops.append(('setenv', n, txt))
        elif r < 0.87:
            ops.append(('unsetenv', n))
        elif r < 0.97:
            k = rng.randint(0, 3)
            items = [(m, explicit_value(rng, m, pool)) for m in rng.sample(names, k)]
            if rng.random() < 0.35:
                items.insert(rng.randint(0, len(items)), (rng.choice(['NOPE', 'lower', '_PRIV', 'b']), 1))
            if rng.random() < 0.2 and items and items[0][0] in FIELDS:
                items.append(items[0][0:1] + (explicit_value(rng, items[0][0], pool),))
            ops.append(('update', items))
        else:
            ops.append(('get', rng.choice(['NOPE', 'QQ'])))
    return ops


# ---- running a history on the implementation --------------------------------------------------------
def run_impl(Cfg, ops, toks):
    """Returns list of Coq terms of type out (what the implementation did)."""
    meta = type(Cfg)
    for k in list(os.environ):
        if k.startswith('VT_'):
            del os.environ[k]
    for n in list(FIELDS):
        if hasattr(Cfg, '_' + n):
            delattr(Cfg, '_' + n)
    outs = []
    env_now = {}
    for o in ops:
        k = o[0]
        try:
            if k == 'get':
                name = o[1]
                if name not in FIELDS:
                    try:
                        getattr(Cfg, name)
                        outs.append("(OVal (Ok VNone))")
                    except AttributeError:
                        outs.append("(ORaise AttributeError)")
                    continue
                try:
                    v = getattr(Cfg, name)
                except Exception as e:
                    outs.append(f"(OVal (Err {ERR.get(type(e).__name__, 'TypeError')}))")
                    continue
                if isinstance(v, float) and not any(v is x for x in toks.objs) and name in env_now and getattr(Cfg, '_' + name, None) is None:
                    assert float(env_now[name]) == v or v != v
                    outs.append(f"(OVal (Ok (VFloatOf {cstr(env_now[name])})))")
                else:
                    outs.append(f"(OVal (Ok {cval(v, toks)}))")
            elif k == 'set':
                setattr(Cfg, o[1], o[2])
                outs.append("ODone")
            elif k == 'del':
                try:
                    delattr(Cfg, o[1])
                    outs.append("ODone")
                except AttributeError:
                    outs.append("(ORaise AttributeError)")
            elif k == 'setenv':
                os.environ['VT_' + o[1]] = o[2]
                env_now[o[1]] = o[2]
                outs.append("ODone")
            elif k == 'unsetenv':
                os.environ.pop('VT_' + o[1], None)
                env_now.pop(o[1], None)
                outs.append("ODone")
            elif k == 'update':
                try:
                    Cfg.update(dict_from(o[1]))
                    outs.append("ODone")
                except AttributeError:
                    outs.append("(ORaise AttributeError)")
        except Exception as e:  # anything unexpected is visible as a mismatch
            outs.append(f"(ORaise {ERR.get(type(e).__name__, 'TypeError')})")
    for k in list(os.environ):
        if k.startswith('VT_'):
            del os.environ[k]
    return outs


def dict_from(items):
    d = {}
    for n, v in items:
        d[n] = v
    return d


def normalise_update(o):
    """dict semantics of the argument of update: later duplicates replace the value in place."""
    if o[0] != 'update':
        return o
    return ('update', list(dict_from(o[1]).items()))


def st0_term():
    Cfg = make_class()
    toks = Tokens()
    known = []
    for n, t in FIELDS.items():
        d = type(Cfg).__dict__[n].default
        dv = f"(VTok 9000%Z)" if isinstance(d, float) else cval(d, toks)
        known.append(f"({cstr(n)}, {{| cv_ty := {cty(t)}; cv_default := {dv} |}})")
    return "{| known := [" + ";\n ".join(known) + "]; explicit := []; envm := [] |}"


def x_tie(chk, n_cases):
    rng = random.Random(chk.seed * 1000003 + 20)
    Cfg = make_class()
    pool = [object()]
    cases, all_ops = [], []
    stats = {'ops': {}, 'env_wellformed': 0, 'errors': {}}
    corpus = load_corpus()
    fdef = type(Cfg).__dict__['F'].default
    for i in range(n_cases):
        if i < len(corpus):
            ops = corpus[i]
        else:
            ops = gen_history(rng, rng.randint(3, 25 if not chk.thorough else 60), pool)
        ops = [normalise_update(o) for o in ops]
        toks = Tokens()
        toks.tok = (lambda orig: (lambda o: 9000 if o is fdef else orig(o)))(toks.tok)
        outs = run_impl(Cfg, ops, toks)
        ops_c = [cop(o, toks) for o in ops]
        for o in ops:
            stats['ops'][o[0]] = stats['ops'].get(o[0], 0) + 1
        for x in outs:
            m = re.search(r'(?:Err|ORaise) (\w+)', x)
            if m:
                stats['errors'][m.group(1)] = stats['errors'].get(m.group(1), 0) + 1
        cases.append((ops_c, outs))
        all_ops.append(ops)
    # write shards
    shard = 250
    files = []
    for s in range(0, len(cases), shard):
        part = cases[s:s + shard]
        name = f"cases_{s // shard}.v"
        body = ["From PyrollLib Require Import Config ConfigFacts.", "From Run Require Import Gen_config.",
                f"Definition st0 : state := {st0_term()}.",
                "Definition cases : list (list op * list out) := ["]
        body.append(";\n".join("([" + "; ".join(oc) + "],\n  [" + "; ".join(ou) + "])" for oc, ou in part))
        body.append("].")
        body.append("Eval vm_compute in (mismatches gen_params st0 cases 0).")
        chk.coq.add_text(name, "\n".join(body) + "\n")
        files.append((name, s))
    import concurrent.futures as cf
    bad = []
    with cf.ThreadPoolExecutor(8) as ex:
        results = list(ex.map(lambda f: chk.coq.compile(f[0], timeout=600), files))
    for (name, s), r in zip(files, results):
        if not r['ok']:
            chk.unshown_add(f"correspondence:{name}", r['err'][-600:])
            continue
        m = re.search(r'=\s*\[(.*?)\]\s*:\s*list nat', r['out'], re.S)
        if not m:
            chk.unshown_add(f"correspondence:{name}", "could not read result: " + r['out'][-300:])
            continue
        idxs = [int(x) for x in re.findall(r'\d+', m.group(1))]
        bad += [s + i for i in idxs]
    distinct = len({json.dumps(o, default=str) for o in all_ops})
    chk.x_stats['correspondence'] = {'histories': len(cases), 'distinct_histories': distinct, 'disagreements': len(bad),
                                     'op_mix': stats['ops'], 'error_kinds': stats['errors']}
    chk.cov['evaluations'] += len(cases)
    chk.cov['distinct_nontrivial'] += distinct
    for i in range(min(3, len(all_ops))):
        chk.sample({'history': [list(map(str, o)) for o in all_ops[-1 - i]][:12]})
    return [(i, all_ops[i]) for i in bad]


def load_corpus():
    p = os.path.join(os.path.dirname(os.path.dirname(os.path.dirname(os.path.abspath(__file__)))), 'corpus', 'C20.json')
    if os.path.exists(p):
        return [[tuple(o) if o[0] != 'update' else ('update', [tuple(x) for x in o[1]]) for o in h] for h in json.load(open(p))]
    return []


# ---- independent oracle on the implementation ---------------------------------------------------------
def ref_parse(t, s):
    """Independent reading of 'natural text form' (raises on unparseable)."""
    if t == 'TBool':
        w = s.strip().lower()
        if w not in ('true', 'false'):
            raise ValueError
        return w == 'true'
    if t == 'TInt':
        return int(s)
    if t == 'TFloat':
        return float(s)
    if t == 'TStr':
        return s
    if t == 'TPath':
        return Path(s)
    if t == 'TEnum':
        try:
            return Color(int(s))
        except ValueError:
            try:
                return Color[s]            # a member given by its name ...
            except KeyError:
                return Color[s.upper()]    # ... or, for upper-case members, in any letter case
    # the natural text form of an empty list / tuple / mapping is the empty text
    if t == 'TList':
        return [x.strip() for x in s.split(',')] if s.strip() else []
    if t == 'TTuple':
        return tuple(x.strip() for x in s.split(',')) if s.strip() else ()
    if t == 'TDict':
        d = {}
        if not s.strip():
            return d
        for p in s.split(','):
            k, v = [x.strip() for x in p.strip().split('=')]
            d[k] = v
        return d


def oracle(chk, n, hints=()):
    rng = random.Random(chk.seed + 2020)
    Cfg = make_class()
    pool = [object()]
    special = []
    defaults = {nme: type(Cfg).__dict__[nme].default for nme in FIELDS}
    for nme, t in FIELDS.items():
        other = 'false' if nme == 'B' else 'true' if nme == 'BF' else wellformed_text(rng, t)
        # bulk update to the value that is resolved anyway (the default) must still make it explicit: the environment no longer wins, delete works
        special.append([('update', [(nme, defaults[nme])]), ('setenv', nme, other), ('get', nme), ('del', nme), ('get', nme), ('unsetenv', nme), ('get', nme)])
        # ... and to the value the environment currently gives
        try:
            envval = ref_parse(t, other)
        except Exception:      # noqa
            continue
        if envval is not None and envval == envval:
            other2 = 'true' if nme == 'B' else 'false' if nme == 'BF' else wellformed_text(rng, t)
            special.append([('setenv', nme, other), ('get', nme), ('update', [(nme, envval)]), ('setenv', nme, other2), ('get', nme), ('del', nme), ('get', nme)])
    histories = special + [h for _, h in hints] + [gen_history(rng, rng.randint(3, 20), pool) for _ in range(n)]
    for h in histories:
        for k in list(os.environ):
            if k.startswith('VT_'):
                del os.environ[k]
        for nme in FIELDS:
            if hasattr(Cfg, '_' + nme):
                delattr(Cfg, '_' + nme)
        expl, env = {}, {}
        for step, o in enumerate(h):
            k = o[0]
            what = None
            if k == 'set':
                setattr(Cfg, o[1], o[2]); expl[o[1]] = o[2]
            elif k == 'del':
                try:
                    delattr(Cfg, o[1])
                except AttributeError:
                    if o[1] in expl and o[1] in FIELDS:
                        what = f"deleting the explicitly set {o[1]} raised AttributeError"
                expl.pop(o[1], None)
            elif k == 'setenv':
                os.environ['VT_' + o[1]] = o[2]; env[o[1]] = o[2]
            elif k == 'unsetenv':
                os.environ.pop('VT_' + o[1], None); env.pop(o[1], None)
            elif k == 'update':
                d = dict_from(o[1])
                unknown = [x for x in d if x not in FIELDS]
                try:
                    Cfg.update(d)
                    raised = False
                except AttributeError:
                    raised = True
                if unknown and not raised:
                    what = f"update with unknown name {unknown[0]!r} did not raise"
                elif not unknown and raised:
                    what = "update with known names raised"
                elif not unknown:
                    expl.update(d)
            elif k == 'get' and o[1] in FIELDS:
                name, t = o[1], FIELDS[o[1]]
                try:
                    got = ('ok', getattr(Cfg, name))
                except Exception as e:
                    got = ('exc', type(e).__name__)
                if expl.get(name) is not None:
                    exp = ('ok', expl[name])
                elif name in env:
                    try:
                        exp = ('ok', ref_parse(t, env[name]))
                    except Exception:
                        exp = ('exc', None)
                else:
                    exp = ('ok', type(Cfg).__dict__[name].default)
                if exp[0] != got[0]:
                    what = f"read of {name}: expected {exp}, got {got}"
                elif exp[0] == 'ok':
                    a, b = exp[1], got[1]
                    same = (a is b) or (type(a) is type(b) and (a == b or (a != a and b != b)))
                    if not same:
                        what = f"read of {name}: expected {a!r}, got {b!r}"
            if what:
                chk.fail('config:' + k, what + f" (step {step})", {'history': [list(map(repr, x)) for x in h[:step + 1]]})
                return
        chk.cov['evaluations'] += 1
    for k in list(os.environ):
        if k.startswith('VT_'):
            del os.environ[k]
    core_config_oracle(chk)
    if not chk.failures:
        parser_oracle(chk)
    if not chk.failures:
        shared_declaration_oracle(chk)
    if not chk.failures:
        enum_alias_oracle(chk)


def parser_oracle(chk):
    """config values with their own parser: each one parses its environment text by ITS rule, whatever was read before and whatever other value
    of the same type holds the same text"""
    import itertools
    from pyroll.core.config import config, ConfigValue
    rules = {'HEXV': (lambda s: int(s, 16)), 'PLAIN': None, 'NEG': (lambda s: -int(s)), 'TWICE': (lambda s: 2 * int(s))}
    for text in ('21', '30', '7'):
        expect = {'HEXV': int(text, 16), 'PLAIN': int(text), 'NEG': -int(text), 'TWICE': 2 * int(text)}
        for order in itertools.permutations(rules):
            @config("VP")
            class PCfg:
                HEXV = ConfigValue(1, parser=rules['HEXV'])
                PLAIN = 2
                NEG = ConfigValue(3, parser=rules['NEG'])
                TWICE = ConfigValue(4, parser=rules['TWICE'])
            for nme in rules:
                os.environ['VP_' + nme] = text
            try:
                got = {nme: getattr(PCfg, nme) for nme in order}
            finally:
                for nme in rules:
                    os.environ.pop('VP_' + nme, None)
            chk.cov['evaluations'] += 1
            bad = [nme for nme in order if got[nme] != expect[nme]]
            if bad:
                chk.fail('config:parser', f"environment text {text!r} for four integer values with different parsers, read in the order {list(order)}: "
                         f"{bad[0]} gives {got[bad[0]]!r}, its parser gives {expect[bad[0]]!r}", {'text': text, 'order': list(order)})
                return


def enum_alias_oracle(chk):
    """every NAME of an enum member is a text form of it - also an alias (a second name of one value), in the letter cases the lookup order admits"""
    from pyroll.core.config import config

    class Grade(enum.Enum):
        SOFT = 1
        HARD = 2
        ANNEALED = 1      # alias of SOFT
        tough = 2         # lower-case alias of HARD

    @config("VE")
    class ECfg:
        GRADE = Grade.HARD
    for text, want in (('ANNEALED', Grade.SOFT), ('annealed', Grade.SOFT), ('tough', Grade.HARD), ('SOFT', Grade.SOFT), ('hard', Grade.HARD), ('1', Grade.SOFT)):
        os.environ['VE_GRADE'] = text
        chk.cov['evaluations'] += 1
        try:
            got = ECfg.GRADE
        except Exception as e:      # noqa
            got = f"{type(e).__name__}: {e}"
        finally:
            os.environ.pop('VE_GRADE', None)
        if got is not want:
            return chk.fail('config:get', f"an enum value with environment text {text!r} (members SOFT = 1, HARD = 2, aliases ANNEALED = 1, tough = 2): read gives {got!r}, "
                            f"the member of that name is {want!r}", {'text': text, 'case': 'enum alias'})


def shared_declaration_oracle(chk):
    """user-defined config classes that share a declaration: one ConfigValue object used in the bodies of two classes, and one plain class body decorated
    under two prefixes - every class resolves ITS values: its own explicit value, else its own PREFIX_NAME variable, else the default"""
    from pyroll.core.config import config, ConfigValue
    shared = ConfigValue(5, parser=lambda s: int(s) + 1000)

    def body():
        class Body:
            N = shared
            M = 7
        return Body
    A = config("VSA")(body())
    B = config("VSB")(body())

    class Plain:
        M = 7
        L = [1]
    P1 = config("VSP")(Plain)
    P2 = config("VSQ")(Plain)
    env = {'VSA_N': '1', 'VSB_N': '2', 'VSA_M': '11', 'VSB_M': '12', 'VSP_M': '21', 'VSQ_M': '22'}
    os.environ.update(env)
    try:
        got = {'A.N': A.N, 'B.N': B.N, 'A.M': A.M, 'B.M': B.M, 'P1.M': P1.M, 'P2.M': P2.M}
        want = {'A.N': 1001, 'B.N': 1002, 'A.M': 11, 'B.M': 12, 'P1.M': 21, 'P2.M': 22}
        chk.cov['evaluations'] += 1
        if got != want:
            return chk.fail('config:shared-declaration', f"two config classes (prefixes VSA / VSB, VSP / VSQ) built from one declaration, environment {env}: "
                            f"reads give {got}, each class's own variables give {want}", {'environment': env})
        A.N = 0
        B.M = False
        got = {'A.N': A.N, 'B.N': B.N, 'A.M': A.M, 'B.M': B.M}
        want = {'A.N': 0, 'B.N': 1002, 'A.M': 11, 'B.M': False}
        chk.cov['evaluations'] += 1
        if got != want:
            return chk.fail('config:shared-declaration', f"explicit values A.N = 0, B.M = False on two classes sharing a declaration: reads give {got}, expected {want}",
                            {'environment': env, 'explicit': {'A.N': 0, 'B.M': False}})
        del A.N
        for k in env:
            os.environ.pop(k)
        got = {'A.N': A.N, 'B.N': B.N, 'A.M': A.M, 'B.M': B.M, 'P1.M': P1.M, 'P2.M': P2.M}
        want = {'A.N': 5, 'B.N': 5, 'A.M': 7, 'B.M': False, 'P1.M': 7, 'P2.M': 7}
        if got != want:
            return chk.fail('config:shared-declaration', f"after deleting A.N and clearing the environment: reads give {got}, expected {want}", {'environment': {}})
    finally:
        for k in env:
            os.environ.pop(k, None)


def core_config_oracle(chk):
    """The same precedence on the real pyroll.core.Config with PYROLL_CORE_* variables."""
    from pyroll.core import Config
    meta = type(Config)
    for n, cv in Config.to_dict().items():
        d = cv.default
        var = 'PYROLL_CORE_' + n
        texts = {bool: ('false', False) if d else (' TRUE ', True), int: ('17', 17), float: ('2.5', 2.5)}
        if type(d) not in texts:
            continue
        txt, val = texts[type(d)]
        saved = os.environ.pop(var, None)
        try:
            ok = getattr(Config, n) == d
            os.environ[var] = txt
            ok = ok and getattr(Config, n) == val and type(getattr(Config, n)) is type(d)
            falsy = type(d)(0)
            setattr(Config, n, falsy)
            ok = ok and getattr(Config, n) == falsy
            delattr(Config, n)
            ok = ok and getattr(Config, n) == val
            del os.environ[var]
            ok = ok and getattr(Config, n) == d
            if not ok:
                chk.fail('config:core', f"pyroll.core.Config.{n} does not follow explicit > {var} > default", {'name': n})
        finally:
            os.environ.pop(var, None)
            if saved is not None:
                os.environ[var] = saved
            if hasattr(Config, '_' + n):
                delattr(Config, '_' + n)
        chk.cov['evaluations'] += 1


def run(chk):
    try:
        txt, info = config_tg.generate()
        chk.coq.add_text('Gen_config.v', txt)
        chk.x_stats['translator_TG'] = info
        r = chk.coq.compile('Gen_config.v')
        if not r['ok']:
            chk.unshown_add('Gen_config.v', r['err'][-500:])
    except Untranslatable as e:
        chk.unshown_add('translator T-G', f"config.py left the recognised fragment: {e}")
        chk.coq.add_text('Gen_config.v', "From PyrollLib Require Import Config.\nDefinition gen_params := std_params.\n")
        chk.coq.compile('Gen_config.v')
    chk.coq.add_prop_file('C20.v')
    chk.coq.compile('C20.v', is_props=True)
    bad = x_tie(chk, 3000 if chk.thorough else 600)
    for i, h in bad[:5]:
        chk.unshown_add(f"correspondence:case{i}", "model and implementation disagree on history " + repr(h)[:600])
    oracle(chk, (3000 if chk.thorough else 300) * (4 if (bad or chk.unshown) else 1), hints=bad[:50])
    chk.cov['rule'] = ("X-tie: seeded random histories of get/set/del/setenv/unsetenv/update over a config class with one value "
                       "per supported type (well-formed and malformed environment texts, falsy and None explicit values, unknown "
                       "names); distinct = distinct histories; oracle: independent reference resolution on the same generator "
                       "and on pyroll.core.Config")
    chk.trusted += ["translator T-G (tools/py2coq/config_tg.py): order of tests/sources and update mode only; the meaning of each "
                    "branch is hand-modelled in coq/lib/Config.v and tied by the correspondence run",
                    "correspondence harness tools/props/c20.py (case rendering, canonicalisation)"]
    chk.assumptions += ["float() and custom parsers are oracles (VFloatOf); only ASCII text is generated",
                        "Python's str.strip/lower/upper/split and int() are modelled for ASCII"]


def replay(data):
    print(json.dumps(data.get('input'), indent=1)[:3000])
    from common import Check
    chk = Check('C20', 'quick', 0)
    return 0
