"""C06 - state is handed over unchanged and volume conserved along solved sequences."""
import json
import math
import random

import numpy as np

from props import _ta


def flow_stress(self):
    return 50e6 * (1 + self.strain) ** 0.2 * self.roll_pass.strain_rate ** 0.1


def spread_width(self, cycle):
    if cycle:
        return None
    rp = self.roll_pass
    return rp.in_profile.width * rp.draught ** (-0.4)


def layouts():
    from pyroll.core import (Roll, RollPass, ThreeRollPass, Transport, CoolingPipe, Rotator, RoundGroove, CircularOvalGroove, PassSequence, Profile)

    def oval(**kw):
        return RollPass(label="oval", roll=Roll(groove=CircularOvalGroove(depth=8e-3, r1=6e-3, r2=40e-3), nominal_radius=160e-3,
                                                rotational_frequency=1, neutral_point=-20e-3), gap=2e-3, **kw)

    def rnd(**kw):
        return RollPass(label="round", roll=Roll(groove=RoundGroove(r1=1e-3, r2=12.5e-3, depth=11.5e-3), nominal_radius=160e-3,
                                                 rotational_frequency=1), gap=2e-3, **kw)

    def oval2(**kw):
        return RollPass(label="oval2", roll=Roll(groove=CircularOvalGroove(depth=6e-3, r1=6e-3, r2=35e-3), nominal_radius=160e-3,
                                                 rotational_frequency=1), gap=2e-3, **kw)
    def ip2():
        p_ = Profile.round(diameter=30e-3, temperature=1473.15, material=["C45", "steel"], length=1, density=7.5e3)
        p_.classifiers = set(p_.classifiers) | {"CC-Billet", "Heat 4711"}       # keywords of the feedstock: mixed case, blanks
        return p_
    ip3 = lambda: Profile.round(diameter=55e-3, temperature=1473.15, strain=0, material=["C45", "steel"], flow_stress=100e6, length=1)
    ip4 = lambda: Profile.round(diameter=30e-3, temperature=1473.15, strain=0.25, material=["C45", "steel"], length=1, density=7.5e3)
    out = []
    out.append(('flat', lambda: PassSequence([oval(), Transport(label="t1", duration=1), rnd(), Transport(label="t2", duration=2), oval2()]), ip2, False))
    out.append(('nested', lambda: PassSequence([PassSequence([oval(), Transport(label="t1", duration=1)], label="inner"), rnd(),
                                                PassSequence([Transport(label="t2", duration=0.5), oval2()], label="inner2")]), ip4, False))
    out.append(('nested-last', lambda: PassSequence([oval(), Transport(label="t1", duration=1),
                                                     PassSequence([rnd(), Transport(label="t2", duration=1), oval2()], label="finishing line")], label="plant"), ip2, False))
    out.append(('ends-with-transport', lambda: PassSequence([PassSequence([oval(), Transport(label="t1", duration=1)], label="inner"),
                                                             Transport(label="t9", duration=0.5, velocity=1.0)]), ip4, False))
    out.append(('cooling+rotator', lambda: PassSequence([oval(), CoolingPipe(label="cp", duration=1.5, inner_radius=0.05, coolant_volume_flux=1e-3),
                                                         Rotator(label="rot", rotation=90), rnd()]), ip2, False))
    out.append(('disks', lambda: PassSequence([oval(disk_element_count=3), Transport(label="t1", duration=1, disk_element_count=4), rnd(disk_element_count=5)]), ip2, False))
    out.append(('disks-exit-point', lambda: PassSequence([oval(disk_element_count=4, exit_point=4e-3), Transport(label="t1", duration=1, disk_element_count=3),
                                                          rnd(disk_element_count=2, exit_point=2e-3)]), ip2, False))
    out.append(('cooling-pipe-disks', lambda: PassSequence([oval(disk_element_count=2), CoolingPipe(label="cp", duration=1.5, inner_radius=0.05, coolant_volume_flux=1e-3,
                                                                                                     disk_element_count=3),
                                                            Transport(label="t1", length=0.5, disk_element_count=2), rnd()]), ip2, False))
    out.append(('spread-model', lambda: PassSequence([oval(), Transport(label="t1", duration=1), rnd()]), ip2, True))
    out.append(('transport-first', lambda: PassSequence([Transport(label="t0", duration=1, velocity=1.0), oval(), Transport(label="t1", duration=1), rnd()]), ip2, False))
    out.append(('rotator-first', lambda: PassSequence([Rotator(label="rot0", rotation=90, velocity=1.0), oval(), Transport(label="t1", duration=1), rnd()]), ip2, False))
    out.append(('three-roll', lambda: PassSequence([
        ThreeRollPass(label="o3", roll=Roll(groove=CircularOvalGroove(depth=8e-3, r1=6e-3, r2=40e-3, pad_angle=30), nominal_radius=160e-3, rotational_frequency=1), gap=2e-3),
        Transport(label="t", duration=1),
        ThreeRollPass(label="r3", roll=Roll(groove=RoundGroove(r1=3e-3, r2=25e-3, depth=11e-3, pad_angle=30), nominal_radius=160e-3, rotational_frequency=1), gap=2e-3),
        Rotator(label="rot3", rotation=60)]), ip3, False))
    out.append(('three-roll-disks', lambda: PassSequence([
        ThreeRollPass(label="o3", roll=Roll(groove=CircularOvalGroove(depth=8e-3, r1=6e-3, r2=40e-3, pad_angle=30), nominal_radius=160e-3, rotational_frequency=1), gap=2e-3,
                      disk_element_count=3),
        Transport(label="t", duration=1, disk_element_count=2),
        ThreeRollPass(label="r3", roll=Roll(groove=RoundGroove(r1=3e-3, r2=25e-3, depth=11e-3, pad_angle=30), nominal_radius=160e-3, rotational_frequency=1), gap=2e-3,
                      disk_element_count=1)]), ip3, False))
    # a workpiece that is not centred on the rolling axis (a bar with a nose on one side): rotations are about the axis, not about the workpiece
    def ip_off():
        from shapely.geometry import Polygon
        poly = Polygon([(-12e-3, -14e-3), (12e-3, -14e-3), (16e-3, 0), (12e-3, 14e-3), (-12e-3, 14e-3)])
        return Profile.from_polygon(poly, {"box"}, temperature=1473.15, strain=0, material=["C45", "steel"], length=1, density=7.5e3)
    out.append(('off-axis', lambda: PassSequence([Transport(label="feed", duration=1, velocity=1.0), Rotator(label="rot30", rotation=30, velocity=1.0), oval(),
                                                  Transport(label="t1", duration=1), rnd()]), ip_off, False))
    return out


def public(d):
    return {k: v for k, v in d.__dict__.items() if not k.startswith('_')}


def same_value(a, b):
    if a is b:
        return True
    try:
        if isinstance(a, (int, float, np.floating)) and isinstance(b, (int, float, np.floating)):
            return float(a) == float(b)
        return bool(a == b)
    except Exception:
        return False


def rel(a, b):
    return abs(a - b) / max(abs(a), abs(b), 1e-300)


def check_sequence(chk, name, seq, returned, ip, prec):
    try:
        return _check_sequence(chk, name, seq, returned, ip, prec)
    except AttributeError as e:
        # a value the property speaks about (a unit's length, duration, power, a profile's time ...) cannot be read although the solve succeeded
        if not chk.failures:
            chk.fail('value-unavailable', f"[{name}] the sequence solved, but reading the values of its units fails: {type(e).__name__}: {str(e)[:160]}", {'layout': name})


def _check_sequence(chk, name, seq, returned, ip, prec):
    from pyroll.core import BaseRollPass, Rotator, PassSequence, Transport
    fails = []

    def fail(key, what):
        if not chk.failures:
            chk.fail(key, f"[{name}] {what}", {'layout': name})
        fails.append(key)

    def walk(units, incoming_public):
        """incoming_public: public explicit values of the profile handed to the first unit"""
        last = incoming_public
        for u in units:
            inp = public(u.in_profile)
            through_rotation = isinstance(u, BaseRollPass) and bool(u.rotation)
            for k, v in last.items():
                if through_rotation and k in ('cross_section', 'classifiers'):
                    continue
                if k == 'velocity':
                    continue     # InProfile.velocity is a root hook of roll passes: recomputed by continuity at the entry (C19)
                if k not in inp or not same_value(inp[k], v):
                    fail('handover', f"{u}: in_profile.{k} = {inp.get(k)!r}, predecessor delivered {v!r}")
            if through_rotation:
                if rel(inp['cross_section'].area, last['cross_section'].area) > 1e-12:
                    fail('handover-rotation', f"{u}: entry rotation changed the area")
                # classifiers: what was delivered arrives letter by letter (the turn only adds its marks)
                if not set(last.get('classifiers', ())) <= set(inp.get('classifiers', ())):
                    fail('handover', f"{u}: the entering profile lacks delivered classifiers {sorted(set(last['classifiers']) - set(inp['classifiers']))} "
                                     f"(it carries {sorted(inp['classifiers'])})")
                # ... and the entering section is the delivered one turned about the rolling axis (by the set angle, or by one of the rule angles)
                from shapely.affinity import rotate as _rot
                P, Q = last['cross_section'], inp['cross_section']
                rot = u.rotation
                angles = [float(rot)] if not isinstance(rot, (bool, np.bool_)) else [0.0, 45.0, 60.0, 90.0, 180.0]
                if all(_rot(P, a, origin=(0, 0)).symmetric_difference(Q).area > 1e-9 * P.area for a in angles):
                    fail('handover-rotation', f"{u}: the entering section is not the delivered one turned about the rolling axis by {angles} degrees "
                                              f"(centroid {P.centroid.x:.4g}, {P.centroid.y:.4g} -> {Q.centroid.x:.4g}, {Q.centroid.y:.4g})")
            # time, length, strain
            t_in, t_out = float(u.in_profile.t), float(u.out_profile.t)
            if abs(t_out - (t_in + float(u.duration))) > 1e-12 * max(1.0, abs(t_out)) or t_out < t_in - 1e-15:
                fail('time', f"{u}: t_out = {t_out}, t_in + duration = {t_in + float(u.duration)}")
            vin = u.in_profile.cross_section.area * float(u.in_profile.length)
            vout = u.out_profile.cross_section.area * float(u.out_profile.length)
            if rel(vin, vout) > 2 * prec:
                fail('volume', f"{u}: volume in {vin}, out {vout} (relative change {rel(vin, vout):.2e}, precision {prec})")
            chk.x_stats['max_volume_change'] = max(chk.x_stats.get('max_volume_change', 0.0), rel(vin, vout))
            if isinstance(u, BaseRollPass):
                dse = float(u.draught) * float(u.spread) * float(u.elongation)
                chk.x_stats['max_dse_deviation'] = max(chk.x_stats.get('max_dse_deviation', 0.0), abs(dse - 1))
                if abs(dse - 1) > 3 * prec:
                    fail('dse', f"{u}: draught*spread*elongation = {dse}")
                if abs(float(u.out_profile.strain) - (float(u.in_profile.strain) + float(u.strain))) > 2 * prec * max(1.0, float(u.out_profile.strain)):
                    fail('strain', f"{u}: out strain {float(u.out_profile.strain)} != in strain + pass strain")
            if isinstance(u, Transport) and float(u.out_profile.strain) != 0:
                fail('strain-reset', f"{u}: transport out strain {float(u.out_profile.strain)}")
            if isinstance(u, Rotator) and float(u.duration) != 0:
                fail('rotator-duration', f"{u}: rotator duration {float(u.duration)}")
            if isinstance(u, Rotator):
                from shapely.affinity import rotate as _rot
                P, Q = u.in_profile.cross_section, u.out_profile.cross_section
                if _rot(P, float(u.rotation), origin=(0, 0)).symmetric_difference(Q).area > 1e-9 * P.area:
                    fail('rotator-axis', f"{u}: the outgoing section is not the incoming one turned by {float(u.rotation):g} degrees about the rolling axis "
                                         f"(centroid {P.centroid.x:.4g}, {P.centroid.y:.4g} -> {Q.centroid.x:.4g}, {Q.centroid.y:.4g})")
            # disk elements
            disks = list(u.subunits) if not isinstance(u, PassSequence) else []
            if disks:
                sl, sd = sum(float(d.length) for d in disks), sum(float(d.duration) for d in disks)
                if rel(sl, float(u.length)) > 1e-12 or rel(sd, float(u.duration)) > 1e-12:
                    fail('disks-sum', f"{u}: disk lengths add to {sl} (unit {float(u.length)}), durations to {sd} (unit {float(u.duration)})")
                has_x = isinstance(u, BaseRollPass)       # only roll passes define a position x along the roll gap
                for a, b in zip(disks, disks[1:]):
                    if has_x and float(b.in_profile.x) != float(a.out_profile.x):
                        fail('disks-x', f"{u}: disk x positions do not chain")
                    for k, v in public(a.out_profile).items():
                        if k in public(b.in_profile) and not same_value(public(b.in_profile)[k], v):
                            fail('disks-handover', f"{u}: disk in_profile.{k} differs from the previous disk's out_profile")
                # time along the disks: every disk ends at its start plus its duration, the first starts with the unit, the last ends with it
                tol_t = 1e-9 * max(1.0, abs(float(u.out_profile.t)))
                for d in disks:
                    if abs(float(d.out_profile.t) - (float(d.in_profile.t) + float(d.duration))) > tol_t:
                        fail('disks-time', f"{u}: disk {d.label!r} starts at t={float(d.in_profile.t):.9g}, lasts {float(d.duration):.9g} and ends at t={float(d.out_profile.t):.9g}")
                        break
                if abs(float(disks[0].in_profile.t) - float(u.in_profile.t)) > tol_t or abs(float(disks[-1].out_profile.t) - float(u.out_profile.t)) > max(tol_t, 10 * prec * float(u.duration)):
                    fail('disks-time', f"{u}: the disks run from t={float(disks[0].in_profile.t):.9g} to {float(disks[-1].out_profile.t):.9g}, the unit from "
                                       f"{float(u.in_profile.t):.9g} to {float(u.out_profile.t):.9g}")
                if has_x and abs(float(disks[-1].out_profile.x) - float(u.out_profile.x)) > 1e-12 * max(1e-3, abs(float(u.length))):
                    fail('disks-x-end', f"{u}: last disk ends at x={float(disks[-1].out_profile.x)}, unit at {float(u.out_profile.x)}")
            if isinstance(u, PassSequence):
                # (the sequence's own totals are read BEFORE those of its parts: a total must not depend on who asked first)
                own_totals = (float(u.duration), float(u.length), float(u.power))
                walk(u.units, public(u.in_profile))
                leaf_len = lambda q: sum(leaf_len(x) if isinstance(x, PassSequence) else float(x.length) for x in q.units)     # noqa
                if rel(own_totals[1], leaf_len(u)) > 1e-9:
                    fail('seq-sums', f"{u}: length {own_totals[1]} (read before the lengths of its parts) is not the sum over all its passes and transports, {leaf_len(u)}")
                prod = math.prod(float(x.elongation) if hasattr(type(x), 'elongation') else
                                 x.in_profile.cross_section.area / x.out_profile.cross_section.area for x in u.units)
                if rel(prod, float(u.elongation)) > 3 * prec * len(u.units):
                    fail('seq-elongation', f"{u}: elongation {float(u.elongation)} vs product of units {prod}")
                if rel(float(u.duration), sum([float(x.duration) for x in u.units])) > 1e-12 or rel(float(u.length), sum([float(x.length) for x in u.units])) > 1e-12:
                    fail('seq-sums', f"{u}: duration/length are not the sums of the units' values")
                if abs(float(u.power) - sum(float(x.power) for x in u.units)) > 1e-9 * max(1.0, abs(float(u.power))):
                    fail('seq-power', f"{u}: power is not the sum of the units' powers")
                # what leaves a sequence is what leaves its last unit - falsy values (a strain of 0 after a transport) included
                if u.units:
                    lastu = u.units[-1]
                    for k in ('strain', 't', 'length', 'temperature'):
                        if hasattr(lastu.out_profile, k) and hasattr(u.out_profile, k):
                            a, b = float(getattr(u.out_profile, k)), float(getattr(lastu.out_profile, k))
                            if abs(a - b) > 1e-12 * max(1.0, abs(b)):
                                fail('seq-out', f"{u}: delivers {k} = {a}, its last unit {lastu} delivered {b}")
            last = public(u.out_profile)
        return last
    walk([seq], public(ip))
    # what the caller gets back is the out profile's public explicit values
    for k, v in public(seq.out_profile).items():
        if k not in public(returned) or not same_value(public(returned)[k], v):
            fail('returned', f"returned profile .{k} differs from the sequence's out profile")
    return fails


def run(chk):
    _ta.generate(chk)
    for f in ('C06_proofs.v', 'C06.v'):
        chk.coq.add_prop_file(f)
    chk.coq.compile('C06_proofs.v', timeout=600)
    chk.coq.compile('C06.v', is_props=True, timeout=600)
    from pyroll.core import RollPass, ThreeRollPass
    prec = 1e-3
    done = []
    # "every solved sequence": also one solved after other units of the same process were merely looked at.  Probing an unsolved unit for values it
    # cannot have yet is an everyday operation (has_value answers False); it must leave nothing behind that a later solve could trip over
    from pyroll.core import Transport, Rotator, CoolingPipe, PassSequence, Profile as _P
    probes = [Transport(label="probe-t", duration=1), Rotator(label="probe-r", rotation=90), CoolingPipe(label="probe-c", length=1, inner_radius=0.05, coolant_volume_flux=1e-3),
              PassSequence([Transport(label="probe-inner", duration=1)], label="probe-seq")]
    for pu in probes:
        for hname in ('length', 'duration', 'velocity', 'volume', 'power'):
            try:
                pu.has_value(hname)
            except Exception as e:      # noqa
                chk.notes.append(f"has_value({hname!r}) on the unsolved {pu} raised {type(e).__name__}")
    try:
        probes[-1].solve(_P.round(diameter=30e-3, temperature=1473.15, material=["C45", "steel"]))      # no velocity anywhere: the length cannot be given
        probes[-1].has_value('length')
    except Exception:      # noqa  (a failing solve is an answer, too)
        pass
    for name, mk, ip_mk, spread in layouts():
        seq, ip = mk(), ip_mk()
        ctx = [RollPass.Profile.flow_stress(flow_stress), ThreeRollPass.Profile.flow_stress(flow_stress)]
        if spread:
            ctx.append(RollPass.OutProfile.width(spread_width))
        try:
            try:
                returned = seq.solve(ip)
            except Exception as e:      # noqa
                chk.fail('solve-fails', f"[{name}] the first solve of a fresh sequence fails with {type(e).__name__}: {str(e)[:150]} (before, unsolved units of the same "
                         f"process had been probed with has_value and a line without any velocity had been solved)", {'layout': name})
                continue
            check_sequence(chk, name, seq, returned, ip, prec)
            chk.cov['evaluations'] += 1
            # histories: the same sequence solved again with another incoming profile, then with a changed gap
            from pyroll.core import Profile, BaseRollPass
            d0 = ip.cross_section.bounds[2] - ip.cross_section.bounds[0]
            ip2 = Profile.round(diameter=0.94 * d0, **{k: v for k, v in ip.__dict__.items() if not k.startswith('_') and k not in ('cross_section', 'classifiers', 't')})
            # ... that also differs in what no unit of these layouts changes: material, density and an additional attribute must arrive at the end
            ip2.material = ["other", "steel"]
            ip2.density = 6.9e3
            ip2.heat_batch = "B-2"
            # between the solves everything is LOOKED at (representations of the sequence, of every unit and profile): what the next solve hands on is
            # decided by the new incoming profile alone
            from common import look_at
            for obj in [seq, ip, ip2] + [x for u_ in seq.units for x in (u_, getattr(u_, 'in_profile', None), getattr(u_, 'out_profile', None)) if x is not None]:
                look_at(obj, html=False)
            try:
                returned2 = seq.solve(ip2)
            except Exception as e:       # noqa
                fresh = mk()
                try:
                    fresh.solve(ip2)
                    chk.fail('resolve-fails', f"[{name}] solving again with a smaller incoming profile fails with {type(e).__name__}: {e} - a fresh sequence solves it",
                             {'layout': name})
                except Exception:      # noqa  (the physical models do not solve for this input: nothing to compare)
                    chk.notes.append(f"{name}: neither the re-solve nor a fresh sequence solves the smaller profile ({type(e).__name__})")
                done.append(name)
                continue
            check_sequence(chk, name + ' (solved again with a smaller incoming profile)', seq, returned2, ip2, prec)
            for attr in ('material', 'density', 'heat_batch'):
                for who, prof in (("the profile returned by the second solve", returned2), ("the last unit's out profile", seq.out_profile)):
                    if getattr(prof, attr, None) != getattr(ip2, attr) and not any(f.key == 'stale-handover' for f in chk.failures):
                        chk.fail('stale-handover', f"[{name}] solved with one profile, then with another one ({attr} = {getattr(ip2, attr)!r}): {who} carries "
                                 f"{attr} = {getattr(prof, attr, None)!r}", {'layout': name, 'attribute': attr})
                        break
            chk.cov['evaluations'] += 1

            def first_pass(u):
                for x in u.subunits:
                    if isinstance(x, BaseRollPass):
                        return x
                    if x.subunits and not isinstance(x, BaseRollPass):
                        r = first_pass(x)
                        if r is not None:
                            return r
                return None
            fp = first_pass(seq)
            if fp is not None:
                fp.gap = float(fp.gap) * 1.5
                try:
                    returned3 = seq.solve(ip2)
                    check_sequence(chk, name + ' (solved again after opening the first gap)', seq, returned3, ip2, prec)
                    chk.cov['evaluations'] += 1
                except Exception as e:      # noqa
                    # does an identical FRESH sequence with the opened gap solve?  then the failure is residue of the earlier solves
                    fresh = mk()
                    ffp = first_pass(fresh)
                    ffp.gap = float(fp.gap)
                    try:
                        fresh.solve(ip2)
                        chk.fail('resolve-fails', f"[{name}] the sequence solved, then solved again after opening the first gap to {float(fp.gap):.4g} fails with "
                                 f"{type(e).__name__}: {e} - a fresh sequence with the same parameters solves", {'layout': name, 'gap': float(fp.gap)})
                    except Exception:      # noqa
                        chk.notes.append(f"{name}: neither the re-solve nor a fresh sequence solves with the opened gap ({type(e).__name__})")
            # histories: the disk element counts edited between two solves (any disk element counts: more, fewer, none)
            def all_units(u):
                yield u
                for x in getattr(u, '_subunits', []):
                    if type(x).__name__ != 'DiskElement':
                        yield from all_units(x)
            with_disks = [u for u in all_units(seq) if hasattr(u, 'disk_element_count') and type(u).__name__ != 'DiskElement']
            if with_disks and not chk.failures and name in ('disks', 'three-roll-disks', 'flat'):
                for u, cnt in zip(with_disks, (5, 2, 0, 3, 1)):
                    u.disk_element_count = cnt
                try:
                    returned4 = seq.solve(ip2)
                    check_sequence(chk, name + ' (solved again after the disk element counts were changed to 5, 2, 0, ...)', seq, returned4, ip2, prec)
                    for u, cnt in zip(with_disks, (5, 2, 0, 3, 1)):
                        if len(u.disk_elements) != cnt and not chk.failures:
                            chk.fail('disks-count', f"[{name}] {u}: disk_element_count set to {cnt} before the solve, the unit works with {len(u.disk_elements)} disk elements",
                                     {'layout': name})
                    chk.cov['evaluations'] += 1
                except Exception as e:      # noqa
                    chk.fail('resolve-fails', f"[{name}] solving again after changing the disk element counts fails with {type(e).__name__}: {e}", {'layout': name})
        finally:
            for hf in ctx:
                hf.hook.remove_function(hf)
        done.append(name)
    chk.cov['distinct_nontrivial'] += len(done)
    chk.sample({'layouts': done})
    chk.cov['rule'] = ("six solved layouts (flat, nested, cooling pipe + explicit rotator, disk elements 3/4/5, cycle-aware spread model, "
                       "three-roll): for every unit, recursively: in profile = predecessor's out profile (identity or equality of every public "
                       "explicit value; through an entry rotation all but cross-section/classifiers), t_out = t_in + duration, volume within 2x "
                       "the iteration precision, d*s*e within 3x, strain accumulation/reset, sequence product and sums, disk chaining")
    chk.assumptions += ["'within the iteration precision' is checked as 2x (volume) / 3x (d*s*e) the configured precision 1e-3: remembered values lag "
                        "the final cross-section by one iterate (exact identity: C06_volume_lag_identity)",
                        "shapely area and rotation are kernel operations (sampled, not verified)"]


def replay(data):
    print(json.dumps(data, indent=1, default=str)[:2000])
    return 1
