"""C14 - the workpiece is turned exactly once between consecutive roll passes."""
import itertools
import json
import math
import random
import re

import numpy as np

from props import _ta

KINDS = [('pass', 'unset'), ('pass', True), ('pass', False), ('pass', 0), ('pass', 45), ('transport',), ('rotator', 90), ('rotator', 0), ('other',)]


def cunit(u):
    if u[0] == 'pass':
        s = u[1]
        cs = {'unset': 'SUnset'}.get(s) if isinstance(s, str) else ('STrue' if s is True else 'SFalse' if s is False else ('SZero' if s == 0 else f"(SAngle ({s})%Z)"))
        return f"(UPass {cs})"
    if u[0] == 'transport':
        return "UTransport"
    if u[0] == 'rotator':
        return f"(URotator ({u[1]})%Z)"
    return "UOther"


def crot(v):
    if v is True:
        return "RTrue"
    if v is False:
        return "RFalse"
    return f"(RNum ({int(v)})%Z)"


_g = {}


def groove(kind):
    from pyroll.core import RoundGroove, CircularOvalGroove
    if kind not in _g:
        _g[kind] = RoundGroove(r1=1e-3, r2=12.5e-3, depth=11.5e-3) if kind == 'round' else CircularOvalGroove(depth=8e-3, r1=6e-3, r2=40e-3)
    return _g[kind]


def build(units, solvable=False):
    from pyroll.core import RollPass, Roll, Transport, Rotator, CoolingPipe, PassSequence
    objs, npass = [], 0
    for u in units:
        if u[0] == 'pass':
            kw = {} if u[1] == 'unset' else {'rotation': u[1]}
            g = groove('oval' if npass % 2 == 0 else 'round')
            npass += 1
            objs.append((_PASSCLS[0] or RollPass)(label=f"p{len(objs)}", roll=Roll(groove=g, nominal_radius=160e-3, rotational_frequency=1), gap=2e-3, **kw))
        elif u[0] == 'transport':
            objs.append(Transport(label=f"t{len(objs)}", duration=1))
        elif u[0] == 'rotator':
            objs.append(Rotator(label=f"r{len(objs)}", rotation=u[1]))
        else:
            objs.append(CoolingPipe(label=f"c{len(objs)}", duration=1, inner_radius=0.05, coolant_volume_flux=1e-3))
    # the units handed to the sequence as a list, a tuple or a one-shot iterable (generator, reversed twice): the same sequence
    _BUILDS[0] += 1
    k = _BUILDS[0] % 4
    container = objs if k == 0 else tuple(objs) if k == 1 else (o for o in objs) if k == 2 else iter(list(objs))
    return PassSequence(container), objs


_BUILDS = [0]
_PASSCLS = [None]


def observe(units, auto):
    from pyroll.core import Config, BaseRollPass
    seq, objs = build(units)
    try:
        if not auto:
            Config.ROLL_PASS_AUTO_ROTATION = False
        out = []
        for o in objs:
            if isinstance(o, BaseRollPass):
                v = o.rotation
                out.append(v if isinstance(v, bool) else (v if isinstance(v, (bool,)) else v))
        return out
    finally:
        if not auto:
            del Config.ROLL_PASS_AUTO_ROTATION


def spec_rotation(units, i, auto):
    """the property stated directly (independent of the model): what pass i must do"""
    s = units[i][1]
    if s != 'unset':
        return s
    if not auto:
        return False
    for u in reversed(units[:i]):
        if u[0] == 'pass':
            return True
        if u[0] == 'rotator':
            return False
    return True


def flow_stress(self):
    return 50e6 * (1 + self.strain) ** 0.2 * self.roll_pass.strain_rate ** 0.1


def solved_turns(chk, units, auto):
    """solve a real sequence and count, in its final iteration, how often the workpiece is turned between
    consecutive passes (explicit rotators + entry rotators), and with which angle"""
    from pyroll.core import Profile, RollPass, Rotator, BaseRollPass, Config
    seq, objs = build(units, solvable=True)
    events = []
    orig_rot, orig_pass = Rotator.solve, BaseRollPass.solve

    def rot_solve(self, p):
        r = orig_rot(self, p)
        events.append(('rot', id(self), id(self.parent) if isinstance(self.parent, BaseRollPass) else None, float(self.rotation)))
        return r

    def pass_solve(self, p):
        events.append(('pass-begin', id(self)))
        r = orig_pass(self, p)
        events.append(('pass-end', id(self)))
        return r
    ip = Profile.round(diameter=30e-3, temperature=1473.15, material=["C45", "steel"], length=1)
    try:
        if not auto:
            Config.ROLL_PASS_AUTO_ROTATION = False
        Rotator.solve, BaseRollPass.solve = rot_solve, pass_solve
        with RollPass.Profile.flow_stress(flow_stress):
            seq.solve(ip)
    finally:
        Rotator.solve, BaseRollPass.solve = orig_rot, orig_pass
        if not auto:
            del Config.ROLL_PASS_AUTO_ROTATION
    passes = [o for o in objs if isinstance(o, BaseRollPass)]
    res = []
    for a, b in zip(passes, passes[1:]):
        ia = max(i for i, e in enumerate(events) if e == ('pass-end', id(a)))      # last time a finished
        ib = max(i for i, e in enumerate(events) if e == ('pass-begin', id(b)))    # last time b started
        ie = max(i for i, e in enumerate(events) if e == ('pass-end', id(b)))
        explicit = {e[1]: e[3] for e in events[ia:ib] if e[0] == 'rot' and e[2] is None}
        entry = [e[3] for e in events[ib:ie] if e[0] == 'rot' and e[2] == id(b)]
        turns = [x for x in explicit.values() if x % 360 != 0] + ([entry[-1]] if entry and entry[-1] % 360 != 0 else [])
        res.append(turns)
    return res, passes


def rotator_geometry_oracle(chk, rng, n):
    """Rotator.OutProfile: vertices are the incoming ones turned by the angle (vs the closed formula), equal area and
    perimeter, rotations add up, classifiers = incoming + marks as a NEW set"""
    from pyroll.core import Profile, Rotator
    for i in range(n):
        a, b = rng.choice([0, 45, 90, 180, 30, -60, 17.5]), rng.choice([45, 90, 180, 12.25])
        from shapely.geometry import Polygon
        off = Polygon([(1 + rng.random(), 0.5), (4, 0.5 + rng.random()), (4.5, 3), (2, 2.5 + rng.random())])     # irregular, off the axis
        tee = Polygon([(-1, -4), (1, -4), (1, 2), (4, 2), (4, 4), (-4, 4), (-4, 2), (-1, 2)])                      # centroid not at the origin
        p = rng.choice([Profile.box(height=2 + rng.random(), width=5, corner_radius=0.3), Profile.diamond(height=3, width=5 + rng.random(), corner_radius=0.2),
                        Profile.square(side=3 + rng.random(), corner_radius=0.1),
                        Profile.from_polygon(off, {'generic'}), Profile.from_polygon(tee, {'tee'})])
        cls_before = set(p.classifiers)
        r1 = Rotator(rotation=a)
        q = r1.solve(p)
        A = np.array(p.cross_section.exterior.coords)
        B = np.array(q.cross_section.exterior.coords)
        t = math.radians(a)
        E = np.column_stack([A[:, 0] * math.cos(t) - A[:, 1] * math.sin(t), A[:, 0] * math.sin(t) + A[:, 1] * math.cos(t)])
        chk.cov['evaluations'] += 1
        data = {'angle': a, 'shape': sorted(cls_before)}
        if B.shape != E.shape or np.abs(B - E).max() > 1e-9 * np.abs(A).max():
            chk.fail('rotator-geometry', f"rotator({a}) output is not the input turned by {a} degrees", data)
            return
        if abs(q.cross_section.area - p.cross_section.area) > 1e-9 * p.cross_section.area or \
                abs(q.cross_section.length - p.cross_section.length) > 1e-9 * p.cross_section.length:
            chk.fail('rotator-area', f"rotator({a}) changed area or perimeter", data)
            return
        q2 = Rotator(rotation=b).solve(q)
        q3 = Rotator(rotation=a + b).solve(p)
        if not q2.cross_section.equals_exact(q3.cross_section, 1e-9 * np.abs(A).max()):
            chk.fail('rotator-compose', f"rotating by {a} then {b} differs from rotating by {a + b}", data)
            return
        marks = {45: 'edged', 90: 'vertical', 180: 'mirrored'}
        exp = cls_before | {'rotated'} | ({marks[a]} if a in marks else set())
        if set(q.classifiers) != exp or q.classifiers is p.classifiers or set(p.classifiers) != cls_before:
            chk.fail('rotator-classifiers', f"rotator({a}): classifiers {sorted(q.classifiers)}, expected {sorted(exp)} as a new set", data)
            return


switched = []


plugged = []


def _switch_on():
    """put the global auto-rotation switch back to its default (and take plug-in processors of a script away again)"""
    from pyroll.core import Config, RollPass as _RP
    while plugged:
        f = plugged.pop()
        if f in _RP.pre_processors:
            _RP.pre_processors.remove(f)
    if switched:
        try:
            del Config.ROLL_PASS_AUTO_ROTATION
        except AttributeError:
            pass
        switched.clear()


def edit_histories(chk, rng):
    try:
        return _edit_histories(chk, rng)
    finally:
        _switch_on()


def _edit_histories(chk, rng):
    """histories on ONE sequence object: solve, change a rotation setting or the units in front of a pass, solve again.  After every solve
    the profile entering each pass must be the profile leaving the previous pass turned exactly once, by the angle the current arrangement
    calls for (geometry only: shapely.affinity.rotate of the predecessor's section)"""
    from pyroll.core import Profile, RollPass, Rotator, Transport, BaseRollPass
    from shapely.affinity import rotate

    def fresh():
        seq, objs = build([('pass', 'unset'), ('transport',), ('pass', 'unset'), ('transport',), ('pass', 'unset')], solvable=True)
        return seq

    def expected_angle(seq, b):
        units = list(seq.units)
        i = units.index(b)
        explicit = None
        for u in reversed(units[:i]):
            if isinstance(u, BaseRollPass):
                break
            if isinstance(u, Rotator):
                explicit = float(u.rotation)
                break
        setting = b.__dict__.get('rotation', 'unset')
        if isinstance(setting, np.bool_):       # True and False are switches however they are spelled (a plugin's np.any(...) gives a numpy bool)
            setting = bool(setting)
        if setting != 'unset' and setting is not True:
            own = 0.0 if setting is False else float(setting)
        else:
            own = None                  # automatic: 90 degrees between the round/oval passes used here, unless a rotator is already there
        if own is not None:
            return (explicit or 0.0) + own if setting is not True or explicit is None else (explicit or 0.0)
        return explicit if explicit is not None else 90.0

    def verify(seq, what, data):
        passes = [u for u in seq.units if isinstance(u, BaseRollPass)]
        for a, b in zip(passes, passes[1:]):
            want = expected_angle(seq, b)
            P, Q = a.out_profile.cross_section, b.in_profile.cross_section
            chk.cov['evaluations'] += 1
            best = min((rotate(P, ang, origin=(0, 0)).symmetric_difference(Q).area, ang) for ang in (0.0, 45.0, 60.0, 90.0, 120.0, 135.0, 150.0, 180.0))
            if rotate(P, want, origin=(0, 0)).symmetric_difference(Q).area > 1e-9 * P.area:
                chk.fail('turn-history', f"{what}: the profile entering {b.label!r} is the one leaving {a.label!r} turned by {best[1]:g} degrees, the arrangement "
                         f"calls for exactly one turn by {want:g} degrees", data)
                return False
        return True
    ip = Profile.round(diameter=30e-3, temperature=1473.15, material=["C45", "steel"], length=1)
    scripts = [
        [('set', 2, 60), ('set', 2, True)], [('set', 2, 60), ('del', 2)], [('set', 2, 45), ('set', 2, 90), ('del', 2)],
        [('insert-rotator', 2, 90)], [('insert-rotator', 2, 90), ('drop', 2)], [('prepend-transport',), ('insert-rotator', 3, 90)],
        [('prepend-transport',)], [('drop', 1), ('insert-rotator', 1, 90)], [('read-rotation',), ('insert-rotator', 2, 90)],
        [('insert-rotator', 4, 90), ('set', 2, 90), ('del', 2)],
        # a turn by one degree is a turn by one degree, however the number is spelled (round -> oval tolerates any angle)
        [('set', 4, 1)], [('set', 4, 1.0), ('set', 4, True)], [('set', 4, np.float64(1.0))], [('set', 4, np.int64(1)), ('del', 4)],
        [('set', 2, np.True_)], [('set', 4, np.False_), ('set', 4, np.True_)],
        # the unit list edited through every list operation: units that stay listed must keep seeing their neighbours
        [('insert-rotator', 2, 90), ('slice-keep-no-transports',)], [('insert-rotator', 4, 90), ('slice-window', 3, 6)],
        [('slice-keep-no-transports',), ('insert-rotator', 1, 90), ('slice-reassign-all',)], [('insert-rotator', 2, 90), ('setitem-same', 3)],
        [('insert-rotator', 2, 90), ('iadd-transport',), ('slice-reassign-all',)], [('extend-rotator-pass',), ('slice-window', 4, 7)],
        [('insert-rotator', 2, 90), ('pop-insert', 1)], [('insert-rotator', 4, 90), ('del-slice', 1, 2), ('slice-reassign-all',)],
        # the global switch concerns the AUTOMATIC rotation only: with the switch off, a number set on a pass is applied, and explicit rotators turn
        [('insert-rotator', 2, 90), ('auto-off',), ('set', 5, 30)], [('insert-rotator', 2, 90), ('auto-off',), ('set', 5, 1.0)],
        [('insert-rotator', 2, 90), ('set', 5, 45), ('auto-off',), ('read-rotation',), ('set', 5, 60)],
        # a plug-in's own pre-processor on the pass class (a unit that hands the profile on unchanged): the entry rotation still happens, once
        [('plugin-preprocessor',), ('insert-rotator', 2, 90)], [('plugin-preprocessor',), ('set', 4, 30)],
        # an edit that keeps the number of units: a transport replaced by a rotator, and a rotator replaced by a transport
        [('replace-with-rotator', 1, 90)], [('insert-rotator', 2, 90), ('replace-with-transport', 2)], [('replace-with-rotator', 3, 90), ('replace-with-transport', 3)],
        # units wrapped into an inner sequence (a "line") and the whole flattened again: the arrangement is the same as before
        [('insert-rotator', 2, 90), ('nest-flatten', 1, 4)], [('nest-flatten', 0, 2), ('insert-rotator', 2, 90)], [('insert-rotator', 4, 90), ('nest-flatten', 3, 6)],
    ]
    with RollPass.Profile.flow_stress(flow_stress):
        for script in scripts:
            _switch_on()
            seq = fresh()
            done = []
            try:
                seq.solve(ip)
            except Exception as e:      # noqa
                chk.notes.append(f"edit history: initial solve failed ({type(e).__name__})")
                continue
            if not verify(seq, "after the first solve", {'script': []}):
                return
            for op in script:
                done.append(op)
                if op[0] == 'set':
                    seq[op[1]].rotation = op[2]
                elif op[0] == 'del':
                    if 'rotation' in seq[op[1]].__dict__:
                        del seq[op[1]].rotation
                elif op[0] == 'insert-rotator':
                    seq.subunits.insert(op[1], Rotator(label=f"explicit{len(done)}", rotation=op[2]))
                elif op[0] == 'drop':
                    seq.drop(op[1])
                elif op[0] == 'prepend-transport':
                    seq.subunits.insert(0, Transport(label=f"lead{len(done)}", duration=1, velocity=1.0))
                elif op[0] == 'slice-keep-no-transports':
                    seq.subunits[:] = [u for u in seq.subunits if not isinstance(u, Transport)]
                elif op[0] == 'slice-window':         # a window of the list replaced by the same units (kept units are adopted and released at once)
                    seq.subunits[op[1]:op[2]] = list(seq.subunits[op[1]:op[2]])
                elif op[0] == 'slice-reassign-all':
                    seq.subunits[:] = list(seq.subunits)
                elif op[0] == 'setitem-same':
                    seq.subunits[op[1]] = seq.subunits[op[1]]
                elif op[0] == 'iadd-transport':
                    lst = seq.subunits         # (the attribute has no setter: augmented assignment on the list object itself)
                    lst += [Transport(label=f"tail{len(done)}", duration=1)]
                elif op[0] == 'extend-rotator-pass':
                    import copy as _copy
                    last = _copy.deepcopy(seq.subunits[0])
                    last.label = f"again{len(done)}"
                    seq.subunits.extend([Transport(label=f"t{len(done)}", duration=1), Rotator(label=f"explicit{len(done)}", rotation=90), last])
                elif op[0] == 'pop-insert':           # a unit taken out and put back at the same place
                    u = seq.subunits.pop(op[1])
                    seq.subunits.insert(op[1], u)
                elif op[0] == 'del-slice':
                    del seq.subunits[op[1]:op[2]]
                elif op[0] == 'replace-with-rotator':
                    seq.subunits[op[1]] = Rotator(label=f"explicit{len(done)}", rotation=op[2])
                elif op[0] == 'replace-with-transport':
                    seq.subunits[op[1]] = Transport(label=f"swapped{len(done)}", duration=1)
                elif op[0] == 'plugin-preprocessor':
                    from pyroll.core import Unit as _Unit
                    from pyroll.core.profile import Profile as _BP

                    class PassThrough(_Unit):
                        def solve(self, in_profile):
                            return _BP(**{k_: v_ for k_, v_ in in_profile.__dict__.items() if not k_.startswith("_")})
                    fac = lambda unit: PassThrough(label="plugin stage")      # noqa
                    RollPass.pre_processors.append(fac)
                    plugged.append(fac)
                elif op[0] == 'auto-off':
                    from pyroll.core import Config as _Cfg
                    _Cfg.ROLL_PASS_AUTO_ROTATION = False
                    switched.append(1)
                    continue        # the next edit follows without a solve in between
                elif op[0] == 'nest-flatten':
                    from pyroll.core import PassSequence as _PS
                    moved = list(seq.subunits[op[1]:op[2]])
                    del seq.subunits[op[1]:op[2]]
                    seq.subunits.insert(op[1], _PS(moved, label=f"line{len(done)}"))
                    seq.flatten()
                elif op[0] == 'read-rotation':
                    [getattr(u, 'rotation') for u in seq.units if isinstance(u, BaseRollPass)]
                    continue        # only looked at: the next edit follows without a solve in between
                data = {'history': ['solve'] + [list(map(str, o)) for o in done] + ['solve']}
                try:
                    seq.solve(ip)
                except Exception as e:      # noqa
                    # does a fresh sequence of the same arrangement solve?
                    chk.fail('turn-history', f"after {done} the sequence no longer solves ({type(e).__name__}: {str(e)[:80]}); the first solve of this object succeeded", data)
                    return
                if not verify(seq, f"after solve, {', '.join(' '.join(map(str, o)) for o in done)}, solve", data):
                    return


def run(chk):
    _ta.generate(chk)
    chk.coq.add_prop_file('C14.v')
    chk.coq.compile('C14.v', is_props=True, timeout=600)
    rng = random.Random(chk.seed * 1409 + 14)
    maxlen = 4 if not chk.thorough else 5
    cases = []
    for k in range(1, maxlen + 1):
        for combo in itertools.product(KINDS, repeat=k):
            if any(u[0] == 'pass' for u in combo):
                for auto in (True, False):
                    cases.append((list(combo), auto))
    n_exh = len(cases)
    for _ in range(300 if not chk.thorough else 3000):
        cases.append(([rng.choice(KINDS) for _ in range(rng.randint(5, 12))], rng.random() < 0.7))
    rendered, bad_oracle = [], 0
    for units, auto in cases:
        obs = observe(units, auto)
        chk.cov['evaluations'] += 1
        rendered.append(f"({'true' if auto else 'false'}, [{'; '.join(cunit(u) for u in units)}], [{'; '.join(crot(v) for v in obs)}])")
        pi = [i for i, u in enumerate(units) if u[0] == 'pass']
        for j, i in enumerate(pi):
            exp = spec_rotation(units, i, auto)
            got = obs[j]
            if not (type(got) is type(exp) and got == exp) and not (not isinstance(exp, bool) and not isinstance(got, bool) and got == exp):
                if not chk.failures:
                    chk.fail('rotation', f"pass {i} of {units} (auto={auto}) has rotation {got!r}, expected {exp!r}", {'units': units, 'auto': auto})
    # the decision does not depend on the stated angle of the explicit rotator in front (a rotator stated as 0 is a rotator), nor on the kind of pass
    from pyroll.core import ThreeRollPass, RollPass as _TwoRollPass
    P0, T0 = ('pass', 'unset'), ('transport',)
    for cls in (_TwoRollPass, ThreeRollPass):
        _PASSCLS[0] = cls
        try:
            for a in (0, 0.0, 90, 180, -90, 360, 1e-9):
                for units in ([P0, ('rotator', a), P0], [P0, ('rotator', a), T0, P0], [('rotator', a), P0], [P0, T0, ('rotator', a), ('other',), P0, P0],
                              [P0, ('rotator', a), ('pass', 30), T0, P0]):
                    for auto in (True, False):
                        obs = observe(units, auto)
                        chk.cov['evaluations'] += 1
                        pi = [i for i, u in enumerate(units) if u[0] == 'pass']
                        for j, i in enumerate(pi):
                            exp, got = spec_rotation(units, i, auto), obs[j]
                            if not (type(got) is type(exp) and got == exp) and not (not isinstance(exp, bool) and not isinstance(got, bool) and got == exp):
                                if not chk.failures:
                                    chk.fail('rotation', f"{cls.__name__} at position {i} of {units} (auto={auto}) has rotation {got!r}, expected {exp!r}",
                                             {'units': units, 'auto': auto, 'pass_class': cls.__name__})
        finally:
            _PASSCLS[0] = None
    # the decision follows the arrangement the pass is in NOW: a pass taken over into a second sequence while the first is still alive
    from pyroll.core import PassSequence as _Seq, Rotator as _Rot, BaseRollPass as _BRP
    for auto in (True, False):
        seq_a, objs_a = build([P0, ('rotator', 90), P0])
        moved = objs_a[2]
        first_pass = build([P0])[1][0]
        seq_b = _Seq([first_pass, moved])
        units_b = [P0, P0]
        try:
            if not auto:
                from pyroll.core import Config as _Cfg
                _Cfg.ROLL_PASS_AUTO_ROTATION = False
            got, exp = moved.rotation, spec_rotation(units_b, 1, auto)
        finally:
            if not auto:
                del _Cfg.ROLL_PASS_AUTO_ROTATION
        chk.cov['evaluations'] += 1
        if got != exp and not chk.failures:
            chk.fail('rotation', f"a pass behind a rotator in one sequence is put behind a pass in a second sequence (the first still exists, auto={auto}): its rotation is "
                     f"{got!r}, the arrangement it is in now calls for {exp!r}", {'units': units_b, 'auto': auto, 'case': 'taken over into a second sequence'})
        del seq_a, seq_b
    # the package's own decision rules registered once more for the duration of a with block: afterwards the decisions are what they were
    from pyroll.core.roll_pass.hookimpls.base_roll_pass import detect_already_rotated as _dar
    probe = [P0, ('rotator', 90), T0, P0, P0]
    before = observe(probe, True)
    with _BRP.rotation(_dar):
        inside = observe(probe, True)
    after = observe(probe, True)
    chk.cov['evaluations'] += 3
    if not (before == inside == after) and not chk.failures:
        chk.fail('rotation', f"{probe}: rotations {before}; with the package's own rule registered once more by `with BaseRollPass.rotation(detect_already_rotated):` "
                 f"{inside}; after the block {after}", {'units': probe, 'auto': True, 'case': 'rule registered a second time'})
    chk.cov['distinct_nontrivial'] += len({json.dumps(c, default=str) for c in cases})
    chk.cov['exhaustive_upto_length'] = maxlen
    chk.cov['exhaustive'] = False
    chk.sample({'units': cases[n_exh][0], 'auto': cases[n_exh][1]})
    import concurrent.futures as cf
    files, shard = [], 2500
    for s in range(0, len(rendered), shard):
        name = f"rcases_{s // shard}.v"
        chk.coq.add_text(name, "From PyrollLib Require Import Rotation.\nDefinition cases : list (bool * list unit * list rot) := [\n" +
                         ";\n".join(rendered[s:s + shard]) + "].\nEval vm_compute in (rmismatches cases 0).\n")
        files.append((name, s))
    with cf.ThreadPoolExecutor(8) as ex:
        res = list(ex.map(lambda f: chk.coq.compile(f[0], timeout=600), files))
    bad = []
    for (name, s), r in zip(files, res):
        if not r['ok']:
            chk.unshown_add("correspondence:" + name, r['err'][-500:])
            continue
        m = re.search(r'=\s*\[(.*?)\]\s*:\s*list nat', r['out'], re.S)
        bad += [s + int(x) for x in re.findall(r'\d+', m.group(1))] if m else []
        if not m:
            chk.unshown_add("correspondence:" + name, "unreadable")
    chk.x_stats['correspondence'] = {'arrangements': len(cases), 'exhaustive_arrangements_upto_len': maxlen, 'exhaustive_count': n_exh,
                                     'disagreements': len(bad)}
    for i in bad[:3]:
        chk.unshown_add(f"correspondence:case{i}", f"model and implementation disagree on {cases[i]}")
    if bad and not chk.failures:
        chk.fail('deviation', "roll_pass.rotation deviates from the verified decision model", {'units': cases[bad[0]][0], 'auto': cases[bad[0]][1]})
    # solved sequences: count the turns actually made between consecutive passes
    P, T, R = ('pass', 'unset'), ('transport',), ('rotator', 90)
    solved = [([P, T, P, T, P], True), ([P, T, R, T, P], True), ([P, R, P, P], True), ([P, T, P], False), ([P, ('pass', False), P], True),
              ([P, ('pass', 45)], True), ([R, P, ('other',), P], True),
              # the global switch concerns the AUTOMATIC rotation only: a number set on a pass is applied with the switch off, too
              ([P, ('pass', 45)], False), ([P, T, ('pass', 60)], False), ([P, R, P], False)]
    if chk.thorough:
        solved += [([P, T, R, P, R, T, P], True), ([P, P, P, P], True), ([P, ('pass', True), ('pass', 0)], False)]
    for units, auto in solved:
        try:
            turns, passes = solved_turns(chk, units, auto)
        except Exception as e:
            chk.notes.append(f"solve of {units} failed: {type(e).__name__}: {e}")
            continue
        chk.cov['evaluations'] += 1
        pi = [i for i, u in enumerate(units) if u[0] == 'pass']
        for k, (i, j) in enumerate(zip(pi, pi[1:])):
            between = units[i + 1:j]
            explicit = [u[1] for u in between if u[0] == 'rotator']
            sj = units[j][1]
            if sj == 'unset' and auto and len(explicit) <= 1:
                if len(turns[k]) != 1:
                    chk.fail('turns', f"between pass {i} and {j} of {units} the workpiece is turned {len(turns[k])} times ({turns[k]})",
                             {'units': units, 'auto': auto})
            elif sj == 'unset' and not auto:
                if len(turns[k]) != len(explicit):
                    chk.fail('turns-off', f"auto rotation off: {len(turns[k])} turns between pass {i} and {j} of {units}, {len(explicit)} explicit rotators",
                             {'units': units, 'auto': auto})
            elif sj is False or sj == 0:
                if len(turns[k]) != len(explicit):
                    chk.fail('turns-explicit', f"rotation={sj!r}: {turns[k]} between pass {i} and {j} of {units}", {'units': units, 'auto': auto})
            elif isinstance(sj, (int, float)) and not isinstance(sj, bool):
                if sorted(turns[k]) != sorted(explicit + [float(sj)]):
                    chk.fail('turns-angle', f"rotation={sj}: turns {turns[k]} between pass {i} and {j} of {units}", {'units': units, 'auto': auto})
    rotator_geometry_oracle(chk, rng, 40 if not chk.thorough else 400)
    if not chk.failures:
        edit_histories(chk, rng)
    chk.cov['rule'] = (f"every arrangement of 1..{maxlen} units over 8 unit kinds (pass unset/True/False/0/45, transport, rotator, cooling pipe) "
                       "containing a pass, for both values of the global switch, plus random arrangements of 5-12 units: "
                       "roll_pass.rotation of every pass on the real unsolved sequence; solved sequences: number and angles of the "
                       "turns between consecutive passes; rotator outputs vs the closed rotation formula")
    chk.trusted += ["correspondence harness tools/props/c14.py", "shapely.affinity.rotate is sampled against the closed formula (not verified)"]
    chk.assumptions += ["nested sequences between two passes are outside the property's quantifier and not modelled"]


def replay(data):
    print(json.dumps(data, indent=1)[:2000])
    inp = data.get('input') or {}
    if 'units' in inp:
        units = [tuple(u) for u in inp['units']]
        print("roll_pass.rotation now:", observe(units, inp.get('auto', True)))
    return 1
