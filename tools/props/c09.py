"""C09 - pass opening: symmetric contours, exact gap, interchangeable gap/height/ICD."""
import json
import math
import random

import numpy as np

import grooves_catalogue as GC
from props import _ta
from py2coq import contours_tk
from py2coq.ir import Untranslatable


def rot(P, deg):
    t = math.radians(deg)
    return np.column_stack([P[:, 0] * math.cos(t) - P[:, 1] * math.sin(t), P[:, 0] * math.sin(t) + P[:, 1] * math.cos(t)])


def same_curve(A, B, tol):
    """same polyline up to direction"""
    return A.shape == B.shape and (np.abs(A - B).max() <= tol or np.abs(A - B[::-1]).max() <= tol)


_TEMPLATE_MODE = [0]


def mkroll(g):
    """the roll a pass is built from: a brand-new one, or (every other call) a template that was looked at while it carried another groove and was
    re-grooved afterwards - a fresh pass built from it must describe the groove it has NOW"""
    from pyroll.core import Roll, RoundGroove
    _TEMPLATE_MODE[0] += 1
    if _TEMPLATE_MODE[0] % 2:
        return Roll(groove=g, nominal_radius=0.2)
    pad = np.rad2deg(getattr(g, 'pad_angle', 0) or 0)
    size = max(g.usable_width, g.depth, 1e-6)
    before = RoundGroove(r1=0.05 * size, r2=0.7 * size, depth=0.45 * size, pad_angle=float(pad))
    roll = Roll(groove=before, nominal_radius=0.2)
    roll.contour_line, roll.min_radius, roll.contour_points      # read (and memoised) with the earlier groove
    roll.groove = g
    return roll


def two_roll_cases(chk, rng):
    from pyroll.core import RollPass, Roll
    for name, kw in GC.CATALOGUE:
        if kw.get('pad_angle', 0) != 0 or name == 'EquivalentRibbedGroove':
            continue
        g = GC.build(name, kw, 1e-3)
        for gap in [0.0, 1e-3, rng.uniform(1e-4, 2e-2)]:
            chk.cov['evaluations'] += 1
            data = {'groove': name, 'kwargs': kw, 'gap': gap, 'rolls': 2}
            rp = RollPass(label="p", roll=mkroll(g), gap=gap)
            up, lo = [np.array(c.coords) for c in rp.contour_lines.geoms]
            scale = g.width
            if not same_curve(rot(up, 180), lo, 1e-12 * scale) or not same_curve(rot(lo, 180), up, 1e-12 * scale):
                return chk.fail('two-halfturn', f"{name}: lower contour is not the upper one turned by 180 degrees", data)
            face_up = up[np.isclose(up[:, 1], up[:, 1].min(), atol=1e-12 * scale)] if True else None
            # the faces: points of the roll contour with y == 0
            base = np.array(g.contour_points)
            fmask = np.abs(base[:, 1]) <= 1e-15
            if len(up) != len(base) or len(lo) != len(base):
                return chk.fail('two-contour', f"{name}: the contour lines of the pass have {len(up)} / {len(lo)} vertices, the contour of its groove has {len(base)}: "
                                f"the pass does not draw the groove it has", data)
            if fmask.any():
                if np.abs(up[fmask][:, 1] - gap / 2).max() > 1e-12 * scale or np.abs(lo[::-1][fmask][:, 1] + gap / 2).max() > 1e-12 * scale:
                    return chk.fail('two-gap', f"{name}: faces are not separated by exactly the gap {gap}", data)
            try:
                h = rp.height
            except Exception as e:      # noqa
                return chk.fail('two-height', f"{name}: two-roll pass with gap {gap!r}: reading the height raises {type(e).__name__}: {str(e)[:100]}", data)
            if abs(h - (gap + 2 * g.depth)) > 1e-12 * scale:
                return chk.fail('two-height', f"{name}: height {h} != gap + 2*depth = {gap + 2 * g.depth}", data)
            if abs(up[:, 1].max() - lo[:, 1].min() - h) > 1e-9 * scale and 'indent' not in kw:
                return chk.fail('two-height-contour', f"{name}: extent of the opening {up[:, 1].max() - lo[:, 1].min()} != height {h}", data)
            rp2 = RollPass(label="p", roll=mkroll(g), height=h)
            if abs(rp2.gap - gap) > 1e-12 * scale:
                return chk.fail('two-roundtrip', f"{name}: height {h} fed back gives gap {rp2.gap}, original {gap}", data)
            # histories: a pass defined by its height whose height is assigned again (before anything was read, and after everything was read
            # and the cache re-evaluated): gap, contours and usable cross-section follow the new height
            for read_first in (False, True):
                rpe = RollPass(label="p", roll=mkroll(g), height=h)
                if read_first:
                    rpe.gap, rpe.height, rpe.contour_lines
                h2 = h + 0.25 * (gap + 1e-3)
                rpe.height = h2
                if read_first:
                    rpe.reevaluate_cache()
                upe = np.array(rpe.contour_lines.geoms[0].coords)
                if len(upe) != len(base):
                    return chk.fail('two-contour', f"{name}: pass whose height was assigned again: its contour lines have {len(upe)} vertices, the groove's contour {len(base)}", data)
                want_gap = h2 - 2 * g.depth
                if abs(float(rpe.gap) - want_gap) > 1e-12 * scale or (fmask.any() and np.abs(upe[fmask][:, 1] - want_gap / 2).max() > 1e-12 * scale):
                    return chk.fail('two-edit', f"{name}: pass built with height={h}, {'all members read, ' if read_first else ''}height assigned {h2}"
                                    f"{' and the cache re-evaluated' if read_first else ''}: gap = {float(rpe.gap)}, the new height calls for {want_gap}; faces at "
                                    f"{float(upe[fmask][:, 1].max()) if fmask.any() else float('nan')}", dict(data, history='height assigned again', read_first=read_first))
            # a pass constructed without its opening, looked at (representations), and given the opening afterwards
            from common import look_at
            for member, val in (('gap', gap), ('height', h)):
                rpl = RollPass(label="p", roll=mkroll(g))
                look_at(rpl, html=False)
                setattr(rpl, member, val)
                upl = np.array(rpl.contour_lines.geoms[0].coords)
                if len(upl) != len(base):
                    return chk.fail('two-contour', f"{name}: pass looked at before {member} was assigned: its contour lines have {len(upl)} vertices, the groove's contour {len(base)}",
                                    dict(data, history=f'looked at before {member} was assigned'))
                if abs(float(rpl.gap) - gap) > 1e-12 * scale or abs(float(rpl.height) - h) > 1e-12 * scale or (fmask.any() and np.abs(upl[fmask][:, 1] - gap / 2).max() > 1e-12 * scale):
                    return chk.fail('two-observer', f"{name}: pass constructed without an opening, looked at (repr, __attrs__), then {member} = {val} assigned: gap "
                                    f"{float(rpl.gap)}, height {float(rpl.height)}, faces at {float(upl[fmask][:, 1].max()) if fmask.any() else float('nan')}; "
                                    f"expected gap {gap}, height {h}", dict(data, history=f'looked at before {member} was assigned'))
            ucs = rp.usable_cross_section
            b = ucs.bounds
            if abs((b[2] - b[0]) - g.usable_width) > 1e-9 * scale or abs(b[0] + b[2]) > 1e-9 * scale or abs(b[1] + b[3]) > 1e-9 * scale:
                return chk.fail('two-usable', f"{name}: usable cross-section bounds {b} do not span the usable width {g.usable_width} symmetrically", data)


def spline_array_case(chk):
    """a spline groove built from the caller's float array (with and without face padding to strip): editing that array afterwards - for the next groove -
    does not reach into the groove or into a pass that uses it"""
    from pyroll.core import RollPass, Roll, SplineGroove
    for pts in ([(-20.0, 0.0), (-12.0, 10.0), (12.0, 10.0), (20.0, 0.0)], [(-30.0, 0.0), (-20.0, 0.0), (-12.0, 10.0), (12.0, 10.0), (20.0, 0.0), (30.0, 0.0)],
                [(0.0, 0.0), (8.0, 10.0), (32.0, 10.0), (40.0, 0.0)]):
        arr = np.array(pts, dtype=float)
        given = arr.copy()
        g = SplineGroove(arr, classifiers=['generic_elongation'])
        chk.cov['evaluations'] += 1
        if np.any(arr != given):
            return chk.fail('spline-input', f"SplineGroove({pts}) changes the caller's array to {arr.tolist()}", {'points': pts})
        stored = np.array(g.contour_points, dtype=float, copy=True)
        rp = RollPass(label="p", roll=Roll(groove=g, nominal_radius=0.2), gap=2.0)
        arr[:, 1] *= 1.6          # the caller goes on with the array
        arr[:, 0] += 3.0
        up = np.array(rp.contour_lines.geoms[0].coords)
        if np.any(np.asarray(g.contour_points) != stored) or abs(up[:, 1].max() - (1.0 + g.depth)) > 1e-12 * 40 or abs(float(rp.height) - (2.0 + 2 * g.depth)) > 1e-12 * 40:
            return chk.fail('spline-input', f"SplineGroove built from a float array {pts}; after the caller edited the array the groove's contour points changed / the pass "
                            f"opening (highest contour point {up[:, 1].max()}) no longer matches gap / 2 + depth = {1.0 + g.depth}", {'points': pts})
    return True


def asymmetric_spline_case(chk):
    """a groove that is not mirror symmetric: half-turn images and mirror images differ"""
    from pyroll.core import RollPass, Roll, SplineGroove
    g = SplineGroove([(0, 0), (5e-3, 8e-3), (15e-3, 12e-3), (30e-3, 10e-3), (40e-3, 4e-3), (45e-3, 0)], classifiers=['oval'])
    for gap in (1e-3, 4e-3):
        chk.cov['evaluations'] += 1
        rp = RollPass(label="p", roll=mkroll(g), gap=gap)
        up, lo = [np.array(c.coords) for c in rp.contour_lines.geoms]
        data = {'groove': 'asymmetric SplineGroove', 'gap': gap, 'rolls': 2}
        if not same_curve(rot(up, 180), lo, 1e-12 * 45e-3):
            return chk.fail('two-halfturn', "asymmetric spline groove: lower contour is not the upper one turned by 180 degrees", data)
        ucs = rp.usable_cross_section
        A = np.array(ucs.exterior.coords)
        from shapely.geometry import Polygon
        if ucs.symmetric_difference(Polygon(rot(A, 180))).area > 1e-9 * ucs.area:
            return chk.fail('two-usable-halfturn', "asymmetric spline groove: usable cross-section is not invariant under a half turn", data)


def seg_dist_parallel(P, Q):
    """distance between two (nearly parallel) segments given by 2 points each: distance of Q's midpoint to line P"""
    d = P[1] - P[0]
    n = np.array([-d[1], d[0]]) / np.hypot(*d)
    return abs(np.dot(Q.mean(axis=0) - P[0], n)), abs(np.dot((Q[1] - Q[0]) / np.hypot(*(Q[1] - Q[0])), n))


def three_roll_cases(chk, rng):
    from pyroll.core import ThreeRollPass, Roll
    for name, kw in GC.CATALOGUE:
        if kw.get('pad_angle', 0) != 30:
            continue
        g = GC.build(name, kw, 1e-3)
        for gap in [0.0, 1e-3, rng.uniform(1e-4, 1e-2)]:
            chk.cov['evaluations'] += 1
            data = {'groove': name, 'kwargs': kw, 'gap': gap, 'rolls': 3}
            rp = ThreeRollPass(label="p", roll=mkroll(g), gap=gap)
            cs = [np.array(c.coords) for c in rp.contour_lines.geoms]
            scale = g.width
            for i in range(3):
                if not same_curve(rot(cs[i], 120), cs[(i + 1) % 3], 1e-9 * scale) and not same_curve(rot(cs[i], -120), cs[(i + 1) % 3], 1e-9 * scale):
                    return chk.fail('three-120', f"{name}: contour {i} turned by 120 degrees is not contour {(i + 1) % 3}", data)
            # faces of neighbouring rolls: outermost segments of each contour; neighbouring ones are parallel at distance gap
            ends = [(c[:2], c[-2:]) for c in cs]
            found = 0
            for i in range(3):
                for j in range(3):
                    if i == j:
                        continue
                    for A in ends[i]:
                        for B in ends[j]:
                            if np.hypot(*(A.mean(axis=0) - B.mean(axis=0))) < 2 * (gap + 1e-9) + 1e-6 * scale + 0.2 * np.hypot(*(A[1] - A[0])):
                                dist, par = seg_dist_parallel(A, B)
                                if par < 1e-9:
                                    found += 1
                                    if abs(dist - gap) > 1e-9 * scale:
                                        return chk.fail('three-gap', f"{name}: neighbouring faces are {dist} apart, gap is {gap}", data)
            if found < 3:
                chk.notes.append(f"{name} gap {gap}: only {found} neighbouring face pairs identified")
            # the opening is one quantity in three guises: with the gap given (also an exact 0 of any numeric type) the other two are available
            for zero in ((0, np.float64(0), np.int64(0)) if gap == 0.0 else ()):
                rpz = ThreeRollPass(label="p", roll=mkroll(g), gap=zero)
                try:
                    float(rpz.inscribed_circle_diameter), float(rpz.height)
                except Exception as e:      # noqa
                    return chk.fail('three-members', f"{name}: three-roll pass with gap {zero!r} ({type(zero).__name__}): reading the inscribed circle diameter and "
                                    f"the height raises {type(e).__name__}: {str(e)[:100]}", dict(data, gap=0))
            try:
                icd, h = rp.inscribed_circle_diameter, rp.height
            except Exception as e:      # noqa
                return chk.fail('three-members', f"{name}: three-roll pass with gap {gap}: reading the inscribed circle diameter and the height raises "
                                f"{type(e).__name__}: {str(e)[:100]}", data)
            rp2 = ThreeRollPass(label="p", roll=mkroll(g), inscribed_circle_diameter=icd)
            if abs(rp2.gap - gap) > 1e-9 * scale:
                return chk.fail('three-roundtrip-icd', f"{name}: inscribed circle diameter {icd} fed back gives gap {rp2.gap}, original {gap}", data)
            if 'indent' in kw:
                # constricted grooves: the polyline misses the top of the hump by about 2e-5 of the usable width (sampling), so the height is compared
                # with that tolerance - but it IS the opening at the deepest point, not at the centre line
                rp3 = ThreeRollPass(label="p", roll=mkroll(g), height=h)
                if abs(rp3.gap - gap) > 1e-3 * scale or abs(h - icd) > 1e-3 * scale:
                    return chk.fail('three-roundtrip-height', f"{name} (constricted): height {h} (inscribed circle diameter {icd}) fed back gives gap {rp3.gap}, "
                                    f"original {gap}", data)
            if 'indent' not in kw:
                rp3 = ThreeRollPass(label="p", roll=mkroll(g), height=h)
                if abs(rp3.gap - gap) > 1e-9 * scale:
                    key = 'three-height-flat-groove' if name == 'FlatGroove' else 'three-roundtrip-height'
                    if not any(f.key == key for f in chk.failures):
                        chk.fail(key, f"{name}: height {h} fed back gives gap {rp3.gap}, original {gap}", data)
                    if key == 'three-roundtrip-height':
                        return
            # whichever member is given, the other two are available in every read order, with the same values
            if gap > 0 and name != 'FlatGroove' and 'indent' not in kw:
                import itertools
                ref = {'gap': gap, 'height': h, 'inscribed_circle_diameter': icd}
                for given in ref:
                    for order in itertools.permutations(ref):
                        rpo = ThreeRollPass(label="p", roll=mkroll(g), **{given: ref[given]})
                        for k in order:
                            try:
                                v = float(getattr(rpo, k))
                            except Exception as e:      # noqa
                                return chk.fail('three-read-order', f"{name}: three-roll pass defined by {given}: reading {k} (order {' -> '.join(order)}) raises "
                                                f"{type(e).__name__}", dict(data, given=given, order=list(order)))
                            if abs(v - ref[k]) > 1e-9 * scale:
                                return chk.fail('three-read-order', f"{name}: three-roll pass defined by {given}: {k} = {v} when read in the order "
                                                f"{' -> '.join(order)}, {ref[k]} otherwise", dict(data, given=given, order=list(order)))
                # histories: the defining member is edited after the others were read; re-evaluation must follow the new value
                for given in ('inscribed_circle_diameter', 'height', 'gap'):
                    rpe = ThreeRollPass(label="p", roll=mkroll(g), **{given: ref[given]})
                    for k in rng.sample(list(ref), 3):
                        getattr(rpe, k)
                    try:
                        rpe.usable_width, rpe.usable_cross_section
                    except Exception:      # noqa
                        pass
                    new = ref[given] + (1e-3 if given != 'gap' else 5e-4)
                    setattr(rpe, given, new)
                    rpe.reevaluate_cache()
                    fresh = ThreeRollPass(label="p", roll=mkroll(g), **{given: new})
                    for k in ref:
                        a, b = float(getattr(rpe, k)), float(getattr(fresh, k))
                        if abs(a - b) > 1e-9 * scale:
                            return chk.fail('three-edit', f"{name}: three-roll pass defined by {given}, all members read, {given} changed to {new} and the cache "
                                            f"re-evaluated: {k} = {a}, a fresh pass with the new {given} gives {b}", dict(data, given=given))
                    try:
                        ua, ub = rpe.usable_cross_section, fresh.usable_cross_section
                        wa, wb = float(rpe.usable_width), float(fresh.usable_width)
                    except Exception:      # noqa
                        ua = ub = None
                    if ua is not None and (abs(wa - wb) > 1e-9 * scale or ua.symmetric_difference(ub).area > 1e-9 * ub.area):
                        return chk.fail('three-edit', f"{name}: three-roll pass defined by {given}, all members and the usable cross-section read, {given} changed to {new} and "
                                        f"the cache re-evaluated: usable width {wa} / area {ua.area}, a fresh pass with the new {given} gives {wb} / {ub.area}", dict(data, given=given))
                    ca = [np.array(c.coords) for c in rpe.contour_lines.geoms]
                    cb = [np.array(c.coords) for c in fresh.contour_lines.geoms]
                    if any(not same_curve(x, y, 1e-9 * scale) for x, y in zip(ca, cb)):
                        return chk.fail('three-edit', f"{name}: after changing {given} and re-evaluating, the contour lines are still those of the old opening", dict(data, given=given))
            import warnings
            try:
                with warnings.catch_warnings():
                    warnings.simplefilter('ignore')
                    ucs = rp.usable_cross_section
            except Exception as e:
                key = 'three-roll-gap-zero' if gap == 0.0 else 'three-usable-error'
                if not any(f.key == key for f in chk.failures):
                    chk.fail(key, f"{name}: usable cross-section of a three-roll pass with gap {gap} raises {type(e).__name__}", data)
                continue
            A = np.array(ucs.exterior.coords)
            if abs(ucs.area - rot_area(A, 120)) > 1e-9 * ucs.area or not ucs.buffer(1e-9 * scale).contains(type(ucs)(rot(A, 120))):
                return chk.fail('three-usable-symmetry', f"{name}: usable cross-section is not invariant under a 120 degree turn", data)


def solved_then_edited(chk):
    """histories through the solver: a pass defined by one member of the opening is solved, the member is changed, the pass is solved again - gap, height,
    inscribed circle diameter and contours are those of a fresh pass given the new value (a solve must not turn a derived member into a given one)"""
    from pyroll.core import ThreeRollPass, RollPass, Roll, Profile, CircularOvalGroove
    for cls, members, pad, d in ((ThreeRollPass, ('inscribed_circle_diameter', 'height', 'gap'), {'pad_angle': 30}, 55e-3), (RollPass, ('height', 'gap'), {}, 30e-3)):
        mk = lambda **kw: cls(label="p", roll=Roll(groove=CircularOvalGroove(depth=8e-3, r1=6e-3, r2=40e-3, **pad), nominal_radius=160e-3, rotational_frequency=1), **kw)   # noqa
        ip = Profile.round(diameter=d, temperature=1473.15, strain=0, material=["C45", "steel"], flow_stress=100e6, length=1)
        proto = mk(gap=3e-3)
        for given in members:
            v1 = float(getattr(proto, given))
            v2 = v1 - 1e-3
            rp = mk(**{given: v1})
            data = {'rolls': 3 if cls is ThreeRollPass else 2, 'given': given, 'history': 'solve, edit, solve'}
            chk.cov['evaluations'] += 1
            try:
                rp.solve(ip)
                setattr(rp, given, v2)
                rp.solve(ip)
            except Exception as e:      # noqa
                chk.notes.append(f"solved_then_edited {cls.__name__} {given}: {type(e).__name__}")
                continue
            fresh = mk(**{given: v2})
            for k in members:
                a, b = float(getattr(rp, k)), float(getattr(fresh, k))
                if abs(a - b) > 1e-9 * max(abs(b), 1e-3):
                    return chk.fail('solve-edit', f"{cls.__name__} defined by {given} = {v1}, solved, {given} changed to {v2}, solved again: {k} = {a}, a fresh pass given "
                                    f"the new {given} has {b}", data)
            ca = [np.array(c.coords) for c in rp.contour_lines.geoms]
            cb = [np.array(c.coords) for c in fresh.contour_lines.geoms]
            if len(ca) != len(cb) or any(x.shape != y.shape or np.max(np.abs(x - y)) > 1e-12 for x, y in zip(ca, cb)):
                return chk.fail('solve-edit', f"{cls.__name__} defined by {given}, solved, {given} changed, solved again: the contour lines are not those of a fresh pass "
                                f"given the new {given}", data)


def short_lived_passes(chk):
    """passes that are built, read and dropped one after another (the addresses of their contour objects are re-used): what a pass reports for its opening is
    its own - grooves of equal usable width and different depth, alternately, compared with two passes that are kept alive"""
    import gc
    from pyroll.core import RollPass, ThreeRollPass, Roll, BoxGroove
    for cls, pad in ((RollPass, {}), (ThreeRollPass, {'pad_angle': 30})):
        grooves = [BoxGroove(usable_width=40e-3, depth=d, r1=2e-3, r2=3e-3, flank_angle=70, **pad) for d in (8e-3, 12e-3)]
        mk = lambda g: cls(label="p", roll=Roll(groove=g, nominal_radius=160e-3), gap=2e-3, target_width=36e-3)      # noqa
        keep = [mk(g) for g in grooves]
        ref = [(float(p.usable_cross_section.area), float(p.target_cross_section_area)) for p in keep]
        if abs(ref[0][0] - ref[1][0]) < 1e-9:
            continue
        for i in range(60):
            p = mk(grooves[i % 2])
            got = (float(p.usable_cross_section.area), float(p.target_cross_section_area))
            del p
            gc.collect()
            chk.cov['evaluations'] += 1
            if any(abs(a - b) > 1e-9 * abs(b) for a, b in zip(got, ref[i % 2])):
                return chk.fail('usable-stale', f"{cls.__name__} objects built, read and dropped one after another over two box grooves of equal usable width (depths 8 and 12 mm, target width "
                                f"36 mm): number {i} (depth {8 if i % 2 == 0 else 12} mm) reports usable / target cross-section areas {got}, a pass of the same description that "
                                f"is kept alive reports {ref[i % 2]}", {'case': 'short-lived passes', 'rolls': 2 if cls is RollPass else 3, 'i': i})


def rot_area(A, deg):
    from shapely.geometry import Polygon
    return Polygon(rot(A, deg)).area


def run(chk):
    _ta.generate(chk)
    try:
        txt, info = contours_tk.generate()
        chk.x_stats['translator_TK'] = info
    except Untranslatable as e:
        chk.unshown_add('translator T-K', f"contour_lines left the recognised fragment: {e}")
        txt = ("From PyrollLib Require Import Expr PassGeo.\nDefinition two_roll_contours : list (list gop) := [].\n"
               "Definition three_roll_contours : list (list gop) := [].\n")
    chk.coq.add_text('Gen_contours.v', txt)
    chk.coq.compile('Gen_contours.v')
    for f in ('C09_proofs.v', 'C09.v'):
        chk.coq.add_prop_file(f)
    chk.coq.compile('C09_proofs.v', timeout=600)
    chk.coq.compile('C09.v', is_props=True, timeout=600)
    rng = random.Random(chk.seed + 900)
    for rep in range(1 if not chk.thorough else 6):
        two_roll_cases(chk, rng)
        asymmetric_spline_case(chk)
    if not [f for f in chk.failures if not f.key.startswith('three-')]:
        spline_array_case(chk)
        three_roll_cases(chk, rng)
    if not [f for f in chk.failures if f.key not in ('three-roll-gap-zero', 'three-height-flat-groove')]:
        solved_then_edited(chk)
    if not [f for f in chk.failures if f.key not in ('three-roll-gap-zero', 'three-height-flat-groove')]:
        short_lived_passes(chk)
    chk.cov['distinct_nontrivial'] += chk.cov['evaluations']
    chk.sample({'groove': GC.CATALOGUE[0][0], 'kwargs': GC.CATALOGUE[0][1], 'gap': 0.001, 'rolls': 2})
    chk.cov['rule'] = ("every catalogue groove with pad angle 0 in a two-roll pass and with pad angle 30 in a three-roll pass, gaps 0, 1 mm and a "
                       "random one: contour images under 180 / 120 degree turns, face separation, height = gap + 2 depth, gap <-> height <-> "
                       "inscribed circle diameter round trips through fresh passes, span and symmetry of the usable cross-section")
    chk.trusted += ["translator T-K (tools/py2coq/contours_tk.py): contour_lines -> affine operation sequences", "shapely affine operations are sampled, not verified"]
    chk.assumptions += ["face separation of three-roll passes (parallel faces at distance gap) and the usable span are checked on the implementation only (partial)"]


def replay(data):
    print(json.dumps(data, indent=1, default=str)[:2000])
    return 1
