"""C02 - hook value lifecycle: explicit value, then remembered value, then computation."""
import json
import random

from xcheck import hookx as X


def gen_prog(rng, h, nhooks, nobj, depth=0):
    """bodies read only hooks with a larger index (acyclic), on self or another object"""
    r = rng.random()
    if h + 1 >= nhooks or depth > 2 or r < 0.35:
        return ('const', ('none',) if rng.random() < 0.2 else ('int', rng.randint(1, 60)))
    tgt = 'self' if rng.random() < 0.7 or nobj == 0 else rng.randrange(nobj)
    h2 = rng.randint(h + 1, nhooks - 1)
    if r < 0.6:
        return ('add', ('read', tgt, h2), ('const', ('int', rng.randint(1, 9))))
    if r < 0.75:
        return ('read', tgt, h2)
    if r < 0.9:
        kind = rng.choice(['HasSet', 'HasCached', 'HasSetOrCached', 'HasValue'])
        return ('ifhas', kind, tgt, h2, ('read', tgt, h2), gen_prog(rng, h, nhooks, nobj, depth + 1))
    return ('try', ('read', tgt, h2), ('const', ('int', rng.randint(1, 9))))


def gen_case(rng, thorough):
    nhooks = rng.randint(2, 4)
    hier = rng.choice([[([], [])], [([], []), ([0], [])], [([], []), ([0], []), ([1], [])], [([], []), ([0], []), ([0], [])]])
    ncls = len(hier)
    nobj = rng.randint(1, 3)
    ops = [('newobj', o, rng.randrange(ncls)) for o in range(nobj)]
    next_id, live = 0, []
    def new_impl(h):
        # plain implementations and (a quarter) cycle-guarded wrappers - typically a plug-in's wrapper on a base class around implementations of subclasses
        if rng.random() < 0.25:
            return dict(owner=rng.randrange(ncls), hook=h, tier=rng.choice([0, 1, 1, 2]), wrapper=True, guarded=True,
                        post=rng.choice([('add', 100), ('add', 1000), ('id',)]), prog=None)
        return dict(owner=rng.randrange(ncls), hook=h, tier=rng.choice([0, 1, 1, 2]), wrapper=False, guarded=False, post=None,
                    prog=gen_prog(rng, h, nhooks, nobj))
    for _ in range(rng.randint(1, 4)):
        h = rng.randrange(nhooks)
        im = new_impl(h)
        ops.append(('register', next_id, im)); live.append(next_id); next_id += 1
    copies = 0
    for _ in range(rng.randint(5, 30 if not thorough else 70)):
        o, h = rng.randrange(nobj + copies), rng.randrange(nhooks)
        r = rng.random()
        if r < 0.04 and copies < 2:
            # a further instance obtained by copy.copy: explicit and remembered values are taken over, from then on it is an instance of its own
            ops.append(('copyobj', nobj + copies, o))
            copies += 1
        elif r < 0.34:
            ops.append(('read', o, h))
        elif r < 0.50:
            v = rng.choice([('int', 0), ('bool', False), ('int', 5), ('int', rng.randint(1, 99)), ('none',),
                            ('fn0', ('int', 11)), ('fn1', ('int', 12)), ('fn0', ('none',)), ('opq', 3), ('list', [])])
            ops.append(('assign', o, h, v))
        elif r < 0.58:
            ops.append(('delete', o, h))
        elif r < 0.66:
            ops.append(('reeval', o))
        elif r < 0.70:
            ops.append(('clearcache', o))
        elif r < 0.80:
            hh = rng.randrange(nhooks)
            im = new_impl(hh)
            ops.append(('register', next_id, im)); live.append(next_id); next_id += 1
        elif r < 0.85 and live:
            i = rng.choice(live); live.remove(i); ops.append(('remove', i))
        elif r < 0.90:
            ops.append(('evalroot', o, sorted(rng.sample(range(nhooks), rng.randint(1, min(2, nhooks))))))
        else:
            ops.append(('has', rng.choice(['HasSet', 'HasCached', 'HasSetOrCached', 'HasValue']), o, h))
    return dict(hier=hier, nhooks=nhooks, ops=ops, cmp_trace=True)


class LifecycleObserver:
    """The property's clauses checked directly around each operation of the real objects."""

    def __init__(self):
        self.fail = None

    def pre(self, o, ctx):
        objs = ctx['objs']
        return {'trace': len(ctx['trace']),
                'cache': {k: dict(v.__cache__) for k, v in objs.items()},
                'dict': {k: {n: x for n, x in v.__dict__.items() if n.startswith('h')} for k, v in objs.items()}}

    def post(self, o, ctx, snap, out):
        if self.fail:
            return
        objs, k = ctx['objs'], o[0]
        same = lambda a, b: a is b or a == b or (a != a and b != b)
        if k == 'read':
            ob, name = o[1], f"h{o[2]}"
            expl = snap['dict'][ob].get(name)
            rem = snap['cache'][ob].get(name)
            invoked = len(ctx['trace']) - snap['trace']
            if expl is not None:
                exp = expl() if (callable(expl) and X.FN_KIND[id(expl)][0] == 'fn0') else (expl(objs[ob]) if callable(expl) else expl)
                if out[0] != 'val' or not same(X.Values().model(exp) if not callable(exp) else None, out[1]) and not callable(exp):
                    self.fail = f"read of explicit {name} on object {ob} gave {out}, explicit value was {expl!r}"
                elif invoked:
                    self.fail = f"read of explicit {name} invoked {invoked} implementation(s)"
            elif rem is not None:
                if out[0] != 'val' or invoked:
                    self.fail = f"read of remembered {name} on object {ob}: out={out}, implementations invoked={invoked}"
            else:
                if out[0] == 'val' and out[1] != ('none',) and name not in objs[ob].__cache__:
                    self.fail = f"computed value of {name} was not remembered"
                if out[0] == 'exn' and name in objs[ob].__cache__ and name not in snap['cache'][ob]:
                    self.fail = f"failed read of {name} left a remembered entry"
            for ob2, d in snap['dict'].items():
                now = {n: x for n, x in objs[ob2].__dict__.items() if n.startswith('h')}
                if set(now) != set(d) or any(now[n] is not d[n] for n in d):
                    self.fail = f"a read changed explicit values of object {ob2}"
        elif k in ('assign', 'delete'):
            for ob2, c in snap['cache'].items():
                now = objs[ob2].__cache__
                if set(now) != set(c) or any(now[n] is not c[n] for n in c):
                    self.fail = f"{k} changed the remembered values of object {ob2}"
        elif k == 'reeval' and out[0] == 'done':
            before = list(snap['cache'][o[1]])
            now = list(objs[o[1]].__cache__)
            if now[:len(before)] != before:
                self.fail = f"re-evaluation changed the remembered names {before} -> {now}"
        elif k == 'evalroot' and out[0] == 'done':
            for h in o[2]:
                if f"h{h}" not in objs[o[1]].__dict__:
                    self.fail = f"root hook h{h} did not become an explicit value"
        hf = [i for i, f in ctx['hfs'].items() if f.cycle]
        if hf and not self.fail:
            self.fail = f"cycle flags left set after {k}: {hf}"


def ser(case):
    return json.loads(json.dumps({'hier': case['hier'], 'nhooks': case['nhooks'], 'ops': case['ops']}, default=str))


def oracle_case(chk, case):
    obs = LifecycleObserver()
    X.Impl(case['hier'], case['nhooks']).run(case['ops'], X.Values(), observer=obs)
    if obs.fail:
        chk.fail('lifecycle', obs.fail, {'case': ser(case)})
        return False
    return True


def copy_oracle(chk):
    """independence of instances: a shallow copy takes over explicit and remembered values and is an instance of its own from then on -
    what is computed or cleared on one of the two is not remembered or forgotten on the other"""
    import copy
    from typing import Any
    from pyroll.core.hooks import Hook, HookHost

    class H(HookHost):
        x = Hook[Any]()
        y = Hook[Any]()
    hf = H.x(lambda self: self.y * 2)
    try:
        a = H()
        a.y = 5
        b = copy.copy(a)
        b.y = 50
        vb = b.x
        chk.cov['evaluations'] += 3
        if a.has_cached("x") or a.x != 10 or vb != 100:
            return chk.fail('copy-shares-remembered', f"a.y = 5; b = copy.copy(a); b.y = 50; b.x = {vb!r}: afterwards a.has_cached('x') is {a.has_cached('x')} "
                            f"and a.x = {a.x!r} (x := 2 * y; a never computed x before)", {})
        b.__cache__.clear()
        if not a.has_cached("x"):
            return chk.fail('copy-shares-remembered', "clearing the remembered values of a copy made the original forget its own", {})
        c = copy.copy(a)
        if not c.has_cached("x") or c.x != 10 or c.y != 5:
            return chk.fail('copy-shares-remembered', "a shallow copy does not take over the explicit and remembered values of the original", {})
    finally:
        hf.hook.remove_function(hf)


def solver_roots_oracle(chk):
    """root hooks evaluated by the real solver become explicit values of their object and survive re-evaluation: every unit, profile, roll and disk
    element of a solved line with two-roll and three-roll passes, a transport and a rotator"""
    from pyroll.core import (PassSequence, RollPass, ThreeRollPass, Transport, Rotator, Roll, CircularOvalGroove, Profile)
    from pyroll.core.hooks import root_hooks

    def fs(self):
        return 50e6
    hfs = [RollPass.Profile.flow_stress(fs), ThreeRollPass.Profile.flow_stress(fs)]
    try:
        ip = Profile.round(diameter=30e-3, temperature=1473.15, strain=0, material=["C45"], density=7.5e3, specific_heat_capacity=690, length=1)
        seq = PassSequence([
            RollPass(label='oval', roll=Roll(groove=CircularOvalGroove(depth=8e-3, r1=6e-3, r2=40e-3), nominal_radius=160e-3, rotational_frequency=1), gap=2e-3),
            Transport(label='transport', duration=1), Rotator(label='rotator', rotation=90),
            ThreeRollPass(label='three-roll', roll=Roll(groove=CircularOvalGroove(depth=6e-3, r1=3e-3, r2=25e-3, pad_angle=30), nominal_radius=160e-3,
                                                        rotational_frequency=1), gap=2e-3, disk_element_count=2)])
        seq.solve(ip)

        def walk(u):
            yield u
            for sub in getattr(u, '_subunits', []):
                yield from walk(sub)
        objs = []
        for u in walk(seq):
            objs.append((f"{type(u).__name__} {u.label!r}", u))
            for n in ('in_profile', 'out_profile', 'roll'):
                o = getattr(u, n, None)
                if o is not None:
                    objs.append((f"{n} of {type(u).__name__} {u.label!r}", o))
        for label, o in objs:
            for h in list(root_hooks):
                if not isinstance(o, h.owner):
                    continue
                chk.cov['evaluations'] += 1
                if h.name in o.__dict__:
                    continue
                try:
                    has = o.has_value(h.name)
                except Exception:      # noqa
                    has = False
                if has:
                    return chk.fail('root-not-explicit', f"after PassSequence.solve the root hook {h.owner.__qualname__}.{h.name} of {label} has a value "
                                    f"but is not an explicit value of the object (it would be lost by re-evaluation and hand-over)", {'object': label, 'hook': h.name})
        # sibling classes: what the solver makes explicit on a part of a two-roll pass it makes explicit on the same part of a three-roll pass (and back),
        # whenever a common base class of both declares the hook
        names = {h.name for h in root_hooks}
        two, three = seq['oval'], seq['three-roll']
        for part in (None, 'roll'):      # (the profiles of a three-roll pass carry an entry of their own by design)
            a, b = (two, three) if part is None else (getattr(two, part), getattr(three, part))
            for x, y in ((a, b), (b, a)):
                for n in sorted(names & set(x.__dict__)):
                    chk.cov['evaluations'] += 1
                    if any(hasattr(c, n) for c in type(x).__mro__ if c in type(y).__mro__) and n not in y.__dict__:
                        return chk.fail('root-not-explicit', f"after PassSequence.solve {n} is an explicit value of the {part or 'unit'} of {type(x).__name__} {x.label if part is None else ''!r} but not "
                                        f"of the same part of its sibling {type(y).__name__ if part is None else type(three if y is b else two).__name__}: a common base declares the hook, "
                                        f"one root-hook entry should cover both", {'part': part or 'unit', 'hook': n})
        before = {(label, n): v for label, o in objs for n, v in o.__dict__.items()}
        for label, o in objs:
            if hasattr(o, 'reevaluate_cache'):
                o.reevaluate_cache()
        for label, o in objs:
            for h in list(root_hooks):
                if isinstance(o, h.owner) and (label, h.name) in before and o.__dict__.get(h.name) is not before[(label, h.name)]:
                    return chk.fail('root-not-explicit', f"the solver-set root hook {h.name} of {label} did not survive re-evaluation", {'object': label, 'hook': h.name})
    finally:
        for hf in hfs:
            hf.hook.remove_function(hf)


def one_shot_values(chk):
    """a freshly computed value is handed to the reader as it was computed - also a one-shot iterator (generator, zip, map, iter): the finiteness
    test must not consume it; the first reader may be a has_value probe"""
    from typing import Any
    from pyroll.core import Hook, HookHost
    makers = {'generator': lambda: (i * 1.5 for i in range(3)), 'zip': lambda: zip([1, 2], [3.0, 4.0]), 'map': lambda: map(float, [1, 2, 3]),
              'iter': lambda: iter([1.0, 2.0]), 'dict-values': lambda: {'a': 1.0, 'b': 2.0}.values()}
    for kind, mk in makers.items():
        for probe_first in (False, True):
            class K(HookHost):
                h = Hook[Any]()
            K.h(lambda self, mk=mk: mk())
            k = K()
            chk.cov['evaluations'] += 1
            if probe_first:
                k.has_value('h')
            got = list(k.h)
            want = list(mk())
            if got != want:
                return chk.fail('one-shot-value', f"an implementation returns a {kind} yielding {want}; the reader "
                                f"{'(after a has_value probe) ' if probe_first else ''}receives an object yielding {got}", {'kind': kind, 'probe_first': probe_first})
    return True


def handover_oracle(chk):
    """explicit values of every kind keep being explicit values along a solved line: a callable given explicitly on the incoming profile is handed from
    position to position as the callable (not as the number it gave when the profile was copied) and is invoked on every read, with the object that is read"""
    from pyroll.core import PassSequence, Transport, Rotator, Profile
    import functools
    state = {'scale': 1e-5}
    got = []

    def one_arg(profile):
        got.append(profile)
        return 200.0

    import dataclasses

    @dataclasses.dataclass
    class Table:            # a callable object that cannot be hashed (a plain dataclass): an explicit callable like any other
        factor: float = 3

        def __call__(self):
            return state['scale'] * self.factor
    flavours = {'scale_thickness': lambda: state['scale'], 'vickers_hardness': one_arg, 'thermal_conductivity': functools.partial(lambda k: state['scale'] * k, 2),
                'grain_size': Table()}
    ip = Profile.round(diameter=30e-3, temperature=1473.15, strain=0, material=["C45"], length=1)
    for k, f in flavours.items():
        setattr(ip, k, f)
    t, r = Transport(label='T', duration=1), Rotator(label='R', rotation=90)
    seq = PassSequence([t, r])
    out = seq.solve(ip)
    positions = [("sequence.in_profile", seq.in_profile), ("transport.in_profile", t.in_profile), ("transport.out_profile", t.out_profile),
                 ("rotator.in_profile", r.in_profile), ("rotator.out_profile", r.out_profile), ("sequence.out_profile", seq.out_profile), ("the returned profile", out)]
    for label, p in positions:
        for k, f in flavours.items():
            chk.cov['evaluations'] += 1
            data = {'position': label, 'hook': k}
            if p.__dict__.get(k) is not f:
                return chk.fail('handover-explicit', f"{label}: the explicit value of {k} is {p.__dict__.get(k, '<absent>')!r}, the incoming profile carries the callable "
                                f"{f!r} as explicit value (an explicit value stays what was assigned, it is not replaced by what it evaluates to)", data)
        try:
            state['scale'] = 1e-5
            a = (p.scale_thickness, p.thermal_conductivity, p.grain_size)
            state['scale'] = 4e-5
            b = (p.scale_thickness, p.thermal_conductivity, p.grain_size)
            got.clear()
            h = p.vickers_hardness
        except Exception as e:      # noqa
            return chk.fail('handover-explicit', f"{label}: reading a hook whose explicit value is a callable (lambda, one-argument function, functools.partial, an unhashable "
                            f"callable object) raises {type(e).__name__}: {str(e)[:100]}", {'position': label})
        if a != (1e-5, 1e-5 * 2, 1e-5 * 3) or b != (4e-5, 4e-5 * 2, 4e-5 * 3) or h != 200.0 or not got or got[-1] is not p:
            return chk.fail('handover-explicit', f"{label}: explicit callables are not invoked on every read with the object read: first {a}, after the input changed {b}, "
                            f"one-argument callable got {'nothing' if not got else 'another object' if got[-1] is not p else 'the object'}", {'position': label})


def reentrant_reads(chk):
    """an implementation that re-enters its own hook (the cycle pattern): the value the outermost read returns is the remembered one, every later read returns it"""
    from typing import Any
    from pyroll.core.hooks import Hook, HookHost
    for depth in (1, 2):
        class H(HookHost):
            x = Hook[Any]()
            y = Hook[Any]()
        H.x(lambda self: 21)
        if depth == 1:
            H.x(lambda self, cycle: None if cycle else self.x * 2)
        else:
            H.y(lambda self: self.x + 1)
            H.x(lambda self, cycle: None if cycle else self.y * 2)
        want = 42 if depth == 1 else 44
        h = H()
        reads = [h.x, h.x, h.__cache__.get('x'), h.x]
        chk.cov['evaluations'] += 1
        if reads != [want] * 4:
            return chk.fail('lifecycle', f"an implementation of x that reads x again {'directly' if depth == 1 else 'through y'} while the cycle flag is not set (inner value 21): first read, "
                            f"second read, remembered value, third read = {reads}, expected {want} throughout", {'case': 'reentrant', 'depth': depth})


def second_registration_and_lifetimes(chk):
    """(a) one function registered twice on a hook, another implementation in between / in another tier: taking back the second registration (also by leaving a
    with block) leaves the first in place, re-evaluation computes from exactly the implementations that are registered;
    (b) explicit callables that are created, read and dropped one after another (their addresses are re-used): each is called the way ITS signature asks for"""
    import gc
    from typing import Any
    from pyroll.core.hooks import Hook, HookHost

    class H(HookHost):
        x = Hook[Any]()

    def f(self):
        return 2
    H.x(lambda self: 1, trylast=True)
    first = H.x(f)
    h = H()
    seen = [h.x]
    with H.x(f, tryfirst=True):
        h.reevaluate_cache()
        seen.append(h.x)
    h.reevaluate_cache()
    seen.append(h.x)
    n_left = len([g for g in H.x.functions if getattr(g, 'function', g) is f])
    H.x.remove_function(first)
    h.reevaluate_cache()
    seen.append(h.x)
    chk.cov['evaluations'] += 1
    if seen != [2, 2, 2, 1] or n_left != 1:
        return chk.fail('lifecycle', f"f (value 2) registered on x over a trylast default (value 1), then once more by `with H.x(f, tryfirst=True):`; values read after "
                        f"registration, inside the block, after the block, after removing the first registration too: {seen} (expected [2, 2, 2, 1]); registrations of f "
                        f"left after the block: {n_left} (expected 1)", {'case': 'second registration'})
    for i in range(60):
        h = H()
        if i % 2:
            h.x = lambda: 100 + i          # noqa: B023
            want = 100 + i
        else:
            h.x = lambda self: 200 + i     # noqa: B023
            want = 200 + i
        chk.cov['evaluations'] += 1
        try:
            got = h.x
        except Exception as e:      # noqa
            got = f"{type(e).__name__}: {e}"
        del h
        gc.collect()
        if got != want:
            return chk.fail('handover-explicit', f"explicit callables created, read and dropped one after another, alternately taking no argument and the object: number {i} "
                            f"({'no argument' if i % 2 else 'one argument'}) reads {got!r}, expected {want}", {'case': 'callable lifetimes', 'i': i})


def run(chk):
    chk.coq.add_prop_file('C02.v')
    chk.coq.compile('C02.v', is_props=True, timeout=900)
    rng = random.Random(chk.seed * 7177 + 2)
    n = 3000 if chk.thorough else 450
    cases = [gen_case(rng, chk.thorough) for _ in range(n)]
    bad = X.run_cases(chk, cases, 'c02')
    shrunk = []
    opmix = {}
    for c in cases:
        for o in c['ops']:
            opmix[o[0]] = opmix.get(o[0], 0) + 1
    chk.x_stats['correspondence'] = {'cases': len(cases), 'disagreements': len(bad), 'op_mix': opmix}
    for i in bad[:2]:
        small = X.shrink(chk, cases[i], 'c02')
        shrunk.append((cases[i], small))
        chk.unshown_add(f"correspondence:case{i}", "model and implementation disagree; shrunk history: " + json.dumps(small, default=str)[:1500])
    seen = set()
    for c in [cases[i] for i in bad] + cases:
        chk.cov['evaluations'] += 1
        seen.add(json.dumps(ser(c), sort_keys=True))
        if not oracle_case(chk, c):
            break
    chk.cov['distinct_nontrivial'] += len(seen)
    if shrunk and not chk.failures:
        X.report_deviation(chk, shrunk[0][0], shrunk[0][1], 'dev')
    if not chk.failures:
        solver_roots_oracle(chk)
    if not chk.failures:
        copy_oracle(chk)
    if not chk.failures:
        handover_oracle(chk)
    if not chk.failures:
        one_shot_values(chk)
    if not chk.failures:
        reentrant_reads(chk)
    if not chk.failures:
        second_registration_and_lifetimes(chk)
    chk.sample(ser(cases[0]))
    chk.cov['rule'] = ("seeded random histories of read / assign (plain, falsy, None, zero- and one-argument callables) / delete / "
                       "re-evaluate / cache clear / register / remove / root evaluation / has_* on 1-3 instances of 1-3 classes with "
                       "implementations that read other hooks (also across instances); distinct = distinct histories")
    chk.trusted += ["correspondence harness tools/xcheck/hookx.py"]
    chk.assumptions += ["inspect.signature arity detection is exercised, not modelled (Fn0/Fn1)",
                        "root_hook_fallback is not part of the model (EvalRoot without fallback)"]


def replay(data):
    print(json.dumps(data, indent=1)[:3000])
    return 1
