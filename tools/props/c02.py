"""C02 - hook value lifecycle: explicit value, then remembered value, then computation."""
import json
import random

from xcheck import hookx as X


def gen_prog(rng, h, nhooks, nobj, depth=0):
    """bodies read only hooks with a larger index (acyclic), on self or another object"""
    r = rng.random()
    if h + 1 >= nhooks or depth > 2 or r < 0.35:
        return ('const', ('none',) if rng.random() < 0.2 else ('int', rng.randint(1, 60)))
    tgt = 'self' if rng.random() < 0.7 or nobj == 0 else rng.randrange(nobj)
    h2 = rng.randint(h + 1, nhooks - 1)
    if r < 0.6:
        return ('add', ('read', tgt, h2), ('const', ('int', rng.randint(1, 9))))
    if r < 0.75:
        return ('read', tgt, h2)
    if r < 0.9:
        kind = rng.choice(['HasSet', 'HasCached', 'HasSetOrCached', 'HasValue'])
        return ('ifhas', kind, tgt, h2, ('read', tgt, h2), gen_prog(rng, h, nhooks, nobj, depth + 1))
    return ('try', ('read', tgt, h2), ('const', ('int', rng.randint(1, 9))))


def gen_case(rng, thorough):
    nhooks = rng.randint(2, 4)
    hier = rng.choice([[([], [])], [([], []), ([0], [])], [([], []), ([0], []), ([1], [])], [([], []), ([0], []), ([0], [])]])
    ncls = len(hier)
    nobj = rng.randint(1, 3)
    ops = [('newobj', o, rng.randrange(ncls)) for o in range(nobj)]
    next_id, live = 0, []
    for _ in range(rng.randint(1, 4)):
        h = rng.randrange(nhooks)
        im = dict(owner=rng.randrange(ncls), hook=h, tier=rng.choice([0, 1, 1, 2]), wrapper=False, guarded=False, post=None,
                  prog=gen_prog(rng, h, nhooks, nobj))
        ops.append(('register', next_id, im)); live.append(next_id); next_id += 1
    for _ in range(rng.randint(5, 30 if not thorough else 70)):
        o, h = rng.randrange(nobj), rng.randrange(nhooks)
        r = rng.random()
        if r < 0.34:
            ops.append(('read', o, h))
        elif r < 0.50:
            v = rng.choice([('int', 0), ('bool', False), ('int', 5), ('int', rng.randint(1, 99)), ('none',),
                            ('fn0', ('int', 11)), ('fn1', ('int', 12)), ('fn0', ('none',)), ('opq', 3), ('list', [])])
            ops.append(('assign', o, h, v))
        elif r < 0.58:
            ops.append(('delete', o, h))
        elif r < 0.66:
            ops.append(('reeval', o))
        elif r < 0.70:
            ops.append(('clearcache', o))
        elif r < 0.80:
            hh = rng.randrange(nhooks)
            im = dict(owner=rng.randrange(ncls), hook=hh, tier=rng.choice([0, 1, 1, 2]), wrapper=False, guarded=False, post=None,
                      prog=gen_prog(rng, hh, nhooks, nobj))
            ops.append(('register', next_id, im)); live.append(next_id); next_id += 1
        elif r < 0.85 and live:
            i = rng.choice(live); live.remove(i); ops.append(('remove', i))
        elif r < 0.90:
            ops.append(('evalroot', o, sorted(rng.sample(range(nhooks), rng.randint(1, min(2, nhooks))))))
        else:
            ops.append(('has', rng.choice(['HasSet', 'HasCached', 'HasSetOrCached', 'HasValue']), o, h))
    return dict(hier=hier, nhooks=nhooks, ops=ops, cmp_trace=True)


class LifecycleObserver:
    """The property's clauses checked directly around each operation of the real objects."""

    def __init__(self):
        self.fail = None

    def pre(self, o, ctx):
        objs = ctx['objs']
        return {'trace': len(ctx['trace']),
                'cache': {k: dict(v.__cache__) for k, v in objs.items()},
                'dict': {k: {n: x for n, x in v.__dict__.items() if n.startswith('h')} for k, v in objs.items()}}

    def post(self, o, ctx, snap, out):
        if self.fail:
            return
        objs, k = ctx['objs'], o[0]
        same = lambda a, b: a is b or a == b or (a != a and b != b)
        if k == 'read':
            ob, name = o[1], f"h{o[2]}"
            expl = snap['dict'][ob].get(name)
            rem = snap['cache'][ob].get(name)
            invoked = len(ctx['trace']) - snap['trace']
            if expl is not None:
                exp = expl() if (callable(expl) and X.FN_KIND[id(expl)][0] == 'fn0') else (expl(objs[ob]) if callable(expl) else expl)
                if out[0] != 'val' or not same(X.Values().model(exp) if not callable(exp) else None, out[1]) and not callable(exp):
                    self.fail = f"read of explicit {name} on object {ob} gave {out}, explicit value was {expl!r}"
                elif invoked:
                    self.fail = f"read of explicit {name} invoked {invoked} implementation(s)"
            elif rem is not None:
                if out[0] != 'val' or invoked:
                    self.fail = f"read of remembered {name} on object {ob}: out={out}, implementations invoked={invoked}"
            else:
                if out[0] == 'val' and out[1] != ('none',) and name not in objs[ob].__cache__:
                    self.fail = f"computed value of {name} was not remembered"
                if out[0] == 'exn' and name in objs[ob].__cache__ and name not in snap['cache'][ob]:
                    self.fail = f"failed read of {name} left a remembered entry"
            for ob2, d in snap['dict'].items():
                now = {n: x for n, x in objs[ob2].__dict__.items() if n.startswith('h')}
                if set(now) != set(d) or any(now[n] is not d[n] for n in d):
                    self.fail = f"a read changed explicit values of object {ob2}"
        elif k in ('assign', 'delete'):
            for ob2, c in snap['cache'].items():
                now = objs[ob2].__cache__
                if set(now) != set(c) or any(now[n] is not c[n] for n in c):
                    self.fail = f"{k} changed the remembered values of object {ob2}"
        elif k == 'reeval' and out[0] == 'done':
            before = list(snap['cache'][o[1]])
            now = list(objs[o[1]].__cache__)
            if now[:len(before)] != before:
                self.fail = f"re-evaluation changed the remembered names {before} -> {now}"
        elif k == 'evalroot' and out[0] == 'done':
            for h in o[2]:
                if f"h{h}" not in objs[o[1]].__dict__:
                    self.fail = f"root hook h{h} did not become an explicit value"
        hf = [i for i, f in ctx['hfs'].items() if f.cycle]
        if hf and not self.fail:
            self.fail = f"cycle flags left set after {k}: {hf}"


def ser(case):
    return json.loads(json.dumps({'hier': case['hier'], 'nhooks': case['nhooks'], 'ops': case['ops']}, default=str))


def oracle_case(chk, case):
    obs = LifecycleObserver()
    X.Impl(case['hier'], case['nhooks']).run(case['ops'], X.Values(), observer=obs)
    if obs.fail:
        chk.fail('lifecycle', obs.fail, {'case': ser(case)})
        return False
    return True


def run(chk):
    chk.coq.add_prop_file('C02.v')
    chk.coq.compile('C02.v', is_props=True, timeout=900)
    rng = random.Random(chk.seed * 7177 + 2)
    n = 3000 if chk.thorough else 450
    cases = [gen_case(rng, chk.thorough) for _ in range(n)]
    bad = X.run_cases(chk, cases, 'c02')
    shrunk = []
    opmix = {}
    for c in cases:
        for o in c['ops']:
            opmix[o[0]] = opmix.get(o[0], 0) + 1
    chk.x_stats['correspondence'] = {'cases': len(cases), 'disagreements': len(bad), 'op_mix': opmix}
    for i in bad[:2]:
        small = X.shrink(chk, cases[i], 'c02')
        shrunk.append((cases[i], small))
        chk.unshown_add(f"correspondence:case{i}", "model and implementation disagree; shrunk history: " + json.dumps(small, default=str)[:1500])
    seen = set()
    for c in [cases[i] for i in bad] + cases:
        chk.cov['evaluations'] += 1
        seen.add(json.dumps(ser(c), sort_keys=True))
        if not oracle_case(chk, c):
            break
    chk.cov['distinct_nontrivial'] += len(seen)
    if shrunk and not chk.failures:
        X.report_deviation(chk, shrunk[0][0], shrunk[0][1], 'dev')
    chk.sample(ser(cases[0]))
    chk.cov['rule'] = ("seeded random histories of read / assign (plain, falsy, None, zero- and one-argument callables) / delete / "
                       "re-evaluate / cache clear / register / remove / root evaluation / has_* on 1-3 instances of 1-3 classes with "
                       "implementations that read other hooks (also across instances); distinct = distinct histories")
    chk.trusted += ["correspondence harness tools/xcheck/hookx.py"]
    chk.assumptions += ["inspect.signature arity detection is exercised, not modelled (Fn0/Fn1)",
                        "root_hook_fallback is not part of the model (EvalRoot without fallback)"]


def replay(data):
    print(json.dumps(data, indent=1)[:3000])
    return 1
