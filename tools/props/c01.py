"""C01 - hook resolution order is a pure function of registrations and class hierarchy."""
import json
import random

from common import log
from xcheck import hookx as X


def gen_case(rng, thorough):
    nhooks = rng.choice([1, 1, 2])
    hier = X.gen_hierarchy(rng, nhooks)
    ncls = len(hier)
    ops, next_id, next_obj, live = [], 0, 0, []
    shared = False
    n_ops = rng.randint(4, 25 if not thorough else 60)
    for _ in range(n_ops):
        r = rng.random()
        if r < 0.45 or not live:
            owner, hook = rng.randrange(ncls), rng.randrange(nhooks)
            # every wrapper re-enters the whole chain once: k live wrappers on one hook cost 2^k invocations (model and implementation alike);
            # keep at most five per hook so that a case stays small
            nwrap = sum(1 for o in ops if o[0] == 'register' and o[2]['wrapper'] and o[2]['hook'] == hook)
            wrapper = rng.random() < 0.3 and nwrap < 5
            tier = rng.choice([0, 1, 1, 2])
            if wrapper:
                post = rng.choice([('add', rng.randint(1, 9)), ('add', 10 * rng.randint(1, 9)), ('id',), ('isnone',),
                                   ('const', ('none',)), ('const', ('int', 77))])
                im = dict(owner=owner, hook=hook, tier=tier, wrapper=True, guarded=True, post=post, prog=None)
            else:
                v = ('none',) if rng.random() < 0.35 else ('int', 100 * (next_id + 1))
                im = dict(owner=owner, hook=hook, tier=tier, wrapper=False, guarded=False, post=None, prog=('const', v))
            same = [o for o in ops if o[0] == 'register' and o[2]['hook'] == hook and (not o[2]['wrapper'] or nwrap < 5)]
            if same and rng.random() < 0.2:
                # the same Python function object registered once more on this hook: in another tier, for another class or at a later
                # position of the same tier (a shared default); every registration stays a registration of its own
                src = rng.choice(same)
                im = dict(src[2], owner=owner if rng.random() < 0.5 else src[2]['owner'], tier=rng.choice([tier, src[2]['tier']]),
                          same_as=src[2].get('same_as', src[1]), via_hf=rng.random() < 0.5)
                shared = True
            ops.append(('register', next_id, im))
            live.append(next_id)
            next_id += 1
        elif r < 0.55:
            i = rng.choice(live)
            if rng.random() < 0.75:
                ops.append(('remove', i))
                live.remove(i)
            else:
                ops.append(('removevia', rng.randrange(ncls), i))   # may or may not be the owner
        elif r < 0.70:
            ops.append(('touch', rng.randrange(ncls), rng.randrange(nhooks)))
        elif r < 0.85:
            c = rng.randrange(ncls)
            ops.append(('newobj', next_obj, c))
            ops.append(('read', next_obj, rng.randrange(nhooks)))
            next_obj += 1
        else:
            ops.append(('functions', rng.randrange(ncls), rng.randrange(nhooks)))
    # final observation on every class: fresh instance read + functions
    for c in range(ncls):
        for h in range(nhooks):
            ops.append(('functions', c, h))
            ops.append(('newobj', next_obj, c))
            ops.append(('read', next_obj, h))
            next_obj += 1
    return dict(hier=hier, nhooks=nhooks, ops=ops, cmp_trace=not shared)   # a shared function reports the id of its first registration


# ---- independent oracle: the documented order computed from the registration log ---------------------
def oracle_case(chk, case):
    """Property stated directly: Hook.functions of every class equals the documented priority order
    computed from the log of registrations/removals, and a fresh read equals the spec evaluation."""
    V = X.Values()
    impl = X.Impl(case['hier'], case['nhooks'])
    outs, trace, flags, caches, dicts = impl.run(case['ops'], V)
    mro = impl.mro
    log_, infos, oi = [], {}, 0
    for o, out in zip(case['ops'], outs):
        k = o[0]
        if k == 'register':
            log_.append(o[1]); infos[o[1]] = o[2]
        elif k == 'remove' and o[1] in log_:
            log_.remove(o[1])
        elif k == 'removevia' and o[2] in log_ and infos[o[2]]['owner'] == o[1]:
            log_.remove(o[2])
        elif k == 'functions':
            exp = chain(mro, log_, infos, o[1], o[2])
            if out != ('list', exp):
                chk.fail('order', f"Hook.functions of class {o[1]} hook {o[2]} is {out[1] if out[0]=='list' else out}, documented order gives {exp}",
                         {'case': ser(case), 'at': o})
                return False
        elif k == 'read':
            c = None
            for p in case['ops']:
                if p[0] == 'newobj' and p[1] == o[1]:
                    c = p[2]
            ch = chain(mro, log_, infos, c, o[2])
            exp = spec_eval(ch, infos, frozenset())
            got = out[1] if out[0] == 'val' else None
            if out[0] == 'exn' and out[1] == 'EAttr':
                got = ('none',)
            if exp == 'typeerror':
                ok = out == ('exn', 'EType')
            else:
                ok = (got == exp)
            if not ok:
                chk.fail('value', f"read on fresh instance of class {c} hook {o[2]} gives {out}, chain {ch} evaluates to {exp}",
                         {'case': ser(case), 'at': o})
                return False
    if flags:
        chk.fail('flags', f"cycle flags left set: {flags}", {'case': ser(case)})
        return False
    return True


def chain(mro, log_, infos, c, h):
    out = []
    for t in range(6):
        for s in mro[c]:
            sel = [i for i in log_ if infos[i]['owner'] == s and infos[i]['hook'] == h
                   and ((0 if infos[i]['wrapper'] else 3) + infos[i]['tier']) == t]
            out += list(reversed(sel))
    return out


def spec_eval(ch, infos, M):
    """first non-None wins; a wrapper not yet entered is applied to the value of the rest of the evaluation"""
    for i in ch:
        im = infos[i]
        if not im['wrapper']:
            v = im['prog'][1]
        elif i in M:
            v = ('none',)
        else:
            inner = spec_eval(ch, infos, M | {i})
            if inner == 'typeerror':
                return inner
            v = post(im['post'], inner)
            if v == 'typeerror':
                return v
        if v != ('none',):
            return v
    return ('none',)


def post(po, x):
    if po[0] == 'id':
        return x
    if po[0] == 'add':
        if x[0] == 'int':
            return ('int', x[1] + po[1])
        if x[0] == 'bool':
            return ('int', int(x[1]) + po[1])
        return 'typeerror'
    if po[0] == 'const':
        return po[1]
    if po[0] == 'isnone':
        return ('bool', x == ('none',))


def ser(case):
    return json.loads(json.dumps({'hier': case['hier'], 'nhooks': case['nhooks'], 'ops': case['ops']}, default=str))


def first_touch_oracle(chk):
    """the outcome does not depend on the instance through which a hook was first touched: two instances of one class, an implementation that reads
    the same hook of the other instance; the pair of values must not depend on which instance is read first"""
    from typing import Any
    from pyroll.core.hooks import Hook, HookHost

    def run_(first, wrapper):
        class H(HookHost):
            x = Hook[Any]()
        H.x(lambda self: 1)
        if wrapper:
            def f(self, cycle):
                if cycle:
                    return None
                o = self.__dict__.get("other")
                inner = yield
                return inner + 10 + (o.x if o is not None else 0)
        else:
            def f(self, cycle):
                o = self.__dict__.get("other")
                return None if cycle else 10 + (o.x if o is not None else 0)
        H.x(f, wrapper=wrapper)
        a, b = H(), H()
        a.other = b
        (a if first == "a" else b).x
        return a.x, b.x
    for wrapper in (False, True):
        ra, rb = run_("a", wrapper), run_("b", wrapper)
        chk.cov['evaluations'] += 2
        if ra != rb:
            chk.fail('cross-instance-first-touch', f"two instances a, b of one class, a {'wrapper' if wrapper else 'cycle-aware implementation'} of hook x that reads "
                     f"x of the other instance (a.other = b): (a.x, b.x) = {ra} when a is read first, {rb} when b is read first", {'wrapper': wrapper})
            return


def falsy_hosts(chk):
    """resolution does not depend on the truth value of the object: hosts with __len__ 0 or __bool__ False (an empty sequence is one) resolve like any other"""
    from typing import Any
    from pyroll.core.hooks import Hook, HookHost
    from pyroll.core import PassSequence

    class Plain(HookHost):
        v = Hook[Any]()

    class Empty(Plain):
        def __len__(self):
            return 0

    class No(Plain):
        def __bool__(self):
            return False
    Plain.v(lambda self: 1)
    Empty.v(lambda self: 2)
    No.v(lambda self, cycle: None if cycle else self.v + 10)
    got = []
    for cls, want in ((Plain, 1), (Empty, 2), (No, 11)):
        chk.cov['evaluations'] += 1
        got.append((cls.__name__, cls().v, want))
    f = PassSequence.duration(lambda self: 7.5, tryfirst=True)
    try:
        chk.cov['evaluations'] += 1
        got.append(('PassSequence([])', PassSequence([]).duration, 7.5))
    finally:
        PassSequence.duration.remove_function(f)
    bad = [(n, g, w) for n, g, w in got if not (type(g) is type(w) and g == w)]
    if bad:
        n, g, w = bad[0]
        chk.fail('value', f"read on a fresh instance of {n} (an object whose truth value is False; one implementation on its class, one on the base) gives {g!r}, "
                 f"the chain evaluates to {w!r}", {'case': 'falsy host', 'class': n})


def run(chk):
    chk.coq.add_prop_file('C01.v')
    chk.coq.compile('C01.v', is_props=True, timeout=900)
    rng = random.Random(chk.seed * 31337 + 1)
    n = 3000 if chk.thorough else 450
    cases = [gen_case(rng, chk.thorough) for _ in range(n)]
    bad = X.run_cases(chk, cases, 'c01')
    shrunk = []
    shapes = {}
    for c in cases:
        k = f"{len(c['hier'])}cls"
        shapes[k] = shapes.get(k, 0) + 1
    opmix = {}
    for c in cases:
        for o in c['ops']:
            opmix[o[0]] = opmix.get(o[0], 0) + 1
    chk.x_stats['correspondence'] = {'cases': len(cases), 'disagreements': len(bad), 'hierarchy_sizes': shapes, 'op_mix': opmix}
    for i in bad[:3]:
        small = X.shrink(chk, cases[i], 'c01')
        shrunk.append((cases[i], small))
        chk.unshown_add(f"correspondence:case{i}", "model and implementation disagree; shrunk history: " + json.dumps(small, default=str)[:1500])
    # oracle on the same cases (the property itself, stated on the implementation)
    order = [cases[i] for i in bad] + cases
    budget = len(order) if (bad or chk.unshown) else min(len(order), 450 if not chk.thorough else 3000)
    seen = set()
    for c in order[:budget]:
        chk.cov['evaluations'] += 1
        seen.add(json.dumps(ser(c), sort_keys=True))
        if not oracle_case(chk, c):
            break
    chk.cov['distinct_nontrivial'] += len(seen)
    if shrunk and not chk.failures:
        X.report_deviation(chk, shrunk[0][0], shrunk[0][1], 'dev')
    first_touch_oracle(chk)
    if not [f for f in chk.failures if f.key != 'cross-instance-first-touch']:
        falsy_hosts(chk)
    chk.sample(ser(cases[0]))
    chk.cov['rule'] = ("seeded random class hierarchies (chains, diamonds, mixins, trees; hooks re-declared in subclasses) x histories "
                       "of register (plain/wrapper, three tiers, any owner) / remove / remove-via-other-class / class touches / reads "
                       "on fresh instances / Hook.functions; distinct = distinct (hierarchy, history); every case is non-trivial "
                       "(>= 4 operations and a final observation of every class)")
    chk.trusted += ["correspondence harness tools/xcheck/hookx.py (renders each case to Python closures and to Coq terms)",
                    "Python's C3 linearisation is taken from the implementation per case"]
    chk.assumptions += ["inspect.signature, logging and generator mechanics are modelled, not verified",
                        "lazy per-subclass Hook creation is a no-op in the model; its irrelevance is what the correspondence run checks"]


def replay(data):
    from common import Check
    chk = Check('C01', 'quick', 0)
    inp = data.get('input') or {}
    if 'case' in inp:
        c = inp['case']
        c['ops'] = [tuple(o) for o in c['ops']]
        c['hier'] = [tuple(x) for x in c['hier']]
        ok = oracle_case(chk, c)
        print("replay:", "holds" if ok else chk.failures[0].what)
        return 0 if ok else 1
    print(json.dumps(data, indent=1)[:2000])
    return 1
