"""C12 - solving has no side effects on its inputs and no aliasing between positions."""
import copy
import json
import random
import re
import weakref

import numpy as np

from py2coq import mutations_ts
from py2coq.ir import Untranslatable


# ------------------------------------------------------------------ object graphs
def modelled(o):
    from pyroll.core.hooks import HookHost
    from pyroll.core.unit.unit import Unit
    return isinstance(o, HookHost) or type(o).__name__ == '_SubUnitsList'


def refs_in(v, out):
    """modelled objects referenced by a value, in the order copy.deepcopy visits them (containers are transparent)"""
    if isinstance(v, weakref.ref):
        t = v()
        if t is None:
            out.append(('Dead', None))      # a weak reference whose target is gone
        elif modelled(t):
            out.append(('Weak', t))
        return
    if modelled(v):
        out.append(('Strong', v))
        return
    if isinstance(v, (list, tuple)):
        for e in v:
            refs_in(e, out)
    elif isinstance(v, dict):
        for k, e in v.items():
            refs_in(k, out)
            refs_in(e, out)
    elif isinstance(v, (set, frozenset)):
        for e in v:
            refs_in(e, out)


def fields_of(o):
    out = []
    if type(o).__name__ == '_SubUnitsList':
        owner = o._owner()
        out.append(('Weak', owner) if owner is not None else ('Dead', None))
        for e in o:
            refs_in(e, out)
        return out
    for k, v in o.__dict__.items():
        refs_in(v, out)
    return out


def encode(root):
    """heap of the modelled objects reachable from root; addresses in discovery order"""
    addr, nodes, stack = {}, [], [root]
    while stack:
        o = stack.pop()
        if id(o) in addr:
            continue
        addr[id(o)] = len(nodes)
        nodes.append(o)
        for _, t in reversed(fields_of(o)):
            if t is not None:
                stack.append(t)
    heap = []
    for o in nodes:
        heap.append((type(o).__name__ != '_SubUnitsList', [(k, addr[id(t)] if t is not None else 0) for k, t in fields_of(o)]))
    return addr, nodes, heap


def coq_heap(heap):
    return "[" + "; ".join("{| early := %s; fields := [%s] |}" % ('true' if e else 'false', "; ".join(f"({k}, {t}%nat)" for k, t in fs)) for e, fs in heap) + "]"


# ------------------------------------------------------------------ layouts
def flow_stress(self):
    return 50e6 * (1 + self.strain) ** 0.2


def layouts(rng):
    from pyroll.core import Roll, RollPass, Transport, Rotator, RoundGroove, CircularOvalGroove, PassSequence, CoolingPipe

    def oval(i, **kw):
        return RollPass(label=f"oval{i}", roll=Roll(groove=CircularOvalGroove(depth=8e-3, r1=6e-3, r2=40e-3), nominal_radius=160e-3, rotational_frequency=1), gap=2e-3, **kw)

    def rnd(i, **kw):
        return RollPass(label=f"round{i}", roll=Roll(groove=RoundGroove(r1=1e-3, r2=12.5e-3, depth=11.5e-3), nominal_radius=160e-3, rotational_frequency=1), gap=2e-3, **kw)
    yield 'flat', lambda: PassSequence([oval(1), Transport(label='t', duration=1), rnd(2)])
    yield 'disks', lambda: PassSequence([oval(1, disk_element_count=3), Transport(label='t', duration=1, disk_element_count=2), rnd(2)])
    yield 'nested', lambda: PassSequence([PassSequence([oval(1), Transport(label='t1', duration=1)], label='roughing'),
                                          PassSequence([rnd(2)], label='finishing')], label='line')
    yield 'explicit rotators 45 then 90', lambda: PassSequence([oval(1), Rotator(label='r45', rotation=45), Rotator(label='r90', rotation=90),
                                                                 Transport(label='t', duration=1), rnd(2)])
    yield 'rotators 90 then 180 then 45', lambda: PassSequence([Rotator(label='a', rotation=90), Rotator(label='b', rotation=180), Rotator(label='c', rotation=45), oval(1)])
    yield 'ending in a rotator', lambda: PassSequence([oval(1), Transport(label='t', duration=1), Rotator(label='last', rotation=45)])

    def shared_template():
        # one Roll template object given to two passes, and a pass built from the roll of another pass (a template that already belongs to a pass)
        r = Roll(groove=RoundGroove(r1=1e-3, r2=12.5e-3, depth=11.5e-3), nominal_radius=160e-3, rotational_frequency=1)
        first = RollPass(label='round2', roll=r, gap=2e-3)
        again = RollPass(label='round3', roll=r, gap=1.5e-3)
        taken = RollPass(label='round4', roll=first.roll, gap=1e-3)
        seq = PassSequence([oval(1), Transport(label='t', duration=1), first, Transport(label='t2', duration=1), again, Transport(label='t3', duration=1), taken])
        seq._verif_templates = [('the Roll template shared by round2 and round3', r)]
        return seq
    yield 'shared roll templates', shared_template
    yield 'cooling', lambda: PassSequence([oval(1), CoolingPipe(label='c', length=1, inner_radius=30e-3, coolant_volume_flux=1e-3, coolant_temperature=300),
                                           Transport(label='t', duration=1), rnd(2)])


def incoming(d=30e-3, mutable=False):
    from pyroll.core import Profile
    if mutable:
        # the same state carried by MUTABLE numbers (0-d / 1-element arrays, as a measurement file or a preceding numpy computation delivers them):
        # an augmented assignment anywhere along the chain would change them in place
        return Profile.round(diameter=d, temperature=np.array(1473.15), strain=np.array(0.0), material=["C45", "steel"], density=np.array(7.5e3),
                             specific_heat_capacity=690, length=np.array(1.0), t=np.array(0.0), x=np.array(0.0), flow_stress=50e6)
    return Profile.round(diameter=d, temperature=1473.15, strain=0, material=["C45", "steel"], density=7.5e3, specific_heat_capacity=690, length=1,
                         flow_stress=50e6)


# ------------------------------------------------------------------ fingerprints (identity + value)
def value_print(v, depth=0):
    if isinstance(v, (int, float, str, bool, type(None), complex)):
        return repr(v)
    if isinstance(v, np.ndarray):
        return ('nd', v.shape, v.tobytes())
    if isinstance(v, np.generic):
        return repr(v.item())
    if isinstance(v, (set, frozenset)):
        return ('set', tuple(sorted(map(repr, v))))
    if isinstance(v, (list, tuple)):
        return (type(v).__name__, tuple(value_print(e, depth + 1) for e in v)) if depth < 4 else ('deep',)
    if isinstance(v, dict):
        return ('dict', tuple((repr(k), value_print(e, depth + 1)) for k, e in v.items())) if depth < 4 else ('deep',)
    if hasattr(v, 'wkb_hex'):
        return ('geom', v.wkb_hex)
    if isinstance(v, weakref.ref):
        return ('weak', id(v()))
    if hasattr(v, '__dict__') and depth < 2 and not modelled(v):
        return (type(v).__name__, tuple((k, value_print(e, depth + 1)) for k, e in sorted(vars(v).items()) if not callable(e)))
    return ('obj', type(v).__name__, id(v))


def snapshot(o):
    """attribute name -> (identity, value) of an object's own state (explicit values and cache)"""
    snap = {}
    for k, v in vars(o).items():
        if k == '__cache__' or k.endswith('__cache__'):
            continue
        snap[k] = (id(v), value_print(v))
    return snap


def diff(a, b):
    out = []
    for k in a.keys() | b.keys():
        if k not in a:
            out.append(f"gained {k}")
        elif k not in b:
            out.append(f"lost {k}")
        elif a[k][1] != b[k][1]:
            out.append(f"value of {k} changed")
        elif a[k][0] != b[k][0]:
            out.append(f"{k} now refers to another object")
    return sorted(out)


def all_sets(root_objs):
    """every set object attached to a profile/unit reachable from the given objects: id -> (object, frozen content)"""
    out = {}
    for o in root_objs:
        for k, v in vars(o).items():
            if isinstance(v, set):
                out[id(v)] = (v, frozenset(v), f"{type(o).__name__}.{k}")
    return out


class Watch:
    """objects whose state must not change, with their snapshots"""

    def __init__(self):
        self.items = []      # (label, object, snapshot)
        self.sets = {}

    def add(self, label, o):
        self.items.append((label, o, snapshot(o)))
        for i, (s, content, where) in all_sets([o]).items():
            self.sets.setdefault(i, (s, content, f"{label}: {where}"))

    def check(self, chk, what, data):
        for label, o, snap in self.items:
            d = diff(snap, snapshot(o))
            if d:
                chk.fail('side-effect', f"{what}: {label} was modified ({'; '.join(d[:3])})", data)
                return False
        for i, (s, content, where) in self.sets.items():
            if frozenset(s) != content:
                chk.fail('set-mutated-in-place', f"{what}: the set attached as {where} was changed in place: {sorted(content)} -> {sorted(s)}", data)
                return False
        return True


def profiles_of(seq):
    out = []
    for u in walk_units(seq):
        for p in (getattr(u, 'in_profile', None), getattr(u, 'out_profile', None)):
            if p is not None:
                out.append((u, p))
    return out


def walk_units(u):
    yield u
    for s in getattr(u, '_subunits', []):
        yield from walk_units(s)


def histories(chk, rng):
    from pyroll.core import RollPass, PassSequence, Rotator
    hf = RollPass.Profile.flow_stress(flow_stress)
    try:
        for li, (name, make) in enumerate(layouts(rng)):
            seq = make()
            ip = incoming(mutable=(li % 2 == 1))
            if li % 2 == 1:
                name = name + ", state carried by numpy arrays"
            data = {'layout': name}
            templates = [(f"roll template of {u.label}", u.roll) for u in walk_units(seq) if isinstance(u, RollPass)]
            w = Watch()
            w.add("the caller's incoming profile", ip)
            for label, roll in templates:
                w.add("groove of " + label.split(' of ')[1], roll.groove)
            for label, roll in getattr(seq, '_verif_templates', []):
                w.add(label, roll)
            ops = ['solve', 'resolve-other', 'edit-later', 'copy-solve', 'resolve-same', 'stage']
            rng.shuffle(ops)
            ops = ['solve'] + [o for o in ops if o != 'solve']
            done = []
            returned = []
            for op in ops:
                done.append(op)
                data = {'layout': name, 'operations': list(done)}
                try:
                    if op in ('solve', 'resolve-same'):
                        out = seq.solve(ip)
                    elif op == 'resolve-other':
                        ip2 = incoming(29e-3)
                        w.add("a second incoming profile", ip2)
                        out = seq.solve(ip2)
                    elif op == 'edit-later':
                        later = [u for u in walk_units(seq) if isinstance(u, RollPass)][-1]
                        later.gap = later.gap * 1.2
                        out = seq.solve(ip)
                    elif op == 'copy-solve':
                        c = copy.deepcopy(seq)
                        before = {id(u): snapshot(u.out_profile) for u in walk_units(seq) if getattr(u, 'out_profile', None) is not None}
                        out = c.solve(incoming(28e-3))
                        for u in walk_units(seq):
                            if id(u) in before and diff(before[id(u)], snapshot(u.out_profile)):
                                chk.fail('copy-not-independent', f"[{name}] solving a deep copy changed the out profile of {u.label!r} in the original "
                                         f"({'; '.join(diff(before[id(u)], snapshot(u.out_profile))[:3])})", data)
                                return
                    elif op == 'stage':
                        # staged solving: the profile returned by this line is rolled on by a second, separate line with a rotator
                        if not returned:
                            continue
                        second = PassSequence([Rotator(label='stage2-rot', rotation=90), Rotator(label='stage2-rot2', rotation=45)])
                        out = second.solve(returned[-1][1])
                except Exception as e:      # noqa  (the physical models did not solve: nothing to observe)
                    chk.notes.append(f"[{name}] {op}: {type(e).__name__}")
                    continue
                chk.cov['evaluations'] += 1
                if not w.check(chk, f"[{name}] after {' -> '.join(done)}", data):
                    return
                # what was returned earlier stays as it was; what is returned now is watched from here on
                w.add(f"the profile returned to the caller by operation {len(done)} ({op})", out)
                returned.append((op, out))
                # the returned profile is a separate object: not one of the units' profiles
                if any(out is p for _, p in profiles_of(seq)):
                    chk.fail('returned-aliased', f"[{name}] {op} returns a profile object that is still attached to a unit", data)
                    return
            # position by position: a rotator's outgoing classifiers are its incoming ones plus its own tags - nothing a LATER unit added
            tags = {45: 'edged', 90: 'vertical', 180: 'mirrored'}
            for u in walk_units(seq):
                if isinstance(u, Rotator) and getattr(u, 'out_profile', None) is not None and getattr(u, 'in_profile', None) is not None:
                    want_in = None
                    exp = set(u.in_profile.classifiers) | {'rotated'} | ({tags[u.rotation]} if u.rotation in tags else set())
                    own = {'rotated'} | ({tags[u.rotation]} if u.rotation in tags else set())
                    extra = set(u.out_profile.classifiers) - exp
                    foreign = (set(u.in_profile.classifiers) & set(tags.values())) - own
                    # tags of rotations that happen only downstream of this unit must not show up in its incoming profile
                    upstream = set()
                    for v in walk_units(seq):
                        if v is u:
                            break
                        if isinstance(v, Rotator) and v.rotation in tags:
                            upstream.add(tags[v.rotation])
                    leaked = foreign - upstream - set(ip.classifiers)
                    if extra or leaked:
                        chk.fail('set-mutated-in-place', f"[{name}] rotator {u.label!r} (rotation {u.rotation}): its profiles carry classifiers that only a later "
                                 f"unit can have added: {sorted(extra | leaked)} (in: {sorted(u.in_profile.classifiers)}, out: {sorted(u.out_profile.classifiers)})", data)
                        return
            # aliasing between positions: every pass has a roll of its own that names this pass as its owner
            rolls = {}
            for u in walk_units(seq):
                if isinstance(u, RollPass):
                    if id(u.roll) in rolls:
                        chk.fail('roll-shared', f"[{name}] passes {rolls[id(u.roll)].label!r} and {u.label!r} work with the same roll object "
                                 f"(what one solve stores on it shows in the other position)", data)
                        return
                    rolls[id(u.roll)] = u
                    if u.roll.roll_pass is not u:
                        chk.fail('roll-owner', f"[{name}] the roll of pass {u.label!r} names {getattr(u.roll.roll_pass, 'label', None)!r} as its pass", data)
                        return
            # aliasing between positions: no two positions share a Profile object; in-place change of one position's value must not show elsewhere
            seen = {}
            for u, p in profiles_of(seq):
                if id(p) in seen and seen[id(p)] is not u:
                    chk.fail('profile-shared', f"[{name}] units {seen[id(p)].label!r} and {u.label!r} hold the same profile object", data)
                    return
                seen[id(p)] = u
    finally:
        hf.hook.remove_function(hf)


# ------------------------------------------------------------------ deep copies: model vs copy.deepcopy, and the copy measured directly
def deepcopies(chk, rng):
    from pyroll.core import RollPass
    hf = RollPass.Profile.flow_stress(flow_stress)
    cases = []
    try:
        for name, make in layouts(rng):
            for solved in (False, True):
                seq = make()
                if solved:
                    try:
                        seq.solve(incoming())
                    except Exception:      # noqa
                        continue
                roots = [seq] + [u for u in walk_units(seq)][1:3] + [u.roll for u in walk_units(seq) if isinstance(u, RollPass)][:1]
                if solved:
                    roots += [p for _, p in profiles_of(seq)][:2]
                for root in roots:
                    addr, nodes, heap = encode(root)
                    memo = {}
                    c = copy.deepcopy(root, memo)
                    chk.cov['evaluations'] += 1
                    order = [addr[k] for k in memo if k in addr and memo[k] is not nodes[addr[k]]]
                    cases.append((heap, addr[id(root)], order))
                    data = {'layout': name, 'solved': solved, 'root': f"{type(root).__name__} {getattr(root, 'label', '')!r}"}
                    # measured directly: nothing shared, every reference of a copy points to the copy of the original's target
                    orig_ids = {id(o) for o in nodes}
                    caddr, cnodes, cheap = encode(c)
                    shared = [o for o in cnodes if id(o) in orig_ids]
                    if shared:
                        o = shared[0]
                        chk.fail('copy-shares-object', f"[{name}{', solved' if solved else ''}] the deep copy of {data['root']} still reaches the original "
                                 f"{type(o).__name__} {getattr(o, 'label', '')!r} (through one of its parent/owner/unit back-references)", data)
                        return cases
                    for o in nodes:
                        co = memo.get(id(o))
                        if co is None:
                            chk.fail('copy-incomplete', f"[{name}] {type(o).__name__} reachable from {data['root']} was not copied", data)
                            return cases
                        fo, fc = fields_of(o), fields_of(co)
                        if [k for k, _ in fo] != [k for k, _ in fc] or any(memo.get(id(t)) is not tc for (_, t), (_, tc) in zip(fo, fc)):
                            chk.fail('copy-backreference', f"[{name}] in the deep copy of {data['root']} a reference of the copied {type(o).__name__} "
                                     f"{getattr(o, 'label', '')!r} does not point to the copy of its original target", data)
                            return cases
    finally:
        hf.hook.remove_function(hf)
    return cases


ORPHAN_CASES = []


def orphans(chk, rng):
    """objects whose owner is gone (a unit taken out of a sequence that was then dropped, the roll of a dropped pass, a profile returned by a dropped unit):
    a deep copy is made like any other, and its back-reference names nothing, like the original's"""
    import gc
    from pyroll.core import RollPass
    hf = RollPass.Profile.flow_stress(flow_stress)
    try:
        for name, make in layouts(rng):
            seq = make()
            try:
                out = seq.solve(incoming())
            except Exception:      # noqa
                out = None
            units = list(walk_units(seq))[1:]
            rolls = [u.roll for u in units if isinstance(u, RollPass)]
            profs = [p for _, p in profiles_of(seq)][:3] + ([out] if out is not None else [])
            tops = list(seq.units)
            del seq, units
            gc.collect()
            for what, objs, attr in (('unit whose sequence was dropped', 'tops', 'parent'), ('roll whose pass was dropped', 'rolls', 'roll_pass'),
                                     ('profile whose unit was dropped', 'profs', 'unit')):
                if objs == 'tops':
                    objs = tops
                else:
                    tops = None
                    gc.collect()
                    objs = rolls if objs == 'rolls' else profs
                for o in objs:
                    chk.cov['evaluations'] += 1
                    data = {'layout': name, 'kind': 'orphan', 'object': f"{type(o).__name__} {getattr(o, 'label', '')!r}"}
                    try:
                        gone = getattr(o, attr, None) is None
                    except Exception:      # noqa
                        gone = True
                    addr, nodes, heap = encode(o)
                    memo = {}
                    try:
                        c = copy.deepcopy(o, memo)
                        ORPHAN_CASES.append((heap, addr[id(o)], [addr[k] for k in memo if k in addr and memo[k] is not nodes[addr[k]]]))
                    except Exception as e:      # noqa
                        return chk.fail('copy-of-orphan', f"[{name}] deep copy of a {what} ({data['object']}; its {attr} reads {'None' if gone else 'an object'}) raises "
                                        f"{type(e).__name__}: {e}", data)
                    try:
                        cgone = getattr(c, attr, None) is None
                    except Exception:      # noqa
                        cgone = True
                    if gone and not cgone:
                        return chk.fail('copy-of-orphan', f"[{name}] deep copy of a {what} ({data['object']}): the original's {attr} is None, the copy's is not", data)
            del rolls, profs
    finally:
        hf.hook.remove_function(hf)


def own_profile_again(chk):
    """`unit.solve(unit.in_profile)` after an edit (solving one unit of a line again): the profile handed in is an input like any other - it is an already
    produced profile, too - and is not written to; nor are the profiles the earlier run returned"""
    from pyroll.core import RollPass, Roll, CircularOvalGroove, Transport
    hf = RollPass.Profile.flow_stress(flow_stress)
    try:
        for kind in ('pass', 'transport'):
            u = (RollPass(label="p", roll=Roll(groove=CircularOvalGroove(depth=8e-3, r1=6e-3, r2=40e-3), nominal_radius=160e-3, rotational_frequency=1), gap=2e-3, rotation=0)
                 if kind == 'pass' else Transport(label="t", duration=1))
            first = u.solve(incoming())
            given = u.in_profile
            w = Watch()
            w.add("the profile handed to solve (the unit's own in profile of the run before)", given)
            w.add("the profile returned by the run before", first)
            if kind == 'pass':
                u.gap = 3e-3
                u.roll.rotational_frequency = 2
            else:
                u.duration = 5
            chk.cov['evaluations'] += 1
            try:
                u.solve(given)
            except Exception as e:      # noqa
                chk.notes.append(f"own_profile_again {kind}: {type(e).__name__}: {e}") if hasattr(chk, 'notes') else None
                continue
            if not w.check(chk, f"a {type(u).__name__} solved, edited, and solved again with its own in profile", {'case': 'own profile again', 'unit': kind}):
                return
    finally:
        hf.hook.remove_function(hf)


def reused_orphan_roll(chk):
    """a roll taken from a pass of a line that was dropped is a roll template like any other: a new pass built from it works on a copy, solving the new pass
    does not write into the template, and editing the template afterwards does not reach into the solved pass"""
    import gc
    from pyroll.core import RollPass, Roll, CircularOvalGroove, PassSequence
    hf = RollPass.Profile.flow_stress(flow_stress)
    try:
        line = PassSequence([RollPass(label="old", roll=Roll(groove=CircularOvalGroove(depth=8e-3, r1=6e-3, r2=40e-3), nominal_radius=160e-3, rotational_frequency=1), gap=2e-3)])
        line.solve(incoming())
        template = line[0].roll
        del line
        gc.collect()
        w = Watch()
        w.add("the roll taken from the dropped pass (used as template)", template)
        new = RollPass(label="new", roll=template, gap=3e-3)
        new.solve(incoming())
        chk.cov['evaluations'] += 1
        if new.roll is template:
            return chk.fail('side-effect', "a pass built from a roll whose former pass is gone uses that very object as its own roll (a template is copied)",
                            {'case': 'orphan roll as template'})
        if not w.check(chk, "a pass built from the roll of a dropped pass, then solved", {'case': 'orphan roll as template'}):
            return
        before = float(new.roll.nominal_radius)
        template.nominal_radius = 0.5
        if float(new.roll.nominal_radius) != before:
            return chk.fail('side-effect', "editing the template roll after the new pass was solved changes the pass's own roll", {'case': 'orphan roll as template'})
    finally:
        hf.hook.remove_function(hf)


def run(chk):
    try:
        txt, info = mutations_ts.generate()
        chk.x_stats['translator_TS'] = info
        chk.coq.add_text('Gen_mutations.v', txt)
        chk.coq.compile('Gen_mutations.v')
        chk.coq.add_prop_file('C12.v')
        chk.coq.compile('C12.v', is_props=True, timeout=600)
    except Untranslatable as e:
        chk.unshown_add('translator T-S', f"a value-producing function left the recognised fragment: {e}")
    rng = random.Random(chk.seed * 12 + 1200)
    cases = deepcopies(chk, rng)
    if not chk.failures:
        orphans(chk, rng)
    n_plain = len(cases)
    cases = cases + ORPHAN_CASES
    txt = ("From PyrollLib Require Import Heap.\nDefinition cases : list heap_case := [\n" +
           ";\n".join(f"({coq_heap(h)}, {r}%nat, Some [{'; '.join(str(a) + '%nat' for a in order)}])" for h, r, order in cases) + "].\n"
           "Eval vm_compute in (heap_mismatches cases 0).\n")
    chk.coq.add_text('heapcases.v', txt)
    r = chk.coq.compile('heapcases.v', timeout=600)
    bad = []
    if not r['ok']:
        chk.unshown_add("correspondence:heapcases.v", r['err'][-500:])
    else:
        m = re.search(r'=\s*\[(.*?)\]\s*:\s*list nat', r['out'], re.S)
        if not m:
            chk.unshown_add("correspondence:heapcases.v", "unreadable")
        else:
            bad = [int(x) for x in re.findall(r'\d+', m.group(1))]
    chk.x_stats['correspondence_deepcopy'] = {'graphs': len(cases), 'graphs_with_dead_references': sum(1 for c in cases if any(k == 'Dead' for _, fs in c[0] for k, _ in fs)), 'objects': sum(len(c[0]) for c in cases), 'disagreements': len(bad)}
    for i in bad[:3]:
        chk.unshown_add(f"correspondence:heap-case{i}", f"copy.deepcopy memoises the objects of graph {i} (root {cases[i][1]}, {len(cases[i][0])} objects) in the order "
                        f"{cases[i][2]}, the model predicts another order")
    for _ in range(1 if not chk.thorough else 6):
        if not chk.failures:
            histories(chk, rng)
    if not chk.failures:
        own_profile_again(chk)
    if not chk.failures:
        reused_orphan_roll(chk)
    chk.cov['distinct_nontrivial'] += len(cases)
    chk.sample({'layout': 'explicit rotators 45 then 90', 'operations': ['solve', 'stage']})
    chk.cov['rule'] = ("six layouts (flat, disk elements, nested sequences, rotators 45/90/180 in a row, cooling pipe), each with a random order of: solve, "
                       "re-solve with another profile, edit a later pass and re-solve, deep copy and solve the copy, re-solve with the same profile, roll the "
                       "returned profile on through a second line with rotators; after every operation identity+value snapshots of the caller's profiles, "
                       "the grooves, every profile returned earlier, and every set attached to them; deep copies of whole sequences, inner units, rolls and "
                       "profiles (solved and unsolved): memoisation order vs the model by vm_compute, no shared object, every strong and weak reference "
                       "of a copy points to the copy of its original target")
    chk.trusted += ["translator T-S (tools/py2coq/mutations_ts.py): flow-insensitive classification of binds as fresh/aliasing and of in-place mutations, over "
                    "the functions found in the live hook registry; method names and constructor names it knows are listed in the file",
                    "Heap.v is hand-written; tied by the memoisation order of copy.deepcopy on real object graphs"]
    chk.assumptions += ["that Unit.solve writes only unit-owned objects is decided by the snapshots (partial); weak references are modelled as references (liveness "
                        "of their targets is not)"]


def replay(data):
    print(json.dumps(data, indent=1, default=str)[:2000])
    return 1
