"""C05 - solve is bounded, reports convergence honestly and is reproducible."""
import copy
import os
import json
import logging
import math
import random
import re
from fractions import Fraction

import numpy as np


class LogGrab(logging.Handler):
    def __init__(self):
        super().__init__(level=logging.DEBUG)
        self.records = []

    def emit(self, record):
        self.records.append(record)


def grab():
    h = LogGrab()
    lg = logging.getLogger("pyroll")
    old = lg.level
    lg.setLevel(logging.INFO)
    lg.addHandler(h)
    return h, lg, old


# ---- rendering -------------------------------------------------------------------------------------
def cnum(x):
    if isinstance(x, float) and math.isnan(x):
        return "NaN"
    if x == float('inf'):
        return "PInf"
    if x == float('-inf'):
        return "NInf"
    f = Fraction(x)
    return f"(Fin ({f.numerator} # {f.denominator}))"


def cvec(v):
    return "[" + "; ".join(cnum(float(x)) for x in v) + "]"


def cstored(s):
    if s is None:
        return "SNan"
    return f"(SVec {cvec(s)})"


def citer(it):
    return "IRaise" if it == 'raise' else f"(IVec {cvec(it)})"


def cq(x):
    f = Fraction(x)
    return f"({f.numerator} # {f.denominator})"


# ---- scripted unit ------------------------------------------------------------------------------------
def make_scripted():
    from pyroll.core import Unit

    class Scripted(Unit):
        def get_root_hook_results(self):
            it = self.script[self.k]
            self.k += 1
            if it == 'raise':
                raise KeyError("scripted failure")
            return np.array(it, dtype=float)
    return Scripted


CRASHES = []


def run_scripted(prec, maxit, scripts):
    """runs len(scripts) solves on one unit; returns list of (outcome term, stored, evaluations)"""
    from pyroll.core import Profile
    Scripted = make_scripted()
    u = Scripted(label="s", max_iteration_count=maxit, iteration_precision=prec)
    ip = Profile.round(radius=1, length=1, t=0, strain=0, temperature=1000, material="m")
    obs = []
    for script in scripts:
        u.script, u.k = list(script) + ['raise'] * 3, 0
        h, lg, old = grab()
        try:
            try:
                u.solve(ip)
                fin = [r for r in h.records if 'Finished solving' in r.getMessage()]
                warn = [r for r in h.records if 'exceeded the maximum iteration count' in r.getMessage()]
                if warn and not fin:
                    out = "Warned"
                elif fin and not warn:
                    out = f"(Converged {int(re.search(r'after (\d+) iterations', fin[-1].getMessage()).group(1))}%nat)"
                else:
                    out = "(Converged 0%nat)"    # neither or both: never produced by the model
            except KeyError:
                out = f"(Raised {u.k}%nat)"
            except ValueError:
                out = f"(ShapeError {u.k}%nat)"
            except Exception as e:      # noqa  (nothing in the script raises anything else: the solve itself failed)
                out = "(Converged 0%nat)"
                CRASHES.append((prec, maxit, [list(map(str, sc)) if sc != 'raise' else sc for sc in scripts], len(obs) + 1, f"{type(e).__name__}: {e}"))
        finally:
            lg.removeHandler(h)
            lg.setLevel(old)
        st = u._old_results
        stored = None if (np.ndim(st) == 0) else [float(x) for x in st]
        obs.append((out, stored, u.k))
    return obs


D = [0.0, 1.0, 2.0, 4.0, 5.0, 8.0, 10.5, 0.5, -4.0, -5.0, 1024.0, 1025.0, 3.75]


def gen_script(rng, maxit, kind):
    n = maxit + 2
    L = rng.choice([0, 1, 1, 2, 3])
    if kind == 'converging':
        k = rng.randint(1, max(1, maxit))
        base = [rng.choice(D) for _ in range(L)]
        s = [[x + (k - i) * rng.choice([1.0, 2.0, 0.5]) for x in base] if i < k else list(base) for i in range(n)]
    elif kind == 'boundary':
        # |cur-old| == |old|*prec exactly in one component (prec = 1/4 or 1/8), others equal
        base = [rng.choice([4.0, 8.0, -8.0, 16.0, 0.0]) for _ in range(max(1, L))]
        s = [list(base)]
        for i in range(1, n):
            prev = s[-1]
            j = rng.randrange(len(prev))
            cur = list(prev)
            cur[j] = prev[j] + abs(prev[j]) * rng.choice([0.25, 0.125, 0.25 + 1 / 64, -0.25, 0.0])
            s.append(cur)
    elif kind == 'small':
        # persisted results of small magnitude (dyadic, 2^-40 scale): only a RELATIVE test separates them
        base = [rng.choice([1.0, 3.0, 5.0]) * 2.0 ** -40 for _ in range(max(1, L))]
        s = [[x * (1 + (n - i) * 0.5) for x in base] for i in range(n)]
    elif kind == 'oscillating':
        a = [rng.choice(D) for _ in range(L)]
        b = [x + rng.choice([1.0, 100.0]) for x in a]
        s = [a if i % 2 == 0 else b for i in range(n)]
    elif kind == 'special':
        s = [[rng.choice(D + [float('nan'), float('inf'), float('-inf'), 0.0, 0.0]) for _ in range(L)] for _ in range(n)]
        for i in range(1, n):
            if rng.random() < 0.5:
                s[i] = list(s[i - 1])
    elif kind == 'shapes':
        s = [[rng.choice(D) for _ in range(rng.choice([0, 1, 2, 2, 3]))] for _ in range(n)]
    else:  # raising
        s = [[rng.choice(D) for _ in range(L)] for _ in range(n)]
        s[rng.randrange(n)] = 'raise'
    return s


def ref_close(old, cur, prec):
    """the relative test in exact arithmetic, written from the property text (finite numbers only)"""
    return all(abs(Fraction(c) - Fraction(o)) <= abs(Fraction(o)) * Fraction(prec) for o, c in zip(old, cur))


def scripted_oracle(chk, prec, maxit, scripts, obs, j=0):
    """property on one solve of a unit (the first on a fresh unit, j = 0, or a later one on the same unit): bounded; no warning only if two
    consecutive iterates OF THIS SOLVE agree; a solve that neither reports convergence nor warns (and did not raise) ended silently"""
    out, stored, k = obs[j]
    script = scripts[j]
    which = "" if j == 0 else f"solve {j + 1} of the same unit: "
    data = {'precision': prec, 'max_iteration_count': maxit, 'script': script} if j == 0 else \
        {'precision': prec, 'max_iteration_count': maxit, 'scripts': scripts[:j + 1], 'solve': j + 1}
    if k > maxit:
        chk.fail('bound', f"{which}{k} iterations with max_iteration_count={maxit}", data)
        return
    if out.startswith('(Raised') or out.startswith('(ShapeError'):
        return
    vecs = script[:k]
    finite = all(v != 'raise' and all(math.isfinite(x) for x in v) for v in vecs) and len({len(v) for v in vecs if v != 'raise'}) <= 1
    if not finite or not vecs or not vecs[0]:
        return
    if out == '(Converged 0%nat)':
        chk.fail('silent-non-convergence', f"{which}ended after {k} iterations without reporting convergence and without the non-convergence warning", data)
        return
    m = re.match(r'\(Converged (\d+)', out)
    if m:
        i = int(m.group(1))
        if i < 2 or not ref_close(vecs[i - 2], vecs[i - 1], prec):
            if not chk.failures:
                chk.fail('honest-convergence', f"{which}finished after {i} iteration(s) without the warning although "
                         + ("a single iterate has no predecessor in this solve to agree with" if i < 2 else f"iterates {i - 1} and {i} do not agree within {prec}"), data)
    elif out == 'Warned':
        for i in range(2, k + 1):
            if ref_close(vecs[i - 2], vecs[i - 1], prec):
                chk.fail('spurious-warning', f"{which}warned although iterates {i - 1} and {i} agree within {prec}", data)
                return


def scripted_oracle_later(chk, prec, maxit, scripts, obs):
    """every LATER solve of the same unit (histories) is judged like the first: nothing a previous solve remembered counts as an iterate"""
    for j in range(1, len(obs)):
        if chk.failures:
            return
        scripted_oracle(chk, prec, maxit, scripts, obs, j)


def root_vector_oracle(chk, rng):
    """'all persisted result values': the vector a unit compares from iteration to iteration holds every numeric element of every root hook result -
    scalars of any numeric type, and every element of arrays and lists of any shape; non-numeric results contribute nothing"""
    from typing import Any
    from pyroll.core.hooks import Hook, HookHost, root_hooks

    class K(HookHost):
        a = Hook[Any](); b = Hook[Any](); c = Hook[Any](); d = Hook[Any](); e = Hook[Any](); f = Hook[Any](); g = Hook[Any](); s = Hook[Any]()
    n = rng.randint(2, 6)
    vals = dict(a=1.5, b=np.arange(1.0, n + 1.0), c=[4.0, 5.0], d="text", e=np.array([[1.0, 2.0], [3.0, 4.0]]), f=7, g=np.float64(2.5), s={"x"})
    expect = [1.5] + list(np.arange(1.0, n + 1.0)) + [4.0, 5.0, 1.0, 2.0, 3.0, 4.0, 7.0, 2.5]
    for name, v in vals.items():
        getattr(K, name)(lambda self, v=v: v)
    saved = list(root_hooks)
    root_hooks[:] = [getattr(K, name) for name in vals]
    try:
        got = [float(x) for x in K().evaluate_and_set_hooks()]
    except Exception as e:      # noqa
        got = f"{type(e).__name__}: {e}"
    finally:
        root_hooks[:] = saved
    # ... non-finite elements are elements, too: a NaN or an infinite entry agrees with nothing, so it must stay in the vector that is compared
    class K2(HookHost):
        a = Hook[Any](); b = Hook[Any](); c = Hook[Any](); e = Hook[Any]()
    vals2 = dict(a=float('nan'), b=np.array([1.0, float('nan'), float('inf')]), c=[float('-inf'), 2.0], e=np.array([[float('nan'), 2.0], [3.0, float('-inf')]]))
    expect2 = ['nan', '1.0', 'nan', 'inf', '-inf', '2.0', 'nan', '2.0', '3.0', '-inf']
    for name, v in vals2.items():
        getattr(K2, name)(lambda self, v=v: v)
    root_hooks[:] = [getattr(K2, name) for name in vals2]
    try:
        import warnings as _w
        with _w.catch_warnings():
            _w.simplefilter("ignore")
            got2 = [repr(float(x)) for x in K2().evaluate_and_set_hooks()]
    except Exception as e:      # noqa
        got2 = f"{type(e).__name__}: {e}"
    finally:
        root_hooks[:] = saved
    chk.cov['evaluations'] += 1
    if got2 != expect2 and got == expect:
        return chk.fail('result-vector', f"root hooks with results {vals2}: the vector of persisted values compared between iterations is {got2}, every numeric element "
                        f"(non-finite ones included: they agree with nothing) gives {expect2}", {'results': {k: repr(v) for k, v in vals2.items()}})
    chk.cov['evaluations'] += 1
    if got != expect:
        chk.fail('result-vector', f"root hooks with results {vals}: the vector of persisted values compared between iterations is {got}, every numeric element "
                 f"gives {expect}", {'results': {k: repr(v) for k, v in vals.items()}})


# ---- real sequences: supporting runs ------------------------------------------------------------------------
FAULT = {'present': False, 'countdown': None}


def flow_stress(self):
    if FAULT['present']:
        if FAULT['countdown'] is None or FAULT['countdown'] <= 0:
            raise ConnectionError("injected fault")
        FAULT['countdown'] -= 1
    return 50e6 * (1 + self.strain) ** 0.2 * self.roll_pass.strain_rate ** 0.1


def spread_width(self, cycle):
    """a width model in the usual plug-in style (cycle aware) that feeds results back into inputs"""
    if cycle:
        return None
    rp = self.roll_pass
    softness = (100e6 / rp.in_profile.flow_stress) ** 0.05
    return rp.in_profile.width * rp.draught ** (-0.5 * softness)


def stuck_flags():
    from py2coq import hookimpls as H
    out = []
    for c in H.all_hookhost_classes():
        for n in c.__hooks__:
            for hf in getattr(c, n).functions:
                if hf.cycle:
                    out.append(f"{c.__qualname__}.{n}:{hf.name}")
    return sorted(set(out))


def make_sequence():
    from pyroll.core import Roll, RollPass, Transport, RoundGroove, CircularOvalGroove, PassSequence
    return PassSequence([
        RollPass(label="Oval I", roll=Roll(groove=CircularOvalGroove(depth=8e-3, r1=6e-3, r2=40e-3), nominal_radius=160e-3,
                                           rotational_frequency=1, neutral_point=-20e-3), gap=2e-3),
        Transport(label="I => II", duration=1),
        RollPass(label="Round II", roll=Roll(groove=RoundGroove(r1=1e-3, r2=12.5e-3, depth=11.5e-3), nominal_radius=160e-3,
                                             rotational_frequency=1), gap=2e-3),
    ])


def numeric_state(seq):
    out = []
    for u in seq.units:
        for prof in (u.in_profile, u.out_profile):
            for k in ('length', 't', 'strain'):
                out.append(float(getattr(prof, k)))
            out.append(float(prof.cross_section.area))
    return out


def reconfigured_limit_oracle(chk):
    """'at most the configured number of iterations': a unit that was solved before follows the limit configured at the time of the new solve
    (an explicit max_iteration_count on the unit, or the configured default), not the one it remembered from the previous solve"""
    from pyroll.core import Profile, PassSequence, Transport, Config
    seq = PassSequence([Transport(label='t1', duration=1), Transport(label='t2', duration=2)], label='line')
    mk = lambda d: Profile.round(diameter=d, temperature=1473.15, strain=0, material="C45", length=1, flow_stress=100e6)      # noqa
    seq.solve(mk(30e-3))
    saved = Config.DEFAULT_MAX_ITERATION_COUNT
    h, lg, old = grab()
    try:
        Config.DEFAULT_MAX_ITERATION_COUNT = 1      # range(1, 1): no iteration fits any more, every solve of every unit has to warn
        seq.solve(mk(20e-3))
        fin = [r.getMessage() for r in h.records if 'Finished solving' in r.getMessage()]
    finally:
        Config.DEFAULT_MAX_ITERATION_COUNT = saved
        lg.removeHandler(h)
        lg.setLevel(old)
    chk.cov['evaluations'] += 1
    if fin:
        chk.fail('stale-iteration-limit', f"PassSequence([Transport, Transport]) solved once, the default iteration limit lowered to 1, solved again: "
                 f"{len(fin)} unit solve(s) still iterate and report convergence ({fin[0]!r}) - the limit remembered from the first solve is used", {})


def real_runs(chk):
    from pyroll.core import Profile, RollPass, Unit
    ip = lambda: Profile.round(diameter=30e-3, temperature=1473.15, material=["C45", "steel"], length=1)
    recorded = {}
    orig = Unit.get_root_hook_results

    def rec(self):
        r = orig(self)
        recorded.setdefault(id(self), []).append(np.array(r, dtype=float))
        return r
    with RollPass.Profile.flow_stress(flow_stress):
        s1 = make_sequence()
        h, lg, old = grab()
        try:
            # patch every class that overrides get_root_hook_results
            patched = []
            for cls in [Unit] + [c for c in _all_subclasses(Unit) if 'get_root_hook_results' in c.__dict__]:
                o = cls.__dict__['get_root_hook_results']
                patched.append((cls, o))

                def mk(o):
                    def rec2(self):
                        r = o(self)
                        recorded.setdefault(id(self), []).append(np.array(r, dtype=float))
                        return r
                    return rec2
                setattr(cls, 'get_root_hook_results', mk(o))
            s1.solve(ip())
        finally:
            for cls, o in patched:
                setattr(cls, 'get_root_hook_results', o)
            lg.removeHandler(h)
            lg.setLevel(old)
        # honest convergence on the recorded vectors of every unit solve
        warned = [r.getMessage() for r in h.records if 'exceeded' in r.getMessage()]
        for u in [s1] + s1.units:
            vecs = recorded.get(id(u), [])
            prec = u.iteration_precision
            if len(vecs) >= 2 and not any(str(u) in w for w in warned):
                a, b = vecs[-2], vecs[-1]
                if a.shape == b.shape and not np.all(np.abs(b - a) <= np.abs(a) * prec):
                    chk.fail('real-convergence', f"{u}: finished without warning but the last two iterates differ by more than {prec}", {'unit': str(u)})
            chk.cov['evaluations'] += 1
        base = numeric_state(s1)
        # identical fresh twin and deep copy give identical results
        s2 = make_sequence()
        s2.solve(ip())
        if numeric_state(s2) != base:
            chk.fail('reproducible-fresh', "an identical fresh sequence gives different results", {})
        s3 = copy.deepcopy(make_sequence())
        s3.solve(ip())
        if numeric_state(s3) != base:
            chk.fail('reproducible-deepcopy', "a deep-copied sequence gives different results", {})
        # solving again: within the precision
        s1.solve(ip())
        again = numeric_state(s1)
        prec = 1e-3
        if any(abs(a - b) > 5 * prec * max(abs(b), 1e-12) for a, b in zip(again, base)):
            chk.fail('resolve', "solving the same sequence again changes results by more than the precision", {})
        # the same with a cycle-aware spread model whose input (flow stress) fails at different depths of the evaluation
        with RollPass.OutProfile.width(spread_width):
            ref = make_sequence()
            ref.solve(ip())
            ref_state = numeric_state(ref)
            for countdown in ([None, 0, 3, 11] if not chk.thorough else [None] + list(range(0, 40, 3))):
                sx = make_sequence()
                FAULT['present'], FAULT['countdown'] = True, countdown
                try:
                    sx.solve(ip())
                    aborted_x = False
                except Exception:
                    aborted_x = True
                finally:
                    FAULT['present'], FAULT['countdown'] = False, None
                flags = stuck_flags()
                if flags and not chk.failures:
                    chk.fail('abort-flags', f"after a solve aborted by an exception (fault after {countdown} evaluations) cycle flags stay set: {flags[:4]}",
                             {'countdown': countdown})
                    for c in __import__('py2coq.hookimpls', fromlist=['x']).all_hookhost_classes():
                        for n in c.__hooks__:
                            for hf in getattr(c, n).functions:
                                hf.cycle = False
                    break
                # the aborted sequence is inspected (as one does after a failure: repr of the sequence, its units and their profiles) and solved again
                from common import look_at
                for obj in [sx] + [x for u_ in sx.units for x in (u_, getattr(u_, 'in_profile', None), getattr(u_, 'out_profile', None)) if x is not None]:
                    look_at(obj, html=False)
                sx.solve(ip())
                if aborted_x and any(abs(a - b) > 5 * prec * max(abs(b), 1e-12) for a, b in zip(numeric_state(sx), ref_state)):
                    if not chk.failures:
                        chk.fail('abort-recovery', f"after an aborted solve (fault after {countdown} evaluations) the sequence solves to different results than a fresh one",
                                 {'countdown': countdown})
                    break
                fresh = make_sequence()
                fresh.solve(ip())
                if numeric_state(fresh) != ref_state and not chk.failures:
                    chk.fail('abort-poisons-fresh', "a fresh sequence solved after an aborted one differs from the reference", {'countdown': countdown})
                    break
                chk.cov['evaluations'] += 1
        # a solve aborted by an exception leaves the sequence usable
        s4 = make_sequence()
        state = {'n': 0, 'armed': True}

        def bomb(self):
            state['n'] += 1
            if state['armed'] and state['n'] == 7:
                raise KeyError("injected")
            return None
        from pyroll.core import Profile as _FarBase       # registered on the far base class of all profiles (as a plug-in would), removed there again
        hf = _FarBase.flow_stress(bomb, tryfirst=True)
        try:
            try:
                s4.solve(ip())
                aborted = False
            except Exception:
                aborted = True
        finally:
            _FarBase.flow_stress.remove_function(hf)
        from pyroll.core.hooks import HookFunction
        if not aborted and not chk.failures:
            chk.fail('late-registration', f"an implementation registered (tryfirst) on Profile.flow_stress - the far base class of every profile - after other sequences had been "
                     f"solved was consulted {state['n']} times during a solve (it raises at its 7th call): registrations on base classes must reach every subclass at once",
                     {'registered_on': 'Profile.flow_stress'})
        s4.solve(ip())
        after = numeric_state(s4)
        if aborted and any(abs(a - b) > 5 * prec * max(abs(b), 1e-12) for a, b in zip(after, base)):
            chk.fail('abort-recovery', "after an aborted solve the sequence does not solve to the results of a fresh one", {})
        chk.cov['evaluations'] += 4
        chk.notes.append(f"real sequence: twin/deepcopy bit-identical, re-solve within 5*precision, abort injected={aborted} then recovered")


def hash_seed_twins(chk):
    """the same input gives the same result in every interpreter: nothing may depend on the iteration order of sets of strings (PYTHONHASHSEED)"""
    import subprocess, sys as _sys
    from common import REPO
    code = (
        "import sys; sys.path.insert(0, %r); sys.path.insert(0, %r); sys.path.insert(0, %r)\n"
        "from props import c05\n"
        "from pyroll.core import RollPass\n"
        "with RollPass.Profile.flow_stress(c05.flow_stress), RollPass.OutProfile.width(c05.spread_width):\n"
        "    s = c05.make_sequence(); s.solve(c05.ip_twin()); s.solve(c05.ip_twin())\n"
        "print(repr([float(x).hex() for x in c05.numeric_state(s)]))\n") % (REPO, os.path.dirname(os.path.dirname(os.path.abspath(__file__))),
                                                                          os.path.dirname(os.path.abspath(__file__)))
    outs = {}
    for seed in ('0', '1', '17', '4242'):
        env = dict(os.environ, PYTHONHASHSEED=seed, PYTHONPATH=REPO)
        r = subprocess.run([_sys.executable, '-c', code], capture_output=True, text=True, env=env, timeout=300)
        chk.cov['evaluations'] += 1
        if r.returncode != 0:
            chk.notes.append(f"hash-seed twin {seed}: {r.stderr[-200:]}")
            return
        outs[seed] = r.stdout.strip().splitlines()[-1]
    if len(set(outs.values())) > 1:
        import ast as _ast
        vals = {k: [float.fromhex(x) for x in _ast.literal_eval(v)] for k, v in outs.items()}
        a, b = vals['0'], next(v for v in vals.values() if v != vals['0'])
        dev = max(abs(x - y) / max(abs(x), 1e-300) for x, y in zip(a, b))
        chk.fail('hash-seed', f"the same sequence solved (twice) with the same incoming profile gives different results under different PYTHONHASHSEED values "
                 f"(max relative deviation {dev:.3g}): some step depends on the iteration order of a set", {'seeds': list(outs)})


def ip_twin():
    from pyroll.core import Profile
    return Profile.round(diameter=30e-3, temperature=1473.15, material=["C45", "steel"], length=1)


def _all_subclasses(c):
    out = []
    for s in c.__subclasses__():
        out.append(s)
        out += _all_subclasses(s)
    return out


def short_lived_implementations(chk):
    """implementations registered for one read and dropped (their addresses are re-used by the next one), alternately with and without the `cycle`
    parameter: every one is called the way its own signature asks for - an identical fresh computation gives the identical result"""
    import gc
    from typing import Any
    from pyroll.core.hooks import Hook, HookHost

    class K(HookHost):
        v = Hook[Any]()
    for i in range(80):
        if i % 2:
            def f(self, i=i):
                return 10 + i
            want = 10 + i
        else:
            def f(self, cycle, i=i):
                return None if cycle else 20 + i
            want = 20 + i
        chk.cov['evaluations'] += 1
        try:
            with K.v(f):
                got = K().v
        except Exception as e:      # noqa
            got = f"{type(e).__name__}: {e}"
        del f
        gc.collect()
        if got != want:
            return chk.fail('reproducible', f"implementations registered for one read and dropped, alternately with and without the cycle parameter: number {i} "
                            f"({'plain' if i % 2 else 'cycle-aware'}) gives {got!r}, expected {want}", {'case': 'short-lived implementations', 'i': i})


def run(chk):
    chk.coq.add_prop_file('C05.v')
    chk.coq.compile('C05.v', is_props=True, timeout=300)
    rng = random.Random(chk.seed * 509 + 5)
    n = 4000 if chk.thorough else 600
    kinds = ['converging', 'boundary', 'oscillating', 'special', 'shapes', 'raising', 'small']
    rendered, cases, dist = [], [], {}
    for i in range(n):
        kind = kinds[i % len(kinds)]
        maxit = rng.choice([0, 1, 2, 3, 4, 5, 8])
        prec = rng.choice([0.25, 0.125, 1 / 1024])
        scripts = [gen_script(rng, maxit, kind) for _ in range(rng.choice([1, 1, 2, 3]))]
        obs = run_scripted(prec, maxit, scripts)
        cases.append((prec, maxit, scripts))
        dist[kind] = dist.get(kind, 0) + 1
        chk.cov['evaluations'] += 1
        if CRASHES:
            pr, mi, sc, which, what = CRASHES[0]
            chk.fail('solve-raises', f"solve {which} of a unit with max_iteration_count={mi}, iteration_precision={pr} raises {what} instead of returning a profile "
                     "(with or without the non-convergence warning)", {'precision': pr, 'max_iteration_count': mi, 'scripts': sc})
            break
        scripted_oracle(chk, prec, maxit, scripts, obs)
        if not chk.failures:
            scripted_oracle_later(chk, prec, maxit, scripts, obs)
        items = "; ".join(f"([{'; '.join(citer(it) for it in list(sc) + ['raise'] * 3)}], {o}, {cstored(st)}, {k}%nat)"
                          for sc, (o, st, k) in zip(scripts, obs))
        rendered.append(f"({cq(prec)}, {maxit}%nat, [{items}])")
    chk.cov['distinct_nontrivial'] += len({json.dumps(c, default=str) for c in cases})
    chk.sample({'precision': cases[1][0], 'max_iteration_count': cases[1][1], 'scripts': str(cases[1][2])[:400]})
    name = "scases.v"
    chk.coq.add_text(name, "From PyrollLib Require Import SolveLoop.\nOpen Scope Q_scope.\n"
                     "Definition cases : list (Q * nat * list (list iter * outcome * stored * nat)) := [\n" + ";\n".join(rendered) +
                     "].\nEval vm_compute in (smismatches cases 0).\n")
    r = chk.coq.compile(name, timeout=900)
    bad = []
    if not r['ok']:
        chk.unshown_add("correspondence:" + name, r['err'][-600:])
    else:
        m = re.search(r'=\s*\[(.*?)\]\s*:\s*list nat', r['out'], re.S)
        bad = [int(x) for x in re.findall(r'\d+', m.group(1))] if m else []
        if not m:
            chk.unshown_add("correspondence:" + name, "unreadable result")
    chk.x_stats['correspondence'] = {'scripted_units': n, 'script_kinds': dist, 'disagreements': len(bad)}
    for i in bad[:3]:
        chk.unshown_add(f"correspondence:case{i}", "model and implementation disagree on " + str(cases[i])[:800])
    # a deviation from the loop model alone is not promoted to a failing input: the model fixes details (exactly
    # max_iteration_count - 1 iterations) that the property leaves open
    if not chk.failures:
        root_vector_oracle(chk, rng)
    if not chk.failures:
        short_lived_implementations(chk)
    if not chk.failures:
        reconfigured_limit_oracle(chk)
    real_runs(chk)
    if not chk.failures:
        hash_seed_twins(chk)
    chk.cov['rule'] = ("scripted units (root-hook result vectors follow a generated script of dyadic numbers: converging, exact-boundary, "
                       "oscillating, nan/inf, changing shapes, raising), 1-3 consecutive solves per unit, iteration limits 0-8, dyadic "
                       "precisions; compared: outcome, iteration count, stored vector; plus one real three-unit sequence (recorded iterates, "
                       "fresh twin, deep copy, re-solve, abort and recovery)")
    chk.trusted += ["correspondence harness tools/props/c05.py (scripted Unit subclass overriding get_root_hook_results)"]
    chk.assumptions += ["reproducibility (identical twin, deep copy, re-solve within precision, recovery after an abort) concerns the numerical "
                        "iteration map and is exercised on the implementation only - partial, not a theorem",
                        "on a re-solve the first test compares with the vector stored by the previous solve (its last non-converged iterate)"]


def replay(data):
    print(json.dumps(data, indent=1)[:2000])
    return 1
