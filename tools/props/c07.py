"""C07 - failed hook evaluation raises the documented error and leaves no residue."""
import json
import random

from xcheck import hookx as X

LEAVES = [('none',), ('inf',), ('nan',), ('int', 4), ('int', 0), ('bool', True), ('opq', 0), ('opq', 1), ('opq', 2),
          ('list', [('int', 1), ('nan',)]), ('list', [('int', 1), ('int', 2)]), ('list', [('inf',)]), ('list', []),
          ('list', [('nan',), ('none',)]), ('list', [('opq', 0), ('inf',)]), ('list', [('none',), ('opq', 3)]),
          ('fn0', ('int', 7)), ('fn1', ('int', 8))]
EXCS = ['EAttr', 'EValue', 'EKey', 'EZeroDiv', 'ECustom', 'EType']


def gen_group_case(rng, thorough):
    """mutually defined hooks guarded by the cycle flag and has_value (the pattern of Unit.length/duration,
    Roll.rotational_frequency/surface_velocity/working_velocity), with too little or enough data"""
    k = rng.randint(2, 4)
    hier = [([], [])]
    ops = [('newobj', 0, 0)]
    nid = 0
    for a in range(k):
        others = [b for b in range(k) if b != a]
        rng.shuffle(others)
        body = ('const', ('none',))
        for b in others[:rng.randint(1, len(others))]:
            body = ('ifhas', 'HasValue', 'self', b, ('add', ('read', 'self', b), ('const', ('int', 10 * (a + 1)))), body)
        prog = ('ifcycle', ('const', ('none',)), body)
        ops.append(('register', nid, dict(owner=0, hook=a, tier=1, wrapper=False, guarded=False, post=None, prog=prog)))
        nid += 1
    supplied = rng.sample(range(k), rng.choice([0, 0, 1, 1, 2]) if k > 2 else rng.choice([0, 1]))
    for a in supplied:
        ops.append(('assign', 0, a, ('int', 1000 * (a + 1))))
    for _ in range(rng.randint(2, 8)):
        ops.append(('read', 0, rng.randrange(k)))
        if rng.random() < 0.3:
            ops.append(('has', 'HasValue', 0, rng.randrange(k)))
    return dict(hier=hier, nhooks=k, ops=ops, cmp_trace=True)


def gen_reentry_case(rng, thorough):
    """a failure passes through a RE-ENTERED invocation of an implementation while the outer invocation of the same implementation is
    still running and goes on reading: the outer invocation's cycle flag must survive the failure
        a := if cycle: <fails> else: try(read b, (read c) + 1)      b := read a      c := try(read a, 77)
    (hook f has no implementation: reading it is the failure)"""
    hier = rng.choice([[([], [])], [([], []), ([0], [])]])
    perm = list(range(4))
    rng.shuffle(perm)
    a, b, c, f = perm
    ops = [('newobj', 0, len(hier) - 1)]
    fail = rng.choice([('read', 'self', f), ('add', ('read', 'self', f), ('const', ('int', 1))), ('seq', ('const', ('int', 3)), ('read', 'self', f))])
    runaway = rng.random() < 0.35
    if runaway:
        # the failure is a runaway recursion that starts INSIDE a re-entered evaluation of a (directly a -> a -> ..., or a -> b -> a -> ...)
        # while the outer invocation of a is still on the stack: every nested read must fail with AttributeError, so the handlers of the
        # outer invocation and of c (which sit at shallow depth) see the documented error
        fail = rng.choice([('read', 'self', a), ('add', ('read', 'self', a), ('const', ('int', 1))), ('read', 'self', b)])
    extra = rng.randint(0, 3)
    second = ('add', ('read', 'self', c), ('const', ('int', 1)))
    for _ in range(extra):          # several reads after the caught failure
        second = ('add', ('read', 'self', c), second)
    first = ('read', 'self', b) if not runaway or rng.random() < 0.5 else ('read', 'self', f)
    progs = {a: ('ifcycle', fail, ('try', first, second)),
             b: rng.choice([('read', 'self', a), ('add', ('read', 'self', a), ('const', ('int', 2)))]),
             c: ('try', ('read', 'self', a), ('const', ('int', 77)))}
    nid = 0
    for hk in rng.sample([a, b, c], 3):
        ops.append(('register', nid, dict(owner=rng.randrange(len(hier)), hook=hk, tier=1, wrapper=False, guarded=False, post=None, prog=progs[hk])))
        nid += 1
    for _ in range(rng.randint(2, 6)):
        ops.append(('read', 0, rng.choice([a, a, b, c, f])))
    return dict(hier=hier, nhooks=4, ops=ops, cmp_trace=not runaway)


def gen_case(rng, thorough):
    r0 = rng.random()
    if r0 < 0.12:
        return gen_reentry_case(rng, thorough)
    if r0 < 0.4:
        return gen_group_case(rng, thorough)
    nhooks = rng.randint(3, 8)
    hier = rng.choice([[([], [])], [([], []), ([0], [])]])
    ncls = len(hier)
    nobj = rng.randint(1, 2)
    ops = [('newobj', o, ncls - 1) for o in range(nobj)]
    nid = 0
    runaway = rng.random() < 0.2
    # a chain h0 -> h1 -> ... -> h(depth); leaf kind random; a raise injected at a random level
    depth = rng.randint(1, min(6, nhooks - 1))
    inject = rng.randint(0, depth) if rng.random() < 0.6 else None
    for lvl in range(depth + 1):
        tgt = 'self' if rng.random() < 0.8 or nobj == 1 else rng.randrange(nobj)
        if lvl == depth:
            prog = ('const', rng.choice(LEAVES))
        else:
            inner = ('read', tgt, lvl + 1)
            form = rng.random()
            if form < 0.4:
                prog = inner
            elif form < 0.6:
                prog = ('add', inner, ('const', ('int', 1)))
            elif form < 0.75:
                prog = ('try', inner, ('const', ('int', 50 + lvl)))
            elif form < 0.9:
                prog = ('ifhas', 'HasValue', tgt, lvl + 1, inner, ('const', ('int', 70 + lvl)))
            else:
                prog = ('seq', inner, ('const', ('int', 90 + lvl)))
        if inject == lvl:
            e = rng.choice(EXCS)
            prog = ('seq', prog, ('raise', e)) if rng.random() < 0.5 and lvl < depth else ('raise', e)
        ops.append(('register', nid, dict(owner=rng.randrange(ncls), hook=lvl, tier=1, wrapper=False, guarded=False,
                                          post=None, prog=prog)))
        nid += 1
        if rng.random() < 0.25:   # a second, lower-priority implementation that would give a value
            ops.append(('register', nid, dict(owner=0, hook=lvl, tier=2, wrapper=False, guarded=False, post=None,
                                              prog=('const', ('int', 30 + lvl)))))
            nid += 1
    cmp_trace = True
    stack_pad = 0
    if runaway and nhooks - depth - 1 >= 2:
        a, b = depth + 1, depth + 2
        pa = ('add', ('read', 'self', b), ('const', ('int', 1)))
        if nhooks - depth - 1 >= 3 and rng.random() < 0.7:
            # at every level of the runaway recursion a fresh implementation (of hook c, which never yields a
            # value and is therefore never remembered) is probed: the recursion limit can strike inside its call
            c = depth + 3
            pa = ('ifhas', 'HasValue', 'self', c, ('read', 'self', b), pa)
            ops.append(('register', nid, dict(owner=0, hook=c, tier=1, wrapper=False, guarded=False, post=None,
                                              prog=('ifcycle', ('const', ('int', 100)), ('const', ('none',)))))); nid += 1
            stack_pad = rng.randrange(0, 40)
        ops.append(('register', nid, dict(owner=0, hook=a, tier=1, wrapper=False, guarded=False, post=None, prog=pa))); nid += 1
        ops.append(('register', nid, dict(owner=0, hook=b, tier=1, wrapper=False, guarded=False, post=None,
                                          prog=('read', 'self', a)))); nid += 1
        cmp_trace = False
    if rng.random() < 0.4:   # wrappers on level 0 (a wrapper can turn a finite value into None or a non-finite one)
        ops.append(('register', nid, dict(owner=0, hook=0, tier=1, wrapper=True, guarded=True,
                                          post=rng.choice([('add', 100), ('id',), ('raise', 'ECustom'), ('yield2',), ('const', ('inf',)), ('const', ('nan',)),
                                                           ('const', ('list', [('int', 1), ('nan',)])), ('const', ('none',)), ('pre', 'ECustom'), ('pre', 'EAttr'), ('pre', 'EZeroDiv'),
                                                           ('const', ('int', 5))]), prog=None)))
        nid += 1
    reads = []
    for _ in range(rng.randint(3, 14 if not thorough else 30)):
        reads.append(('read', rng.randrange(nobj), rng.randrange(nhooks)))
        if rng.random() < 0.1:
            reads.append(('has', 'HasValue', rng.randrange(nobj), rng.randrange(nhooks)))
    return dict(hier=hier, nhooks=nhooks, ops=ops + reads, cmp_trace=cmp_trace, stack_pad=stack_pad)


def ser(case):
    return json.loads(json.dumps({'hier': case['hier'], 'nhooks': case['nhooks'], 'ops': case['ops']}, default=str))


def oracle_case(chk, case):
    """Stated directly on the implementation: documented exception classes, no residue, and every later
    read equals the one of a failure-free twin (the same history without the failing reads)."""
    im = X.Impl(case['hier'], case['nhooks'])
    im.stack_pad = case.get('stack_pad', 0)
    outs, trace, flags, caches, dicts = im.run(case['ops'], X.Values())
    if outs and outs[0] == ('exn', 'ETimeout'):
        chk.fail('hang', "evaluation of the history did not finish within 4 s (reads must fail in bounded time)", {'case': ser(case)})
        return False
    if flags:
        chk.fail('flags', f"cycle flags left set after failures: {flags}", {'case': ser(case)})
        return False
    for o, out in zip(case['ops'], outs):
        if o[0] in ('read', 'has') and out == ('exn', 'ERecursion'):
            chk.fail('recursion', f"{o} ended in RecursionError", {'case': ser(case), 'at': o})
            return False
    keep = [i for i, (o, out) in enumerate(zip(case['ops'], outs)) if not (o[0] in ('read', 'has') and out[0] == 'exn')]
    if len(keep) == len(outs):
        return True
    twin_ops = [case['ops'][i] for i in keep]
    im2 = X.Impl(case['hier'], case['nhooks'])
    im2.stack_pad = case.get('stack_pad', 0)
    outs2, _, flags2, caches2, _ = im2.run(twin_ops, X.Values())
    for j, i in enumerate(keep):
        if outs2[j] != outs[i]:
            chk.fail('residue', f"operation {case['ops'][i]} gives {outs[i]} after a failed read but {outs2[j]} in a failure-free twin",
                     {'case': ser(case), 'at': case['ops'][i]})
            return False
    return True


def result_class_oracle(chk, rng, n):
    """documented classes on single reads: None -> AttributeError, non-finite (scalar or contained) -> ValueError,
    otherwise the value; nothing is remembered for a failed read (incl. ragged values)"""
    import numpy as np
    from typing import Any
    from pyroll.core.hooks import Hook, HookHost
    ragged_ok = [np.array([1.0, 2.0]), np.array([3.0])]
    ragged_bad = [np.array([1.0, 2.0]), np.array([float('nan')])]
    table = [(None, AttributeError), (float('inf'), ValueError), (float('-inf'), ValueError), (float('nan'), ValueError),
             (np.array([1.0, np.nan]), ValueError), ([1, float('inf')], ValueError), (np.float64('inf'), ValueError),
             (3, None), (0, None), (False, None), ("text", None), ({"a"}, None), ([1, 2], None), (np.array([1.0, 2.0]), None),
             (ragged_ok, None), (ragged_bad, ValueError), ((lambda: 1), None), ([], None), (np.array([]), None),
             # numbers of every numeric type, and sequences that hold a non-finite number next to something that is not a number
             (np.float32('inf'), ValueError), (np.float16('nan'), ValueError), (np.longdouble('-inf'), ValueError), (complex('nan'), ValueError),
             (np.array([1, np.inf], dtype=np.float32), ValueError), ([np.float32('nan')], ValueError), (np.float32(2.5), None),
             (np.array([1.5, 2.5], dtype=np.float32), None), (np.int64(3), None),
             ([float('nan'), None], ValueError), ([1.0, "a", float('inf')], ValueError), ((float('nan'), 1), ValueError),
             (np.array([1, None, np.nan], dtype=object), ValueError), ([1.0, None, "a"], None), (["a", "b"], None),
             # a non-finite number anywhere: also minus infinity next to larger numbers
             ([float('-inf'), 1.0], ValueError), (np.array([float('-inf'), 3.0]), ValueError), ((1.0, float('-inf')), ValueError),
             ([np.array([1.0, 2.0]), np.array([float('-inf'), 5.0, 6.0])], ValueError), (np.array([[1.0, -np.inf], [2.0, 3.0]]), ValueError),
             # finite results stay finite however large they are together: every element is looked at, not a sum, a mean or a norm of them
             (np.array([1e308, 1e308]), None), (np.array([3e38, 3e38], dtype=np.float32), None), ([1e308, 1e308, -1e308], None), ([10 ** 400, 1.0], None),
             (np.array([-1.7e308, -1.7e308, 5.0]), None), (1.7976931348623157e308, None), (np.array([[1e200, 1e200], [1e200, 1e200]]), None)]
    for v, exc, wrapped in [(v, exc, w) for v, exc in table for w in (False, True)]:
        class K(HookHost):
            h = Hook[Any]()
        if wrapped:
            # the value is what a wrapper makes of a harmless inner result
            K.h(lambda self: 1.0)

            def wrap(self, cycle, v=v):
                if cycle:
                    return None
                yield
                return v
            K.h(wrap, wrapper=True)
        else:
            K.h(lambda self, v=v: v)
        k = K()
        try:
            got = k.h
            raised = None
        except Exception as e:
            raised = type(e)
        chk.cov['evaluations'] += 1
        if wrapped and v is None:
            # a wrapper that declines lets the rest of the chain answer
            ok = raised is None and got == 1.0
        else:
            ok = (raised is exc) if exc else (raised is None and (got is v))
        if ok and exc and not (wrapped and v is None) and 'h' in k.__cache__:
            ok = False
        if not ok:
            chk.fail('class', f"{'wrapper' if wrapped else 'implementation'} result {v!r}: raised {raised}, expected {exc}; cache {list(k.__cache__)}",
                     {'value': repr(v)})
            return False
    return True


def guarded_runaway_oracle(chk):
    """runaway mutual recursion with handlers INSIDE the loop (a has_value guard, a try/except AttributeError, getattr with a default): the read fails with
    AttributeError - from every stack depth it is issued at - and remembers nothing; it never 'succeeds' with a value that depends on the free stack"""
    from typing import Any
    from pyroll.core import Hook, HookHost

    def build(kind):
        class H(HookHost):
            a = Hook[Any]()
            b = Hook[Any]()
        if kind == 'has_value':
            H.a(lambda self: self.b + 1 if self.has_value("b") else 0)
        elif kind == 'try':
            def fa(self):
                try:
                    return self.b + 1
                except AttributeError:
                    return 0
            H.a(fa)
        else:
            H.a(lambda self: getattr(self, "b", -1) + 1)
        H.b(lambda self: self.a + 1)
        return H

    def at_depth(n, f):
        return f() if n == 0 else at_depth(n - 1, f)
    for kind in ('has_value', 'try', 'getattr-default'):
        results = []
        for depth in (0, 7, 40, 123):
            h = build(kind)()
            chk.cov['evaluations'] += 1

            def read(h=h):
                try:
                    return ('value', h.a)
                except AttributeError:
                    return ('AttributeError',)
                except RecursionError:
                    return ('RecursionError',)
            results.append((depth, at_depth(depth, read), dict(h.__cache__)))
        bad = [r for r in results if r[1] != ('AttributeError',) or r[2]]
        if bad:
            return chk.fail('runaway-guarded', f"hook a reads b behind a handler ({kind}), b reads a - a runaway: reading a from stack depths "
                            f"{[r[0] for r in results]} gives {[r[1] for r in results]} and remembers {[sorted(r[2].items()) for r in results]}; "
                            f"it must fail with AttributeError and remember nothing", {'handler': kind})
    return True


def failed_read_then_registration(chk):
    """a failed read leaves nothing behind - not even the knowledge that 'there is no implementation': an implementation registered afterwards on a base
    class (two levels up) is found by the next read through the subclass, and is gone again after its removal"""
    from typing import Any
    from pyroll.core import Hook, HookHost
    for probe in ('read', 'has_value', 'nested'):
        class Base(HookHost):
            h = Hook[Any]()
            g = Hook[Any]()

        class Mid(Base):
            pass

        class Sub(Mid):
            pass
        Base.g(lambda self: self.h + 1)
        s = Sub()
        chk.cov['evaluations'] += 1
        try:
            if probe == 'read':
                s.h
            elif probe == 'has_value':
                s.has_value('h')
            else:
                s.g
        except AttributeError:
            pass
        f = Base.h(lambda self: 5)
        got1 = getattr(s, 'h', 'no value')
        got2 = getattr(Sub(), 'g', 'no value')
        Base.h.remove_function(f)
        got3 = getattr(Sub(), 'h', 'no value')
        if (got1, got2, got3) != (5, 6, 'no value'):
            return chk.fail('residue', f"a read of h through a subclass instance fails ({probe}); then an implementation is registered on the base class two levels up: "
                            f"the same instance now reads {got1!r} (expected 5), a fresh instance reads g = {got2!r} (expected 6); after removing it again a fresh instance "
                            f"reads {got3!r} (expected no value)", {'probe': probe})
    return True


def failures_leave_with_blocks(chk):
    """a temporary registration (`with Class.hook(f):`) is a registration, not a handler: every failure of a read inside the block reaches the code around it"""
    from typing import Any
    from pyroll.core import Hook, HookHost
    import numpy as np

    class KeyFail(KeyError):
        pass

    def boom(self):
        raise KeyFail("injected")
    for what, impl, exc in (('no value', lambda self: None, AttributeError), ('nan', lambda self: float('nan'), ValueError),
                            ('inf in an array', lambda self: np.array([1.0, np.inf]), ValueError), ('an error of the implementation', boom, KeyFail),
                            ('runaway recursion', lambda self: self.h, (RecursionError, AttributeError))):
        class Host(HookHost):
            h = Hook[Any]()
        chk.cov['evaluations'] += 1
        reached, after = None, 'not reached'
        try:
            with Host.h(impl):
                Host().h
                after = 'the statement after the failing read ran'
            after = after if after != 'not reached' else 'the block was left normally'
        except BaseException as e:      # noqa
            reached = e
        if not isinstance(reached, exc) or Host.h.functions:
            return chk.fail('class', f"`with Host.h(f): Host().h` where f yields {what}: the code around the block received "
                            f"{type(reached).__name__ if reached is not None else 'nothing (' + after + ')'}, expected {exc if isinstance(exc, tuple) else exc.__name__}; "
                            f"registrations left: {len(Host.h.functions)}", {'case': 'with-block', 'what': what})
    return True


def run(chk):
    chk.coq.add_prop_file('C07.v')
    chk.coq.compile('C07.v', is_props=True, timeout=900)
    rng = random.Random(chk.seed * 9001 + 7)
    n = 3000 if chk.thorough else 450
    cases = [gen_case(rng, chk.thorough) for _ in range(n)]
    bad = X.run_cases(chk, cases, 'c07')
    shrunk = []
    kinds = {}
    for c in cases:
        for out in c['impl']['outs']:
            if out[0] == 'exn':
                kinds[out[1]] = kinds.get(out[1], 0) + 1
    chk.x_stats['correspondence'] = {'cases': len(cases), 'disagreements': len(bad), 'failure_kinds_observed': kinds,
                                     'runaway_cases': sum(1 for c in cases if not c['cmp_trace'])}
    for i in bad[:2]:
        small = X.shrink(chk, cases[i], 'c07')
        shrunk.append((cases[i], small))
        chk.unshown_add(f"correspondence:case{i}", "model and implementation disagree; shrunk history: " + json.dumps(small, default=str)[:1500])
    seen = set()
    if result_class_oracle(chk, rng, 0) and guarded_runaway_oracle(chk) and failed_read_then_registration(chk) and failures_leave_with_blocks(chk):
        for c in [cases[i] for i in bad] + cases:
            chk.cov['evaluations'] += 1
            seen.add(json.dumps(ser(c), sort_keys=True))
            if not oracle_case(chk, c):
                break
    chk.cov['distinct_nontrivial'] += len(seen)
    if shrunk and not chk.failures:
        X.report_deviation(chk, shrunk[0][0], shrunk[0][1], 'dev')
    chk.sample(ser(cases[0]))
    chk.cov['rule'] = ("seeded nested evaluations (depth <= 6, across 1-2 instances) whose leaf is one of 15 result kinds, with an "
                       "exception of 6 kinds injected at a random level, AttributeError handlers (try / has_value) at random levels, "
                       "optional wrappers, optional runaway mutual recursion; followed by 3-30 reads; distinct = distinct histories")
    chk.trusted += ["correspondence harness tools/xcheck/hookx.py"]
    chk.assumptions += ["Python's exact frame budget is not modelled: for runaway recursion only outcomes, remembered values and flags are compared",
                        "has_cached/has_set_or_cached are excluded from the programs of this profile (a failed read may remember values of "
                        "successfully computed inner hooks, which these queries would expose; the property speaks about reads)"]


def replay(data):
    print(json.dumps(data, indent=1)[:3000])
    return 1
