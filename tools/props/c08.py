"""C08 - a pass's outgoing profile is confined by the rolls and has the prescribed width."""
import json
import math
import random
import re
from fractions import Fraction

import numpy as np

from grooves_catalogue import CATALOGUE, build
from props import _ta
from py2coq import contours_tk, crosssec_tk
from py2coq.ir import Untranslatable


def cq(x):
    f = Fraction(x)
    return f"({f.numerator} # {f.denominator})"


# ------------------------------------------------------------------ correspondence: Clip.v vs shapely's clip_by_rect
def clip_correspondence(chk, rng, n):
    from shapely import Polygon, clip_by_rect
    cases = []
    for i in range(n):
        k = rng.randint(3, 9)
        # star-shaped polygons with dyadic vertices (simple by construction), sometimes the real shape: two mirrored contours
        if i % 3 == 0:
            half = sorted(set(rng.randint(-12, 12) / 2 for _ in range(k)))
            if len(half) < 2:
                continue
            up = [(x, rng.randint(1, 8) / 2) for x in half]
            pts = up + [(-x, -y) for x, y in up]
        else:
            ang = sorted(rng.uniform(0, 2 * math.pi) for _ in range(k))
            pts = [(round(8 * rng.uniform(0.4, 1) * math.cos(a) * 4) / 4, round(8 * rng.uniform(0.4, 1) * math.sin(a) * 4) / 4) for a in ang]
        P = Polygon(pts)
        if not P.is_valid or P.area <= 0 or len(set(pts)) != len(pts):
            continue
        w = rng.choice([1, 2, 3, 5, 8, 13, 17, 30]) / rng.choice([1, 2, 4])
        if any(abs(x) == w / 2 for x, _ in pts):
            continue        # an edge lying in the border of the strip: Sutherland-Hodgman keeps a zero-width spike that GEOS removes (same point set)
        r = clip_by_rect(P, -w / 2, -math.inf, w / 2, math.inf)
        chk.cov['evaluations'] += 1
        if r.is_empty:
            cases.append((pts, w, True, 0, 0, 0, 0, 0))
        elif r.geom_type == 'Polygon':
            b = r.bounds
            cases.append((pts, w, False, b[0], b[2], b[1], b[3], r.area))
    txt = ["From PyrollLib Require Import Clip.", "Open Scope Q_scope.", "Definition cases : list clip_case := ["]
    rows = []
    for pts, w, e, a, b, c, d, ar in cases:
        rows.append("{| cc_poly := [" + "; ".join(f"({cq(x)}, {cq(y)})" for x, y in pts) + f"]; cc_w := {cq(w)}; cc_empty := {'true' if e else 'false'}; "
                    f"cc_minx := {cq(a)}; cc_maxx := {cq(b)}; cc_miny := {cq(c)}; cc_maxy := {cq(d)}; cc_area := {cq(ar)} |}}")
    txt.append(";\n".join(rows) + "].")
    txt.append("Eval vm_compute in (clip_mismatches cases 0).")
    chk.coq.add_text("clipcases.v", "\n".join(txt) + "\n")
    r = chk.coq.compile("clipcases.v", timeout=600)
    bad = []
    if not r['ok']:
        chk.unshown_add("correspondence:clipcases.v", r['err'][-500:])
    else:
        m = re.search(r'=\s*\[(.*?)\]\s*:\s*list nat', r['out'], re.S)
        if not m:
            chk.unshown_add("correspondence:clipcases.v", "unreadable")
        else:
            bad = [int(x) for x in re.findall(r'\d+', m.group(1))]
    chk.x_stats['correspondence_clip'] = {'cases': len(cases), 'empty': sum(1 for c in cases if c[2]), 'disagreements': len(bad)}
    for i in bad[:3]:
        chk.unshown_add(f"correspondence:clip-case{i}", f"Sutherland-Hodgman model and shapely.clip_by_rect disagree on polygon {cases[i][0]} width {cases[i][1]}: "
                        f"shapely bounds {cases[i][3:7]} area {cases[i][7]}")


# ------------------------------------------------------------------ independent oracle on real passes
def sym_diff(a, b):
    return a.symmetric_difference(b).area


def widths_for(uw, wc, rng):
    """prescribed widths: under-filled, exactly filled, inside the 1 % tolerance, over-filled into the face padding, at and beyond the contour"""
    out = [('under-filled', uw * rng.uniform(0.4, 0.95)), ('filled', uw), ('over-filled', uw + (wc - uw) * rng.uniform(0.1, 0.9)),
           ('a hair under-filled', uw * (1 - rng.choice([2e-4, 7e-4, 5e-3]))), ('a hair over-filled', min(uw * (1 + rng.choice([2e-4, 7e-4, 5e-3])), 0.5 * (uw + wc))),
           ('contour width', wc), ('within tolerance', wc * 1.005), ('beyond', wc * 1.0101), ('beyond', wc * rng.uniform(1.02, 1.6))]
    return out


def make_pass(cls, g, gap, nominal):
    from pyroll.core import Roll, Profile
    rp = cls(roll=Roll(groove=g, nominal_radius=nominal), gap=gap)
    ip = Profile.round(diameter=g.usable_width)
    rp.in_profile = cls.InProfile(rp, ip)
    rp.out_profile = cls.OutProfile(rp, ip)
    rp.out_profile.__dict__.pop('cross_section', None)      # the template's shape is not the pass's: let the hook construct it
    return rp


def two_roll(chk, rng, name, kw, g):
    from pyroll.core import TwoRollPass, Profile
    from shapely import Polygon
    from shapely.affinity import rotate, scale
    uw, size = g.usable_width, max(g.usable_width, g.depth)
    for gap in (0.0, size * rng.uniform(0.01, 0.3)):
        if gap == 0.0 and g.depth == 0:
            continue        # flat rolls closed: no opening at all
        rp = make_pass(TwoRollPass, g, gap, size * 5)
        opening = Polygon(np.concatenate([cl.coords for cl in rp.contour_lines.geoms]))
        wc = opening.bounds[2] - opening.bounds[0]
        data = {'groove': name, 'kwargs': kw, 'gap': gap}
        chk.cov['evaluations'] += 1
        if abs(float(rp.out_profile.width) - uw) > 1e-12 * uw:
            return chk.fail('default-width', f"{name}: without a prescribed width the outgoing profile is {float(rp.out_profile.width)!r} wide, the usable width is {uw!r}", data)
        # ... also when the pass carries a target (a planning value, not a prescription for the outgoing profile)
        for tkw in ({'target_filling_ratio': 0.9}, {'target_width': 0.8 * uw}, {'target_cross_section_filling_ratio': 0.85}):
            rpt = make_pass(TwoRollPass, g, gap, size * 5)
            for k_, v_ in tkw.items():
                setattr(rpt, k_, v_)
            chk.cov['evaluations'] += 1
            try:
                wt = float(rpt.out_profile.width)
            except Exception as e:      # noqa
                return chk.fail('default-width', f"{name}: with {tkw} on the pass the default width cannot be read ({type(e).__name__})", dict(data, target=tkw))
            if abs(wt - uw) > 1e-12 * uw:
                return chk.fail('default-width', f"{name}: with {tkw} on the pass and no prescribed width the outgoing profile is {wt!r} wide, the usable width is {uw!r}",
                                dict(data, target=tkw))
        for label, w in widths_for(uw, wc, rng):
            closed_overfilled = gap == 0.0 and w > uw      # closed rolls: the faces touch, there is no opening beside the groove to over-fill into -
            # the pass and the constructor must both refuse (or both deliver the same valid shape), never hand out a degenerate polygon
            rp = make_pass(TwoRollPass, g, gap, size * 5)
            rp.out_profile.width = w
            data = {'groove': name, 'kwargs': kw, 'gap': gap, 'width': w, 'case': label}
            chk.cov['evaluations'] += 1
            try:
                cs = rp.out_profile.cross_section
                err = None
            except ValueError as e:
                cs, err = None, e
            try:
                ref = Profile.from_groove(g, width=w, gap=gap).cross_section if g.depth * 2 + gap > 0 else None
                ref_err = None
            except ValueError as e:
                ref, ref_err = None, e
            must_fail = w > 1.01 * wc * (1 + 1e-12)
            may_fail = w > 1.01 * wc * (1 - 1e-12)
            if cs is None and not may_fail and not closed_overfilled:
                return chk.fail('rejects-admissible-width', f"{name} gap {gap:.4g}: prescribed width {w:.6g} ({label}; contour {wc:.6g}) is rejected: {err}", data)
            if cs is not None and must_fail:
                return chk.fail('overwidth-not-reported', f"{name} gap {gap:.4g}: prescribed width {w:.6g} is {w / wc - 1:.2%} beyond the roll contours ({wc:.6g}) "
                                f"and yields a profile {cs.bounds[2] - cs.bounds[0]:.6g} wide instead of an error", data)
            if g.depth * 2 + gap > 0 and (cs is None) != (ref is None) and not (may_fail and not must_fail):
                return chk.fail('from-groove-guard', f"{name} gap {gap:.4g} width {w:.6g}: the pass {'rejects' if cs is None else 'accepts'} what Profile.from_groove "
                                f"{'rejects' if ref is None else 'accepts'}", data)
            if cs is None:
                continue
            tol = 1e-9 * size
            if not cs.is_valid or cs.is_empty:
                return chk.fail('invalid-section', f"{name} width {w:.6g}: outgoing cross-section is empty or invalid", data)
            if opening.is_valid and cs.difference(opening.buffer(tol)).area > tol * size:
                return chk.fail('not-confined', f"{name} gap {gap:.4g} width {w:.6g}: the outgoing profile leaves the opening of the rolls "
                                f"(area outside {cs.difference(opening).area:.3g})", data)
            # pointwise, from the groove's contour polyline: |y| <= gap / 2 + contour(z) on the boundary of the section
            B = np.asarray(cs.exterior.coords)
            cpts = np.asarray(g.contour_points)
            # the roll contour is the polyline, not the analytic arc; the lower roll is the upper one turned by 180 degrees
            lim = gap / 2 + np.where(B[:, 1] >= 0, np.interp(B[:, 0], cpts[:, 0], cpts[:, 1]), np.interp(-B[:, 0], cpts[:, 0], cpts[:, 1]))
            over = np.abs(B[:, 1]) - lim
            if np.max(over) > 1e-7 * size:
                i = int(np.argmax(over))
                return chk.fail('not-confined', f"{name} gap {gap:.4g} width {w:.6g}: boundary point ({B[i, 0]:.6g}, {B[i, 1]:.6g}) of the outgoing profile lies "
                                f"{over[i]:.3g} inside the roll (the contour is at {lim[i]:.6g})", data)
            have = cs.bounds[2] - cs.bounds[0]
            want = min(w, wc)
            if abs(have - want) > tol or abs(cs.bounds[2] + cs.bounds[0]) > tol:
                return chk.fail('width', f"{name} gap {gap:.4g}: prescribed width {w:.9g} ({label}), the outgoing profile spans [{cs.bounds[0]:.9g}, {cs.bounds[2]:.9g}]", data)
            inside = np.asarray(g.contour_points)
            inside = inside[np.abs(inside[:, 0]) <= want / 2 + tol]
            hmax = max(float(np.max(inside[:, 1])) if len(inside) else 0.0, float(np.interp(want / 2, np.asarray(g.contour_points)[:, 0], np.asarray(g.contour_points)[:, 1])))
            if np.max(np.abs(np.asarray(g.contour_points)[:, 0] + np.asarray(g.contour_points)[::-1, 0])) <= tol and abs((cs.bounds[3] - cs.bounds[1]) - (gap + 2 * hmax)) > 1e-9 * size:
                return chk.fail('height', f"{name} gap {gap:.4g} width {w:.6g}: the outgoing profile is {cs.bounds[3] - cs.bounds[1]:.9g} high, the rolls leave "
                                f"{gap + 2 * hmax:.9g}", data)
            mirror_symmetric = np.max(np.abs(cpts[:, 0] + cpts[::-1, 0])) <= tol and np.max(np.abs(cpts[:, 1] - cpts[::-1, 1])) <= tol
            if sym_diff(cs, rotate(cs, 180, origin=(0, 0))) > tol * size or (mirror_symmetric and sym_diff(cs, scale(cs, xfact=-1, origin=(0, 0))) > tol * size):
                return chk.fail('symmetry', f"{name} gap {gap:.4g} width {w:.6g}: the outgoing profile lacks the symmetry of the two-roll pass", data)
            if ref is not None and sym_diff(cs, ref) > tol * size:
                return chk.fail('differs-from-from-groove', f"{name} gap {gap:.4g} width {w:.6g}: the pass and Profile.from_groove build different shapes "
                                f"(symmetric difference {sym_diff(cs, ref):.3g})", data)
            if abs(float(rp.out_profile.filling_ratio) - w / uw) > 1e-12:
                return chk.fail('filling-ratio', f"{name}: filling ratio {float(rp.out_profile.filling_ratio)!r} is not width / usable width", data)


def three_roll(chk, rng, name, kw, g):
    from pyroll.core import ThreeRollPass
    from shapely import Polygon
    from shapely.affinity import rotate
    uw, size = g.usable_width, max(g.usable_width, g.depth)
    for gap in (size * 0.02, size * rng.uniform(0.03, 0.2)):
        rp = make_pass(ThreeRollPass, g, gap, size * 5)
        opening = Polygon(np.concatenate([cl.coords for cl in rp.contour_lines.geoms]))
        if not opening.is_valid:
            continue
        # how far the contours reach in the width direction of the three-fold section
        wc = 2 * max(-opening.bounds[1], 0)        # lower roll: the contour's face ends at -wc/2 ... measured on the rotated copies
        reach = 2 * min(opening.bounds[3], max(p[1] for p in rotate(opening, 120, origin=(0, 0)).exterior.coords), max(p[1] for p in rotate(opening, 240, origin=(0, 0)).exterior.coords))
        for label, w in (('under-filled', uw * rng.uniform(0.5, 0.95)), ('filled', uw), ('beyond', reach * rng.uniform(1.05, 1.5))):
            rp = make_pass(ThreeRollPass, g, gap, size * 5)
            rp.out_profile.width = w
            data = {'groove': name, 'kwargs': kw, 'gap': gap, 'width': w, 'case': label, 'rolls': 3}
            chk.cov['evaluations'] += 1
            try:
                cs = rp.out_profile.cross_section
            except ValueError:
                cs = None
            tol = 1e-9 * size
            if cs is None:
                if label != 'beyond':
                    return chk.fail('rejects-admissible-width', f"three-roll {name} gap {gap:.4g}: prescribed width {w:.6g} ({label}) is rejected", data)
                continue
            ext = (cs.bounds[3] - cs.centroid.y) * 2
            if label == 'beyond' and ext * 1.0101 < w:
                return chk.fail('overwidth-not-reported', f"three-roll {name} gap {gap:.4g}: prescribed width {w:.6g} yields a profile of width {ext:.6g} instead of an error", data)
            if cs.difference(opening.buffer(tol)).area > tol * size:
                return chk.fail('not-confined', f"three-roll {name} gap {gap:.4g} width {w:.6g}: the outgoing profile leaves the opening of the rolls", data)
            if sym_diff(cs, rotate(cs, 120, origin=(0, 0))) > 1e-7 * size * size:
                return chk.fail('symmetry', f"three-roll {name} gap {gap:.4g} width {w:.6g}: the outgoing profile is not 120-degree symmetric", data)
            if label != 'beyond' and abs(ext - w) > 1e-6 * size:
                return chk.fail('width', f"three-roll {name} gap {gap:.4g}: prescribed width {w:.9g} ({label}), measured three-fold width {ext:.9g}", data)


def solved_passes(chk, rng):
    """the same through real solves, with the SAME pass object solved again after its gap was changed and after its groove was exchanged;
    a width model - registered on the pass class itself or on one of its base classes - prescribes the width"""
    from pyroll.core import Roll, RollPass, Profile, CircularOvalGroove, BaseRollPass, SymmetricRollPass
    for f, owner in ((0.8, RollPass), (1.0, BaseRollPass), (1.1, SymmetricRollPass), (0.9, BaseRollPass)):
        g = CircularOvalGroove(depth=8e-3, r1=6e-3, r2=40e-3)
        g_other = CircularOvalGroove(depth=6e-3, r1=6e-3, usable_width=g.usable_width)       # another groove of the same usable width
        rp = RollPass(roll=Roll(groove=g, nominal_radius=160e-3, rotational_frequency=1), gap=2e-3)
        target = g.usable_width * f

        def width_model(self, cycle):
            if cycle:
                return None
            self.roll_pass.in_profile.temperature       # the model needs the temperature of the incoming profile: without it the solve fails here
            return target
        hf = owner.OutProfile.width(width_model)
        fs = RollPass.Profile.flow_stress(lambda self: 50e6)
        where = f"width model registered on {owner.__name__}.OutProfile"
        try:
            ip = Profile.round(diameter=30e-3, temperature=1200 + 273.15, material="C45", length=1, flow_stress=50e6)
            history = []
            for step, (gap, groove) in enumerate(((2e-3, g), (1e-3, g), (3e-3, g), (3e-3, g_other), (3e-3, g))):
                rp.gap = gap
                if rp.roll.groove is not groove:
                    rp.roll.groove = groove
                history.append({'gap': gap, 'groove_depth': groove.depth})
                if step in (1, 3):
                    # a solve that fails inside the width model (incoming profile without temperature); the input is then repaired and solved again
                    try:
                        rp.solve(Profile.round(diameter=30e-3, material="C45", length=1, flow_stress=50e6))
                        return chk.fail('width', f"solving with an incoming profile without temperature did not fail ({where})", {'factor': f})
                    except Exception:      # noqa
                        history.append('a solve aborted inside the width model (incoming profile without temperature)')
                try:
                    rp.solve(ip)
                except Exception as e:      # noqa
                    chk.notes.append(f"solved pass with width model x{f}, step {step}: solve failed ({type(e).__name__})")
                    break
                cs = rp.out_profile.cross_section
                chk.cov['evaluations'] += 1
                data = {'factor': f, 'history': history, 'note': 'the same RollPass object solved again after changing its gap / exchanging its groove', 'width_model_on': owner.__name__}
                if abs((cs.bounds[2] - cs.bounds[0]) - target) > 1e-9 * target:
                    return chk.fail('width', f"solved oval pass (solve {step + 1}, gap {gap}; {where}) prescribing {target!r}: the outgoing profile is "
                                    f"{cs.bounds[2] - cs.bounds[0]!r} wide", data)
                cpts = np.asarray(groove.contour_points)
                B = np.asarray(cs.exterior.coords)
                over = np.abs(B[:, 1]) - (gap / 2 + np.interp(B[:, 0], cpts[:, 0], cpts[:, 1]))
                if np.max(over) > 1e-9:
                    return chk.fail('not-confined', f"solved oval pass (solve {step + 1} of the same pass object, gap now {gap}, groove depth {groove.depth}): the outgoing "
                                    f"profile reaches {np.max(over):.3g} into the rolls", data)
                ref = Profile.from_groove(groove, width=target, gap=gap).cross_section
                if sym_diff(cs, ref) > 1e-12:
                    return chk.fail('differs-from-from-groove', f"solved oval pass (solve {step + 1}, gap {gap}, groove depth {groove.depth}, width x{f}): shape differs "
                                    "from Profile.from_groove", data)
        finally:
            hf.hook.remove_function(hf)
            fs.hook.remove_function(fs)


def explicit_in_width(chk):
    """by default the width of the outgoing profile is the usable width - whatever the incoming profile carries, an explicitly set `width` included"""
    from pyroll.core import Roll, RollPass, Profile, CircularOvalGroove
    g = CircularOvalGroove(depth=8e-3, r1=6e-3, r2=40e-3)
    fs = RollPass.Profile.flow_stress(lambda self: 50e6)
    try:
        rp = RollPass(roll=Roll(groove=g, nominal_radius=160e-3, rotational_frequency=1), gap=2e-3)
        out = rp.solve(Profile.round(diameter=30e-3, temperature=1473.15, strain=0, material="C45", length=1, width=30e-3))
        w = out.cross_section.bounds[2] - out.cross_section.bounds[0]
        chk.cov['evaluations'] += 1
        if abs(w - g.usable_width) > 1e-9 * g.usable_width:
            chk.fail('in-profile-explicit-width', f"oval pass without any width prescription, incoming Profile.round(diameter=0.03, width=0.03) (width set explicitly): the "
                     f"outgoing profile is {w:.6g} wide, the usable width is {g.usable_width:.6g}", {'in_width': 30e-3})
    finally:
        fs.hook.remove_function(fs)


def with_form_overwidth(chk):
    """a width model registered with the context-manager form (`with RollPass.OutProfile.width(f):`) prescribing 20 % more than the contours can contain: the
    error is reported to the caller of solve (outside the with block, too), and the registration is gone afterwards"""
    from pyroll.core import Roll, RollPass, ThreeRollPass, Profile, CircularOvalGroove
    from shapely.geometry import Polygon
    fs = [RollPass.Profile.flow_stress(lambda self: 50e6), ThreeRollPass.Profile.flow_stress(lambda self: 50e6)]
    try:
        for cls, g, d in ((RollPass, CircularOvalGroove(depth=8e-3, r1=6e-3, r2=40e-3), 30e-3),
                          (ThreeRollPass, CircularOvalGroove(depth=4e-3, r1=3e-3, r2=25e-3, pad_angle=30), 30e-3)):
            mk = lambda: cls(label="p", roll=Roll(groove=g, nominal_radius=160e-3, rotational_frequency=1), gap=2e-3)      # noqa
            ip = lambda: Profile.round(diameter=d, temperature=1473.15, strain=0, material="C45", length=1)               # noqa
            probe = mk()
            opening = Polygon(np.concatenate([cl.coords for cl in probe.contour_lines.geoms]))
            limit = (opening.bounds[3] - opening.centroid.y) * 2 if cls is ThreeRollPass else opening.bounds[2] - opening.bounds[0]
            width = 1.2 * limit
            rp = mk()
            chk.cov['evaluations'] += 1
            reported = False
            try:
                with cls.OutProfile.width(lambda self: width):
                    rp.solve(ip())
            except Exception:      # noqa  (ValueError, possibly wrapped by the unit)
                reported = True
            data = {'pass': cls.__name__, 'width': width, 'contour': limit, 'form': 'with'}
            if not reported:
                cs = rp.out_profile.cross_section
                return chk.fail('overwidth-not-reported', f"{cls.__name__}: a width model registered with `with {cls.__name__}.OutProfile.width(f):` prescribes {width:.6g}, 20 % beyond "
                                f"the roll contours ({limit:.6g}); solve reports no error and the pass holds a profile {cs.bounds[2] - cs.bounds[0]:.6g} wide", data)
            rp2 = mk()
            rp2.solve(ip())
            uw = float(rp2.usable_width)
            if abs(float(rp2.out_profile.width) - uw) > 1e-9 * uw:
                return chk.fail('width', f"{cls.__name__}: after the with block the width model is still in effect (default width {float(rp2.out_profile.width):.6g}, "
                                f"usable width {uw:.6g})", data)
    finally:
        for f in fs:
            f.hook.remove_function(f)


def nested_with_same_model(chk):
    """one width model registered twice with the context-manager form, the blocks nested: leaving the inner block takes back the inner registration only, passes
    solved later inside the outer block still leave with the prescribed width; after the outer block the default (usable width) is back"""
    from pyroll.core import RollPass, Roll, Profile, CircularOvalGroove

    def fs(self):
        return 50e6

    def model(self, cycle):
        return None if cycle else 0.9 * self.roll_pass.usable_width

    def solved():
        rp = RollPass(roll=Roll(groove=CircularOvalGroove(depth=8e-3, r1=6e-3, r2=40e-3), nominal_radius=160e-3, rotational_frequency=1), gap=2e-3)
        rp.solve(Profile.round(diameter=30e-3, temperature=1473.15, strain=0, material="C45", length=1))
        b = rp.out_profile.cross_section.bounds
        return (b[2] - b[0]) / rp.usable_width
    hf = RollPass.Profile.flow_stress(fs)
    try:
        with RollPass.OutProfile.width(model):
            with RollPass.OutProfile.width(model):
                inner = solved()
            outer = solved()
        after = solved()
        chk.cov['evaluations'] += 3
    finally:
        hf.hook.remove_function(hf)
    if not (abs(inner - 0.9) < 1e-6 and abs(outer - 0.9) < 1e-6 and abs(after - 1) < 1e-6):
        return chk.fail('width', f"a width model prescribing 0.9 x usable width, registered by two nested `with RollPass.OutProfile.width(model):` blocks: the out profile spans "
                        f"{inner:.6f} x usable width inside the inner block, {outer:.6f} after it inside the outer block (expected 0.9), {after:.6f} after both (expected 1)",
                        {'case': 'nested-with'})


def near_widths_same_pass(chk):
    """one pass object solved with two width prescriptions that differ by less than a tenth of a millimetre: each solve delivers exactly its own width"""
    from pyroll.core import Roll, RollPass, Profile, CircularOvalGroove
    g = CircularOvalGroove(depth=8e-3, r1=6e-3, r2=40e-3)
    fs = RollPass.Profile.flow_stress(lambda self: 50e6)
    want = {'w': None}
    model = RollPass.OutProfile.width(lambda self, cycle: None if cycle else want['w'])
    try:
        rp = RollPass(label="p", roll=Roll(groove=g, nominal_radius=160e-3, rotational_frequency=1), gap=2e-3)
        base = 0.9 * g.usable_width
        for w in (base, base + 4e-5, base - 2.5e-5, base + 9e-5, base):
            want['w'] = w
            out = rp.solve(Profile.round(diameter=30e-3, temperature=1473.15, strain=0, material="C45", length=1))
            got = out.cross_section.bounds[2] - out.cross_section.bounds[0]
            chk.cov['evaluations'] += 1
            if abs(got - w) > 1e-12:
                return chk.fail('width', f"one oval pass object solved with width prescriptions a few hundredths of a millimetre apart: prescribed {w!r}, the outgoing "
                                f"profile is {got!r} wide", {'prescribed': w, 'history': 'prescriptions 0.04 mm apart on one pass object'})
    finally:
        model.hook.remove_function(model)
        fs.hook.remove_function(fs)


def plugin_wrapper_on_base(chk):
    """a plug-in's pass-through wrapper (an observer of the width, registered on BaseRollPass.OutProfile) around width models registered on the concrete pass
    classes: the prescribed width stays the prescribed width, too wide a prescription is still refused"""
    from pyroll.core import Roll, RollPass, ThreeRollPass, BaseRollPass, Profile, CircularOvalGroove
    seen = []

    def observe(self, cycle):
        if cycle:
            return None
        value = yield
        seen.append(value)
        return value
    fs = [RollPass.Profile.flow_stress(lambda self: 50e6), ThreeRollPass.Profile.flow_stress(lambda self: 50e6)]
    wrap = BaseRollPass.OutProfile.width(observe, wrapper=True)
    try:
        for cls, g in ((RollPass, CircularOvalGroove(depth=8e-3, r1=6e-3, r2=40e-3)), (ThreeRollPass, CircularOvalGroove(depth=4e-3, r1=3e-3, r2=25e-3, pad_angle=30))):
            for factor in (0.9, 1.6):
                rp = cls(label="p", roll=Roll(groove=g, nominal_radius=160e-3, rotational_frequency=1), gap=2e-3)
                want = factor * float(rp.usable_width)
                model = cls.OutProfile.width(lambda self, cycle, want=want: None if cycle else want)
                chk.cov['evaluations'] += 1
                try:
                    try:
                        out = rp.solve(Profile.round(diameter=30e-3, temperature=1473.15, strain=0, material="C45", length=1))
                        err = None
                    except Exception as e:      # noqa
                        out, err = None, e
                finally:
                    model.hook.remove_function(model)
                data = {'pass': cls.__name__, 'prescribed': want, 'wrapper_on': 'BaseRollPass.OutProfile.width'}
                if factor < 1:
                    got = None if out is None else float(rp.out_profile.width)
                    if out is None or abs(got - want) > 1e-9 * want:
                        return chk.fail('width', f"{cls.__name__} with a width model on {cls.__name__}.OutProfile prescribing {want:.6g} and a pass-through wrapper on "
                                        f"BaseRollPass.OutProfile.width: the outgoing width is {got} ({type(err).__name__ if err else 'no error'})", data)
                elif out is not None:
                    return chk.fail('overwidth-not-reported', f"{cls.__name__} with a width model prescribing {want:.6g} (1.6 x usable width, beyond the contours) and a "
                                    f"pass-through wrapper on BaseRollPass.OutProfile.width: no error, the pass delivers {float(rp.out_profile.width):.6g}", data)
    finally:
        wrap.hook.remove_function(wrap)
        for f in fs:
            f.hook.remove_function(f)


def observed_in_profile(chk):
    """looking at the incoming profile before the solve (its width, height, equivalent rectangle - what a notebook display evaluates), or feeding the
    out profile OBJECT of a solved pass into the next pass, changes nothing: the outgoing width is the prescribed one, by default the usable width"""
    from pyroll.core import Roll, RollPass, Profile, CircularOvalGroove, RoundGroove
    fs = RollPass.Profile.flow_stress(lambda self: 50e6)
    try:
        for prescribed in (None, 0.9):
            g = CircularOvalGroove(depth=8e-3, r1=6e-3, r2=40e-3)
            g2 = RoundGroove(r1=1e-3, r2=12.5e-3, depth=11.5e-3)
            rp = RollPass(label="oval", roll=Roll(groove=g, nominal_radius=160e-3, rotational_frequency=1), gap=2e-3)
            rp2 = RollPass(label="round", roll=Roll(groove=g2, nominal_radius=160e-3, rotational_frequency=1), gap=2e-3)
            hf = None
            if prescribed:
                hf = RollPass.OutProfile.width(lambda self, cycle: None if cycle else prescribed * self.roll_pass.usable_width)
            try:
                ip = Profile.round(diameter=30e-3, temperature=1473.15, strain=0, material="C45", length=1)
                looked = (ip.width, ip.height, ip.equivalent_rectangle, ip.equivalent_width)      # remembered on the incoming profile from here on
                from common import look_at
                look_at(ip)         # ... and displayed (repr, __attrs__, html): remembered values stay remembered values
                out = rp.solve(ip)
                chk.cov['evaluations'] += 2
                for label, unit, prof, groove in (("oval pass, incoming profile looked at before the solve", rp, out, g),):
                    want = (prescribed or 1.0) * groove.usable_width
                    w = prof.cross_section.bounds[2] - prof.cross_section.bounds[0]
                    if abs(w - want) > 1e-9 * want or abs(float(unit.out_profile.width) - want) > 1e-9 * want:
                        return chk.fail('width', f"{label}: the outgoing profile is {w:.6g} wide (out_profile.width = {float(unit.out_profile.width):.6g}), prescribed "
                                        f"{'by a width model' if prescribed else 'by default (usable width)'}: {want:.6g}", {'prescribed': prescribed, 'case': label})
                look_at(rp), look_at(rp.out_profile)
                rp.out_profile.width, rp.out_profile.height        # the out profile object of the solved pass, looked at, is the next pass's incoming profile
                out2 = rp2.solve(rp.out_profile)
                want = (prescribed or 1.0) * g2.usable_width
                w = out2.cross_section.bounds[2] - out2.cross_section.bounds[0]
                if abs(w - want) > 1e-9 * want:
                    return chk.fail('width', f"round pass fed with the out profile object of the solved oval pass: the outgoing profile is {w:.6g} wide, prescribed {want:.6g}",
                                    {'prescribed': prescribed, 'case': 'out profile object as incoming profile'})
            finally:
                if hf is not None:
                    hf.hook.remove_function(hf)
    finally:
        fs.hook.remove_function(fs)


def run(chk):
    _ta.generate(chk)
    ok = True
    try:
        t1, _ = contours_tk.generate()
        t2, info = crosssec_tk.generate()
        chk.coq.add_text('Gen_contours.v', t1)
        chk.coq.add_text('Gen_crosssec.v', t2)
        chk.coq.compile('Gen_contours.v')
        chk.coq.compile('Gen_crosssec.v')
        chk.x_stats['translator_TK2'] = info
    except Untranslatable as e:
        chk.unshown_add('translator T-K/T-K2', f"the cross-section constructions left the recognised fragment: {e}")
        ok = False
    if ok:
        chk.coq.add_prop_file('C08.v')
        chk.coq.compile('C08.v', is_props=True, timeout=600)
    rng = random.Random(chk.seed * 8 + 800)
    clip_correspondence(chk, rng, 300 if not chk.thorough else 2500)
    built = 0
    for name, kw in CATALOGUE:
        if chk.failures:
            break
        if 'pad_angle' in kw:
            if kw['pad_angle'] == 30:
                try:
                    g = build(name, kw)
                except Exception:
                    continue
                built += 1
                three_roll(chk, rng, name, kw, g)
            continue
        for k in ((1.0,) if not chk.thorough else (1.0, 1e-3, 40.0)):
            try:
                g = build(name, kw, k)
            except Exception:
                continue
            built += 1
            if not chk.failures:
                two_roll(chk, rng, name, kw, g)
        if chk.thorough and not chk.failures:
            try:
                g3 = build(name, dict(kw, pad_angle=30))
                three_roll(chk, rng, name, dict(kw, pad_angle=30), g3)
            except Exception:
                pass
    # contours that are not left/right symmetric (spline grooves may be)
    from pyroll.core import SplineGroove
    for pts in ([(-30, 0), (-20, 0), (-12, 9), (4, 14), (16, 5), (20, 0), (30, 0)], [(-2.5, 0), (-2, 0), (-1.5, 1.5), (0.5, 0.5), (2, 0), (2.5, 0)]):
        if not chk.failures:
            gs = SplineGroove(pts, classifiers=['lopsided'], usable_width=abs(pts[-2][0] - pts[1][0]))
            built += 1
            two_roll(chk, rng, 'SplineGroove', {'contour_points': pts}, gs)
    if not chk.failures:
        solved_passes(chk, rng)
    if not chk.failures:
        with_form_overwidth(chk)
    if not [f for f in chk.failures if f.key != 'in-profile-explicit-width']:
        nested_with_same_model(chk)
    if not chk.failures:
        plugin_wrapper_on_base(chk)
    if not chk.failures:
        near_widths_same_pass(chk)
    if not chk.failures:
        observed_in_profile(chk)
    if not chk.failures:
        explicit_in_width(chk)
    chk.cov['distinct_nontrivial'] += built
    chk.sample({'groove': 'CircularOvalGroove', 'kwargs': {'depth': 5.05, 'r1': 7, 'r2': 33}, 'gap': 1.0, 'width': 60.0})
    chk.cov['rule'] = (f"{built} grooves (every class; pad angle 30 behind three-roll passes) x two gaps x seven prescribed widths (under-filled, filled, over-filled into the "
                       "face padding, contour width, inside the 1 % tolerance, 1.01 % and 2-60 % beyond): confinement in the opening polygon, exact width and centring, "
                       "height, half-turn/mirror (two-roll) or 120-degree (three-roll) symmetry, identity with Profile.from_groove, error exactly beyond 1 %, "
                       "default width = usable width, filling ratio; three solved passes with a width model; Sutherland-Hodgman model vs shapely.clip_by_rect "
                       "on random dyadic polygons (bounds and area)")
    chk.trusted += ["translators T-A, T-K, T-K2 (tools/py2coq/hookimpls.py, contours_tk.py, crosssec_tk.py)",
                    "Clip.v is a hand-written Sutherland-Hodgman model of clip_by_rect for a vertical strip, tied to shapely (GEOS) by exact-rational correspondence "
                    "on bounds and area; GEOS is deterministic (same input, same output) is assumed by C08_same_shape_as_from_groove"]
    chk.assumptions += ["three-roll passes, refine_cross_section, and set inclusion of the whole polygon (as opposed to its vertices) are covered by the search only (partial)"]


def replay(data):
    print(json.dumps(data, indent=1, default=str)[:2000])
    return 1
