"""C19 - velocity calculations leave a constant volume flux through all roll passes."""
import ast
import json
import os
import random
import re
from fractions import Fraction

import numpy as np

from common import REPO
from props import _ta


def extract_array_functions():
    """the nested calculate_velocities_array functions, taken from the current source text and compiled stand-alone"""
    path = os.path.join(REPO, 'pyroll/core/sequence/sequence.py')
    tree = ast.parse(open(path).read())
    out = {}
    for cls in tree.body:
        if isinstance(cls, ast.ClassDef) and cls.name == 'PassSequence':
            for m in cls.body:
                if isinstance(m, ast.FunctionDef) and m.name in ('solve_velocities_backward', 'solve_velocities_forward'):
                    for n in m.body:
                        if isinstance(n, ast.FunctionDef) and n.name == 'calculate_velocities_array':
                            mod = ast.Module(body=[n], type_ignores=[])
                            ast.fix_missing_locations(mod)
                            out[m.name] = compile(mod, path, 'exec')
    return out


def call_array_fn(code, vs, As):
    ns = {'np': np, 'usable_cross_section_areas': np.asarray(As, dtype=float), 'List': list}
    exec(code, ns)
    v = np.array(vs, dtype=float)
    ns['calculate_velocities_array'](velocities=v, cross_sections_areas=np.asarray(As, dtype=float))
    return v.tolist()


def cq(x):
    f = Fraction(x)
    return f"({f.numerator} # {f.denominator})"


def flow_stress(self):
    return 50e6 * (1 + self.strain) ** 0.2 * self.roll_pass.strain_rate ** 0.1


def spread_width(self, cycle):
    if cycle:
        return None
    rp = self.roll_pass
    return rp.in_profile.width * rp.draught ** (-0.3)


def spread_width_v(self, cycle):
    """a spread model whose result depends on the rolling velocity of the pass (areas then depend on velocities)"""
    if cycle:
        return None
    rp = self.roll_pass
    return rp.in_profile.width * rp.draught ** (-0.4) * float(rp.velocity) ** (-0.15)


def make_sequence(n, same_labels=False):
    from pyroll.core import Roll, RollPass, ThreeRollPass, Transport, RoundGroove, CircularOvalGroove, PassSequence
    if n in ('mixed', 'three'):
        # 'mixed': two-high roughing stands followed by a three-roll finishing stand; 'three': a pure three-roll block
        three = lambda lbl, r2, d, gap: ThreeRollPass(label=lbl, roll=Roll(groove=RoundGroove(r1=1e-3, r2=r2, depth=d, pad_angle=30), nominal_radius=160e-3), gap=gap)  # noqa
        if n == 'mixed':
            units = [RollPass(label="P0", roll=Roll(groove=CircularOvalGroove(depth=8e-3, r1=6e-3, r2=40e-3), nominal_radius=160e-3), gap=2e-3),
                     Transport(label="T0", duration=1),
                     RollPass(label="P1", roll=Roll(groove=RoundGroove(r1=1e-3, r2=12.5e-3, depth=11.5e-3), nominal_radius=160e-3), gap=2e-3),
                     Transport(label="T1", duration=1), three("P2", 11e-3, 4.5e-3, 1e-3)]
        else:
            units = [three("P0", 14.5e-3, 6e-3, 1.5e-3), Transport(label="T0", duration=1), three("P1", 13e-3, 5.4e-3, 1.2e-3)]
        return PassSequence(units)
    specs = [('oval', dict(depth=8e-3, r1=6e-3, r2=40e-3)), ('round', dict(r1=1e-3, r2=12.5e-3, depth=11.5e-3)),
             ('oval', dict(depth=6e-3, r1=6e-3, r2=35e-3)), ('round', dict(r1=1e-3, r2=10e-3, depth=9e-3))]
    units = []
    for i in range(n):
        kind, kw = specs[i]
        g = CircularOvalGroove(**kw) if kind == 'oval' else RoundGroove(**kw)
        # (stands are usually named after their groove: "Oval", "Round", "Oval" - labels need not be unique)
        units.append(RollPass(label=(kind.capitalize() if same_labels else f"P{i}"), roll=Roll(groove=g, nominal_radius=160e-3), gap=2e-3))
        if i < n - 1:
            units.append(Transport(label=f"T{i}", duration=1))
    return PassSequence(units)


def check_flux(chk, seq, mode, speed, label):
    passes = seq.roll_passes
    flux = [float(p.velocity) * p.out_profile.cross_section.area for p in passes]
    data = {'mode': mode, 'speed': speed, 'case': label}
    # ideal velocities from the final areas: within the loop tolerance (0.01 per iteration; allow 5x)
    areas = [p.out_profile.cross_section.area for p in passes]
    ref = flux[-1] if mode == 'backward' else flux[0]
    for i, p in enumerate(passes):
        ideal = ref / areas[i]
        if abs(float(p.velocity) - ideal) > 0.05:
            chk.fail('flux', f"{label} {mode}: pass {i} runs at {float(p.velocity):.5f}, constant flux needs {ideal:.5f}", data)
            return
        vo, vi = float(p.out_profile.velocity), float(p.in_profile.velocity)
        # the in profile's velocity is a root hook evaluated before the out profile of the same iteration: it refers to the
        # previous iterate of the out area, which the convergence test of the pass limits to its iteration precision
        lag = 2 * float(p.iteration_precision)
        dev = abs(vi * p.in_profile.cross_section.area - vo * p.out_profile.cross_section.area) / abs(flux[i])
        if abs(vo - float(p.velocity)) > 1e-12 * abs(vo) or dev > lag:
            chk.fail('entry-exit', f"{label} {mode}: pass {i}: in/out velocities do not carry the pass's flux (relative deviation {dev:.2e})", data)
            return
        chk.x_stats.setdefault('max_entry_exit_deviation', 0.0)
        chk.x_stats['max_entry_exit_deviation'] = max(chk.x_stats['max_entry_exit_deviation'], dev)
    if mode == 'backward' and float(passes[-1].velocity) != speed:
        chk.fail('final-speed', f"{label}: last pass runs at {float(passes[-1].velocity)!r}, prescribed {speed!r}", data)


def real_runs(chk, rng):
    from pyroll.core import Profile, RollPass
    cases = [(2, None), (3, None), (3, 'draught'), (3, 'velocity'), ('mixed', 'three-roll'), ('three', 'three-roll')] + ([(4, 'draught'), (4, None), (2, 'velocity'), (4, 'velocity')] if chk.thorough else [])
    int_round = [0]
    for n, spread in cases:
        for mode in ('backward', 'forward'):
            # histories: a fresh sequence; the same sequence solved again with another speed; the other direction afterwards
            speeds = [rng.choice([1.0, 2.5, 3, 1]), rng.choice([1.5, 2.0, 2])]      # Python ints too: a speed of 3 is as good as 3.0
            int_round[0] += 1
            if int_round[0] % 3 == 1:
                speeds = [3, 1]
            seq = make_sequence(n, same_labels=(int_round[0] % 3 == 2)) if isinstance(n, int) else make_sequence(n)
            # every incoming profile: also one that already carries a velocity (given by the caller, or because it is the profile returned
            # by a separately solved upstream line) which has nothing to do with the speeds of this calculation
            carried = {} if int_round[0] % 2 else {'velocity': rng.choice([0.3, 5.0, 11])}
            ip = Profile.round(diameter=30e-3, temperature=1473.15, material=["C45", "steel"], length=1, **carried)
            ctx = [RollPass.Profile.flow_stress(flow_stress)]
            if int_round[0] % 2 == 0:
                # a plug-in that merely observes velocities: pass-through wrappers registered on the generic unit profiles (base classes of the pass profiles)
                from pyroll.core import Unit

                def observe(self, cycle):
                    if cycle:
                        return None
                    value = yield
                    return value
                ctx.append(Unit.OutProfile.velocity(observe, wrapper=True))
                ctx.append(Unit.InProfile.velocity(observe, wrapper=True))
            if spread == 'three-roll':
                from pyroll.core import ThreeRollPass, BaseRollPass
                ctx.append(BaseRollPass.Profile.flow_stress(flow_stress))
                ctx.append(RollPass.OutProfile.width(spread_width))
                ctx.append(ThreeRollPass.OutProfile.width(lambda self, cycle: None if cycle else self.roll_pass.usable_width * 0.97))
                if n == 'three':
                    ip = Profile.round(diameter=30e-3, temperature=1473.15, material=["C45", "steel"], length=1, velocity=rng.choice([0.3, 5.0]))
            elif spread:
                ctx.append(RollPass.OutProfile.width(spread_width if spread == 'draught' else spread_width_v))
            label = f"{n} passes{' with ' + spread + '-dependent spread model' if spread else ''}{', incoming profile carries velocity ' + str(carried['velocity']) if carried else ''}"
            try:
                ip_b = Profile.round(diameter=28.5e-3, temperature=1473.15, material=["C45", "steel"], length=1, **carried)
                for step, (m, speed, *_other) in enumerate([(mode, speeds[0]), (mode, speeds[1]), ('forward' if mode == 'backward' else 'backward', speeds[0]),
                                                   # the same sequence recalculated for ANOTHER incoming profile at the same speed
                                                   ('forward' if mode == 'backward' else 'backward', speeds[0], ip_b)]):
                    ip_now = ip_b if step == 3 else ip
                    try:
                        if m == 'backward':
                            seq.solve_velocities_backward(ip_now, final_speed=speed, final_cross_section_area=seq.roll_passes[-1].usable_cross_section.area)
                        else:
                            seq.solve_velocities_forward(ip_now, initial_speed=speed)
                    except Exception as e:      # the physical models did not solve: nothing to say about fluxes
                        chk.notes.append(f"{label} {m} call {step + 1}: solve failed ({type(e).__name__})")
                        break
                    check_flux(chk, seq, m, speed, label + f" (call {step + 1} on the same sequence)")
                    chk.cov['evaluations'] += 1
                    chk.x_stats['real_velocity_calculations_checked'] = chk.x_stats.get('real_velocity_calculations_checked', 0) + 1
            finally:
                for hf in ctx:
                    hf.hook.remove_function(hf)


def run(chk):
    _ta.generate(chk)
    chk.coq.add_prop_file('C19.v')
    chk.coq.compile('C19.v', is_props=True, timeout=600)
    rng = random.Random(chk.seed * 19 + 1900)
    codes = extract_array_functions()
    if set(codes) != {'solve_velocities_backward', 'solve_velocities_forward'}:
        chk.unshown_add('translator', "the nested calculate_velocities_array functions were not found in sequence.py")
    rendered, n = [], (3000 if chk.thorough else 500)
    seen = set()
    for i in range(n):
        L = rng.randint(1, 7)
        As = [rng.choice([1, 2, 3, 4, 5, 8, 16]) / rng.choice([1, 2, 4, 8]) for _ in range(L)]
        vs = [rng.choice([0, 0, 1, 3, 5]) / rng.choice([1, 2]) for _ in range(L)]
        fw = i % 2 == 0
        code = codes.get('solve_velocities_forward' if fw else 'solve_velocities_backward')
        if code is None:
            break
        try:
            got = call_array_fn(code, vs, As)
        except Exception as e:
            chk.unshown_add('array-function', f"extracted function failed: {type(e).__name__}: {e}")
            break
        chk.cov['evaluations'] += 1
        seen.add((fw, tuple(vs), tuple(As)))
        # the result may be inexact in floats (division): compare in the model with the exact rational of the float only when exact
        exact = all(Fraction(x).denominator <= 2 ** 40 for x in got)
        if not exact:
            continue
        rendered.append(f"({'true' if fw else 'false'}, [{'; '.join(cq(x) for x in vs)}], [{'; '.join(cq(x) for x in As)}], [{'; '.join(cq(x) for x in got)}])")
        # oracle: constant flux
        ref = got[0] * As[0] if fw else got[-1] * As[-1]
        if any(abs(v * a - ref) > 1e-9 * max(1.0, abs(ref)) for v, a in zip(got, As)) or (not fw and got[-1] != vs[-1]) or (fw and got[0] != vs[0]):
            if not chk.failures:
                chk.fail('array-flux', f"{'forward' if fw else 'backward'} array pass: velocities {got} for areas {As} do not carry a constant flux",
                         {'forward': fw, 'velocities': vs, 'areas': As})
    chk.cov['distinct_nontrivial'] += len(seen)
    chk.sample({'forward': True, 'velocities': [2, 0, 0], 'areas': [4, 2, 1]})
    name = "vcases.v"
    chk.coq.add_text(name, "From PyrollLib Require Import Velocity.\nOpen Scope Q_scope.\nDefinition cases : list (bool * list Q * list Q * list Q) := [\n" +
                     ";\n".join(rendered) + "].\nEval vm_compute in (vmismatches cases 0).\n")
    r = chk.coq.compile(name, timeout=600)
    bad = []
    if not r['ok']:
        chk.unshown_add("correspondence:" + name, r['err'][-500:])
    else:
        m = re.search(r'=\s*\[(.*?)\]\s*:\s*list nat', r['out'], re.S)
        bad = [int(x) for x in re.findall(r'\d+', m.group(1))] if m else []
        if not m:
            chk.unshown_add("correspondence:" + name, "unreadable")
    chk.x_stats['correspondence'] = {'array_cases': len(rendered), 'disagreements': len(bad)}
    for i in bad[:3]:
        chk.unshown_add(f"correspondence:case{i}", "array model and extracted function disagree on " + rendered[i][:300])
    real_runs(chk, rng)
    chk.cov['rule'] = ("array passes: the nested functions extracted from sequence.py run on random dyadic velocity/area vectors of length 1-7 "
                       "(forward and backward) vs the Q model; real sequences of 2-4 passes, with/without a cycle-aware spread model, backward "
                       "and forward with random speeds: flux of every pass against the flux of the anchor pass (tolerance 5x the loop tolerance "
                       "0.01 on velocities), entry/exit velocities, exact final speed")
    chk.trusted += ["the nested functions are compiled from the current source text by tools/props/c19.py (ast extraction)"]
    chk.assumptions += ["whether the final solve reproduces the areas the velocities were computed from depends on plugged-in models; exercised, not proved (partial)"]


def replay(data):
    print(json.dumps(data, indent=1, default=str)[:2000])
    return 1
