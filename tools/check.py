#!/venv/bin/python
"""Entry point:  check <ID> [--tier quick|thorough] [--replay FILE]"""
import argparse
import importlib
import json
import os
import sys
import traceback

HERE = os.path.dirname(os.path.abspath(__file__))
sys.path.insert(0, HERE)
REPO = os.environ.get('VERIF_REPO', '/repo')
sys.path.insert(0, REPO)          # the working tree, not the installed package
os.environ.setdefault('PYTHONHASHSEED', '0')

import common  # noqa: E402


def main():
    ap = argparse.ArgumentParser()
    ap.add_argument('pid')
    ap.add_argument('--tier', default=os.environ.get('VERIF_TIER', 'quick'))
    ap.add_argument('--replay')
    a = ap.parse_args()
    tier = a.tier if a.tier in ('quick', 'thorough') else 'quick'
    seed = int(os.environ.get('VERIF_SEED', '0') or 0)
    import pyroll.core
    assert os.path.abspath(pyroll.core.__file__).startswith(os.path.abspath(REPO)), pyroll.core.__file__
    mod = importlib.import_module('props.' + a.pid.lower())
    if a.replay:
        data = json.load(open(a.replay))
        return mod.replay(data)
    chk = common.Check(a.pid, tier, seed)
    try:
        common.ensure_lib()
        chk.coq.fresh()
        mod.run(chk)
        chk.coq.scan_forbidden()
    except Exception as e:  # the machinery itself failed: the property is not shown
        traceback.print_exc()
        chk.unshown_add('check-crashed', f"{type(e).__name__}: {e}")
    return chk.finish()


if __name__ == '__main__':
    import warnings
    warnings.filterwarnings('ignore')
    sys.exit(main())
