"""Catalogue of valid groove constructions (class name, kwargs), mostly the parametrisations used by the
repository's own tests, in millimetre-sized numbers.  LENGTH_KEYS are the arguments that are lengths."""
import math

FW, FH = 3.2814933761920244, 7.037185254850074
FL = math.sqrt(FW ** 2 + FH ** 2)

LENGTH_KEYS = {'depth', 'r1', 'r2', 'r3', 'r4', 'usable_width', 'ground_width', 'even_ground_width', 'indent', 'tip_depth',
               'flank_width', 'flank_height', 'flank_length', 'rib_distance', 'rib_width', 'base_body_height', 'nominal_outer_diameter', 'pad'}
ANGLE_KEYS = {'flank_angle', 'pad_angle', 'tip_angle', 'rib_angle'}

CATALOGUE = [
    ('BoxGroove', dict(depth=52, r1=15, r2=18, usable_width=185.29, ground_width=157.62)),
    ('BoxGroove', dict(depth=52, r1=15, r2=18, usable_width=185.29, flank_angle=75.101163)),
    ('BoxGroove', dict(depth=52, r1=15, r2=18, ground_width=157.62, flank_angle=75.101163)),
    ('BoxGroove', dict(depth=52, r1=15, r2=18, usable_width=185.29, even_ground_width=64.97285019 * 2)),
    ('BoxGroove', dict(depth=52, r1=15, r2=18, even_ground_width=64.97285019 * 2, flank_angle=75.101163)),
    ('BoxGroove', dict(depth=52, r1=15, r2=18, usable_width=185.29, ground_width=157.62, pad_angle=30)),
    ('BoxGroove', dict(r1=2, r2=2, depth=10, usable_width=20, ground_width=10, pad_angle=45)),
    ('CircularOvalGroove', dict(depth=5.05, r1=7, r2=33)),
    ('CircularOvalGroove', dict(usable_width=17.63799973 * 2, depth=5.05, r1=7)),
    ('CircularOvalGroove', dict(usable_width=17.63799973 * 2, r1=7, r2=33)),
    ('CircularOvalGroove', dict(depth=5.05, r1=7, r2=33, pad_angle=30)),
    ('CircularOvalGroove', dict(usable_width=35.87663862132782, r1=7, r2=33, pad_angle=30)),
    ('ConstrictedBoxGroove', dict(depth=52, r1=15, r2=18, r4=10, usable_width=185.29, ground_width=157.62, indent=10)),
    ('ConstrictedBoxGroove', dict(depth=52, r1=15, r2=18, r4=10, usable_width=185.29, flank_angle=75.101163, indent=10)),
    ('ConstrictedBoxGroove', dict(depth=52, r1=15, r2=18, r4=10, ground_width=157.62, flank_angle=75.101163, indent=10, pad_angle=30)),
    ('ConstrictedCircularOvalGroove', dict(depth=17, r1=3, r2=30, r3=5, r4=20, indent=3, usable_width=56.70672071)),
    ('ConstrictedCircularOvalGroove', dict(depth=16, r1=5, r2=30, r3=5, r4=10, indent=10, usable_width=46.67222164 * 2)),
    ('ConstrictedSwedishOvalGroove', dict(depth=18, r1=5, r2=10, r4=5, usable_width=39 * 2, ground_width=30 * 2, indent=3)),
    ('ConstrictedSwedishOvalGroove', dict(depth=18, r1=5, r2=10, r4=5, usable_width=39 * 2, flank_angle=63.434949, indent=3)),
    ('ConstrictedUpsetBoxGroove', dict(depth=30, r1=5, r2=3, usable_width=20, flank_angle=80, indent=0.5, r4=1)),
    ('ConstrictedUpsetBoxGroove', dict(depth=30, r1=5, r2=3, usable_width=20, ground_width=9.42038116, indent=0.5, r4=1)),
    ('DiamondGroove', dict(r1=5, r2=8, tip_depth=11.54700538, tip_angle=120)),
    ('DiamondGroove', dict(r1=5, r2=8, usable_width=40, tip_angle=120)),
    ('DiamondGroove', dict(r1=5, r2=8, usable_width=40, tip_depth=11.54700538)),
    ('DiamondGroove', dict(r1=5, r2=8, usable_width=40, tip_depth=11.54700538, pad_angle=30)),
    ('FalseRoundGroove', dict(depth=31.8646, r1=5, r2=38, flank_angle=65)),
    ('FalseRoundGroove', dict(depth=31.8646, r1=5, r2=38, flank_height=FH)),
    ('FalseRoundGroove', dict(depth=31.8646, r1=5, r2=38, flank_length=FL)),
    ('FalseRoundGroove', dict(depth=31.8646, r1=5, r2=38, flank_width=FW)),
    ('FalseRoundGroove', dict(depth=31.8646, usable_width=78.13476937, r1=5, flank_angle=65)),
    ('FalseRoundGroove', dict(usable_width=78.13476937, r1=5, r2=38, flank_angle=65)),
    ('FalseRoundGroove', dict(depth=31.8646, r1=5, r2=38, flank_angle=65, pad_angle=30)),
    ('FlatGroove', dict(usable_width=100)),
    ('FlatGroove', dict(usable_width=100, pad_angle=30, r1=20)),
    ('FlatOvalGroove', dict(depth=20, r1=5, r2=20, even_ground_width=9.58758548 * 2)),
    ('FlatOvalGroove', dict(depth=20, r1=5, r2=20, usable_width=60)),
    ('GothicGroove', dict(depth=20, r1=3, r2=40, r3=2, usable_width=40)),
    ('Oval3RadiiGroove', dict(depth=28.5, r1=10, r2=30, r3=170, usable_width=62.30907983 * 2)),
    ('Oval3RadiiGroove', dict(depth=28.5, r1=10, r2=30, r3=170, usable_width=62.30907983 * 2, pad_angle=30)),
    ('Oval3RadiiFlankedGroove', dict(depth=41.1, r1=6, r2=23.5, r3=183, usable_width=74.2506498 * 2, flank_angle=90 - 16.697244)),
    ('Oval3RadiiFlankedGroove', dict(depth=41.1, r1=6, r2=23.5, r3=183, usable_width=74.2506498 * 2, flank_height=13.141969810727078)),
    ('Oval3RadiiFlankedGroove', dict(depth=41.1, r1=6, r2=23.5, r3=183, usable_width=74.2506498 * 2, flank_width=3.9420908619510726)),
    ('Oval3RadiiFlankedGroove', dict(depth=41.1, r1=6, r2=23.5, r3=183, usable_width=74.2506498 * 2, flank_length=13.720475606550236)),
    ('RoundGroove', dict(depth=15.55, r1=2, r2=15.8)),
    ('RoundGroove', dict(depth=15.55, usable_width=31.79180677, r1=2)),
    ('RoundGroove', dict(usable_width=31.79180677, r1=2, r2=15.8)),
    ('RoundGroove', dict(depth=15.55, r1=2, r2=15.8, pad_angle=30)),
    ('SquareGroove', dict(r1=5, r2=3, tip_depth=14.74045895, tip_angle=91)),
    ('SquareGroove', dict(r1=5, r2=3, usable_width=30, tip_angle=91)),
    ('SquareGroove', dict(r1=5, r2=3, usable_width=30, tip_depth=14.74045895)),
    ('SwedishOvalGroove', dict(depth=20, r1=8, r2=10, usable_width=100, ground_width=40)),
    ('SwedishOvalGroove', dict(depth=20, r1=8, r2=10, usable_width=100, flank_angle=33.690068)),
    ('SwedishOvalGroove', dict(depth=20, r1=8, r2=10, ground_width=40, flank_angle=33.690068)),
    ('SwedishOvalGroove', dict(depth=7.66025404, r1=3, r2=1, usable_width=18.84529946, even_ground_width=8.84529946)),
    ('UpsetBoxGroove', dict(depth=30, r1=5, r2=3, usable_width=20, flank_angle=80)),
    ('UpsetBoxGroove', dict(depth=30, r1=5, r2=3, usable_width=20, ground_width=9.42038116)),
    ('UpsetBoxGroove', dict(depth=30, r1=5, r2=3, flank_angle=80, even_ground_width=4.38578337)),
    ('UpsetOvalGroove', dict(depth=23.3303, r1=3, r2=30, r3=5, usable_width=26.2495)),
    ('HexagonalGroove', dict(depth=7.66025404, r1=3, r2=1, usable_width=18.84529946, ground_width=10)),
    ('HexagonalGroove', dict(depth=7.66025404, r1=3, r2=1, usable_width=18.84529946, flank_angle=60)),
    ('EquivalentRibbedGroove', dict(r1=0.2, r3=3.45, rib_distance=8.4, rib_width=1.6, rib_angle=45, base_body_height=11.78,
                                    nominal_outer_diameter=14, usable_width=13.6788, depth=5.5091)),
]


def build(name, kwargs, k=1.0):
    import pyroll.core as pc
    cls = getattr(pc, name)
    kw = {a: (v * k if a in LENGTH_KEYS else v) for a, v in kwargs.items()}
    return cls(**kw)
