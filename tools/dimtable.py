"""Hand-written, reviewed table of length exponents (the unit system holds stresses, times, temperatures fixed;
hence force 2, torque/energy/power 3, mass 1, density -2).  Keyed by the last path component of a hook or
attribute name.  Single source for the Coq table (Gen_dimtable.v) and for the scaled twin runs."""
from fractions import Fraction

L1 = """abs_draught abs_elongation abs_spread bounds contact_length depth entry_point exit_point equivalent_height
equivalent_radius equivalent_width gap grain_size groove_factor height inner_radius inscribed_circle_diameter length max_radius
min_radius neutral_point nominal_diameter nominal_radius perimeter target_width tip_width usable_width width working_radius x y z
velocity surface_velocity working_velocity coolant_velocity mass_flux heat_penetration_number r1 r2 r3 r4 ground_width
even_ground_width indent flank_width flank_height flank_length tip_depth contour_points""".split()
L2 = """area contact_area coolant_flow_cross_section cross_section_area free_surface_area surface_area target_cross_section_area
roll_force thermal_diffusivity thermal_conductivity specific_heat_capacity energy_consumption""".split()
L3 = "volume volume_flux coolant_volume_flux power roll_power roll_torque".split()
L0 = """DEFAULT_ITERATION_PRECISION DEFAULT_MAX_ITERATION_COUNT ROLL_PASS_AUTO_ROTATION UNIVERSAL_GAS_CONSTANT altitudinal_stress
astm_grain_size_number back_tension contact_duration core_temperature cross_section_error cross_section_filling_ratio
deformation_activation_energy disk_element_count draught duration elongation elongation_efficiency entry_angle environment_temperature
equivalent_stress exit_angle filling_error filling_ratio flank_angle flow_stress front_tension hydrostatic_stress idle_duration
iteration_precision latitudinal_stress log_draught log_elongation log_spread longitudinal_angle longitudinal_stress max_iteration_count
neutral_angle orientation rel_draught rel_elongation rel_spread rotation rotational_frequency spread strain strain_rate
surface_temperature t target_cross_section_filling_ratio target_filling_ratio temperature zener_holomon_parameter mass_per_meter
alpha1 alpha2 alpha3 alpha4 pad_angle tip_angle""".split()

TABLE = {}
for n in L1:
    TABLE[n] = Fraction(1)
for n in L2:
    TABLE[n] = Fraction(2)
for n in L3:
    TABLE[n] = Fraction(3)
for n in L0:
    TABLE[n] = Fraction(0)
TABLE['density'] = Fraction(-2)

# implementations whose formula is unit-bound by design (recorded as known findings, excluded from the theorem)
EXCEPTIONS = ['astm_grain_size_number']


def to_coq():
    rows = ";\n  ".join(f'("{k}", ({v.numerator} # {v.denominator}))' for k, v in sorted(TABLE.items()))
    exc = "; ".join(f'"{e}"' for e in EXCEPTIONS)
    return ("(* GENERATED from tools/dimtable.py (hand-written table). *)\nFrom Coq Require Import String List QArith.\n"
            "Import ListNotations.\nOpen Scope string_scope.\n"
            f"Definition dim_table : list (string * Q) := [\n  {rows}].\n"
            f"Definition dim_exceptions : list string := [{exc}].\n")
