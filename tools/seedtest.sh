#!/bin/sh
# usage: tools/seedtest.sh <PROP> <patch.diff> [tier]   -- applies the patch to /repo, runs the check, reverts
P=$1; D=$2; T=${3:-quick}
cd /repo || exit 2
if [ -n "$(git status --porcelain)" ]; then echo "repo not clean"; exit 2; fi
git apply "$D" || { echo "patch does not apply"; exit 2; }
cp /verif/evidence/$P.json /tmp/evidence_$P.keep 2>/dev/null
cd /verif && timeout 1500 ./check $P --tier $T > /tmp/seed_$P.log 2>&1; rc=$?
cp /tmp/evidence_$P.keep /verif/evidence/$P.json 2>/dev/null   # evidence files describe runs on the unchanged tree only
cd /repo && git checkout -- . 
echo "exit=$rc"; grep -E "VIOLATION|KNOWN-FINDING|FAILING INPUT|^\[" /tmp/seed_$P.log | cut -c1-400 | head -8
