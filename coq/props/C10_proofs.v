(* Proofs for C10 over the tables regenerated from generic_elongation.py (Gen_groove.v). *)
From PyrollLib Require Import Expr ExprFacts Groove GrooveFacts.
From Run Require Import Gen_groove.
From Coq Require Import Lra Lia.
Open Scope string_scope.
Open Scope R_scope.

(* ---- tie: the regenerated junction chain and contour functions are the hand-written model ---- *)
Lemma tie_junctions rho :
  eval rho g_z0 = hz0 rho /\ eval rho g_y0 = hy0 rho /\ eval rho g_z1 = hz1 rho /\ eval rho g_y1 = hy1 rho /\
  eval rho g_z3 = hz3 rho /\ eval rho g_y3 = hy3 rho /\ eval rho g_z4 = hz4 rho /\ eval rho g_y4 = hy4 rho /\
  eval rho g_z5 = hz5 rho /\ eval rho g_y5 = hy5 rho /\ eval rho g_z6 = hz6 rho /\ eval rho g_y6 = hy6 rho /\
  eval rho g_z7 = hz7 rho /\ eval rho g_y7 = hy7 rho /\ eval rho g_z9 = hz9 /\ eval rho g_y9 = hy9 rho /\
  eval rho g_z2 = hz2 rho /\ eval rho g_y2 = hy2.
Proof. repeat split; reflexivity. Qed.

Lemma tie_functions rho z :
  eval (upd rho "z" z) f_r1_contour_line = hf_r1 rho z /\ eval (upd rho "z" z) f_r2_contour_line = hf_r2 rho z /\
  eval (upd rho "z" z) f_r3_contour_line = hf_r3 rho z /\ eval (upd rho "z" z) f_r4_contour_line = hf_r4 rho z /\
  eval (upd rho "z" z) f_flank_contour_line = hf_flank rho z /\ eval (upd rho "z" z) f_ground_contour_line = hf_ground rho z /\
  eval (upd rho "z" z) f_face_contour_line = hf_face rho z.
Proof. repeat split; reflexivity. Qed.

Lemma tie_local_depth rho z : glocal_depth rho depth_pieces depth_default z = hlocal_depth rho z.
Proof. reflexivity. Qed.

(* ---- the analytic pieces agree at every junction ---- *)
Lemma junction_continuity rho : wellformed rho ->
  let at_ (j f : expr) := eval (upd rho "z" (eval rho j)) f in
  at_ g_z7 f_ground_contour_line = at_ g_z7 f_r4_contour_line /\
  at_ g_z6 f_r4_contour_line = at_ g_z6 f_r3_contour_line /\
  at_ g_z5 f_r3_contour_line = at_ g_z5 f_r2_contour_line /\
  at_ g_z4 f_r2_contour_line = at_ g_z4 f_flank_contour_line /\
  at_ g_z3 f_flank_contour_line = at_ g_z3 f_r1_contour_line /\
  at_ g_z1 f_r1_contour_line = at_ g_z1 f_face_contour_line.
Proof.
  intros W at_. unfold at_.
  repeat split.
  - apply (cont_z7 rho W).
  - apply (cont_z6 rho W).
  - apply (cont_z5 rho W).
  - apply (cont_z4 rho W).
  - apply (cont_z3 rho W).
  - apply (cont_z1 rho W).
Qed.

(* ---- every candidate vertex of the right half lies on the depth function ---- *)
Lemma right_vertex_on_depth rho n p : wellformed rho -> In p (right_points rho n contour_items) ->
  glocal_depth rho depth_pieces depth_default (fst p) = snd p.
Proof.
  intros W I. rewrite tie_local_depth.
  pose proof (wf_o97 rho W); pose proof (wf_o76 rho W); pose proof (wf_o65 rho W); pose proof (wf_o54 rho W);
  pose proof (wf_o43 rho W); pose proof (wf_o31 rho W); pose proof (wf_o10 rho W).
  unfold right_points, contour_items in I. cbn [flat_map item_points] in I.
  repeat (apply in_app_or in I; destruct I as [I|I]).
  - (* z0, y0 : on the face *)
    destruct I as [E|[]]. subst p. cbn [fst snd]. change (eval rho g_z0) with (hz0 rho). change (eval rho g_y0) with (hy0 rho).
    rewrite depth_on_face by (assumption || lra). apply (face_at_z0 rho W).
  - (* r1 arc *)
    unfold seg_points in I. apply in_map_iff in I. destruct I as [i [E Hi]]. apply in_seq in Hi. subst p. cbn [fst snd].
    change (eval rho g_z1) with (hz1 rho). change (eval rho g_z3) with (hz3 rho).
    pose proof (sample_between_down (hz1 rho) (hz3 rho) n i ltac:(lia) ltac:(lra)) as B.
    rewrite depth_on_r1 by (assumption || lra). reflexivity.
  - (* z3, y3 *)
    destruct I as [E|[]]. subst p. cbn [fst snd]. change (eval rho g_z3) with (hz3 rho). change (eval rho g_y3) with (hy3 rho).
    rewrite depth_on_r1 by (assumption || lra). apply (r1_at_z3 rho W).
  - (* r2 arc *)
    unfold seg_points in I. apply in_map_iff in I. destruct I as [i [E Hi]]. apply in_seq in Hi. subst p. cbn [fst snd].
    change (eval rho g_z4) with (hz4 rho). change (eval rho g_z5) with (hz5 rho).
    pose proof (sample_between_down (hz4 rho) (hz5 rho) n i ltac:(lia) ltac:(lra)) as B.
    rewrite depth_on_r2 by (assumption || lra). reflexivity.
  - (* r3 arc *)
    unfold seg_points in I. apply in_map_iff in I. destruct I as [i [E Hi]]. apply in_seq in Hi. subst p. cbn [fst snd].
    change (eval rho g_z5) with (hz5 rho). change (eval rho g_z6) with (hz6 rho).
    pose proof (sample_between_down (hz5 rho) (hz6 rho) n i ltac:(lia) ltac:(lra)) as B.
    rewrite depth_on_r3 by (assumption || lra). reflexivity.
  - (* r4 arc *)
    unfold seg_points in I. apply in_map_iff in I. destruct I as [i [E Hi]]. apply in_seq in Hi. subst p. cbn [fst snd].
    change (eval rho g_z6) with (hz6 rho). change (eval rho g_z7) with (hz7 rho).
    pose proof (sample_between_down (hz6 rho) (hz7 rho) n i ltac:(lia) ltac:(lra)) as B.
    rewrite depth_on_r4 by (assumption || lra). reflexivity.
  - (* z7, y7 : where the even ground begins *)
    destruct I as [E|[]]. subst p. cbn [fst snd]. change (eval rho g_z7) with (hz7 rho). change (eval rho g_y7) with (hy7 rho).
    rewrite depth_on_ground by (assumption || (unfold hz9 in *; lra)). reflexivity.
  - (* z9 = 0, y9 : groove centre *)
    destruct I as [E|[]]. subst p. cbn [fst snd]. change (eval rho g_z9) with 0. change (eval rho g_y9) with (hy9 rho).
    rewrite depth_on_ground by (assumption || lra). reflexivity.
  - destruct I.
Qed.

(* the mirrored half: the depth function is even *)
Lemma vertex_on_depth rho n right p : wellformed rho ->
  (forall q, In q right -> In q (right_points rho n contour_items)) ->      (* the isclose guards only drop items *)
  In p (full_contour right) -> glocal_depth rho depth_pieces depth_default (fst p) = snd p.
Proof.
  intros W Sub I. unfold full_contour in I. apply in_app_or in I. destruct I as [I|I].
  - apply in_map_iff in I. destruct I as [q [E Iq]]. subst p.
    assert (Iq' : In q right).
    { destruct right as [|a l]; [destruct Iq|]. rewrite (app_removelast_last (l := a :: l) (0, 0)) by discriminate.
      apply in_or_app. left. exact Iq. }
    destruct q as [z y]. unfold mirror. cbn [fst snd].
    rewrite tie_local_depth, (hlocal_depth_even rho), <- tie_local_depth.
    apply (right_vertex_on_depth rho n (z, y) W (Sub _ Iq')).
  - apply in_rev in I. apply (right_vertex_on_depth rho n p W (Sub _ I)).
Qed.

(* the polyline is its own mirror image (groove centre on the axis) *)
Lemma contour_symmetric rho (init : list (R * R)) :
  let right := (init ++ [(eval rho g_z9, eval rho g_y9)])%list in
  map mirror (rev (full_contour right)) = full_contour right.
Proof. intro right. apply (full_contour_symmetric right (eval rho g_z9, eval rho g_y9) init); reflexivity. Qed.

(* ---- non-vacuity: a V-shaped groove (flank 45 degrees, usable width 2, depth 1, no radii) is well formed ---- *)
Definition rho_v : env := fun x =>
  if String.eqb x "flank_angle" then PI / 4 else if String.eqb x "usable_width" then 2 else if String.eqb x "depth" then 1 else
  if String.eqb x "pad" then 1 else 0.

Lemma rho_v_wellformed : wellformed rho_v.
Proof.
  assert (C4 : cos (PI / 4) = 1 / sqrt 2) by apply cos_PI4.
  assert (S4 : sin (PI / 4) = 1 / sqrt 2) by apply sin_PI4.
  assert (Q2 : 0 < sqrt 2) by (apply sqrt_lt_R0; lra).
  assert (Q : 0 < 1 / sqrt 2) by (apply Rdiv_lt_0_compat; lra).
  assert (T4 : tan (PI / 4) = 1) by apply tan_PI4.
  assert (V : forall x, rho_v x = if String.eqb x "flank_angle" then PI / 4 else if String.eqb x "usable_width" then 2 else
                                  if String.eqb x "depth" then 1 else if String.eqb x "pad" then 1 else 0) by reflexivity.
  assert (E7 : hz7 rho_v = 0) by (unfold hz7; rewrite V; cbn; field).
  assert (E6 : hz6 rho_v = 0) by (unfold hz6, hz8; rewrite E7, !V; cbn; ring).
  assert (Eb : hbeta rho_v = 0) by (unfold hbeta; rewrite !V; cbn; field).
  assert (E10 : hz10 rho_v = 0) by (unfold hz10; rewrite E6, !V; cbn; ring).
  assert (E5 : hz5 rho_v = 0) by (unfold hz5; rewrite E10, !V; cbn; ring).
  assert (E11 : hz11 rho_v = 0) by (unfold hz11; rewrite E10, !V; cbn; ring).
  assert (Eg : hgamma rho_v = PI / 4) by (unfold hgamma, halpha2; rewrite !V; cbn; field).
  assert (E4 : hz4 rho_v = 0) by (unfold hz4; rewrite E11, !V; cbn; ring).
  assert (El : hl12 rho_v = 0) by (unfold hl12; rewrite !V; cbn; ring).
  assert (E2 : hz2 rho_v = 1) by (unfold hz2; rewrite !V; cbn; field).
  assert (E1 : hz1 rho_v = 1) by (unfold hz1; rewrite E2, El; ring).
  assert (E12 : hz12 rho_v = 1) by (unfold hz12; rewrite E1, !V; cbn; ring).
  assert (E3 : hz3 rho_v = 1) by (unfold hz3; rewrite E12, !V; cbn; ring).
  assert (E0 : hz0 rho_v = 2) by (unfold hz0; rewrite E1, !V; cbn; rewrite cos_0; ring).
  assert (Y9 : hy9 rho_v = 1) by (unfold hy9; rewrite !V; cbn; ring).
  assert (Y11 : hy11 rho_v = 1) by (unfold hy11, hy10, hy6, hy8; rewrite Y9, !V; cbn; ring).
  assert (Y4 : hy4 rho_v = 1) by (unfold hy4; rewrite Y11, !V; cbn; ring).
  assert (Y3 : hy3 rho_v = 0) by (unfold hy3, hy12, hy1; rewrite El, !V; cbn; ring).
  constructor; rewrite ?E7, ?E6, ?E5, ?E4, ?E3, ?E1, ?E0, ?Eb, ?Eg; try (rewrite !V; cbn; lra); try lra.
  - rewrite V; cbn. rewrite cos_0. lra.
  - unfold halpha1. rewrite !V; cbn. replace ((PI / 4 + 0) / 2) with (PI / 8) by field.
    apply Rgt_not_eq. apply cos_gt_0; pose proof PI_RGT_0; lra.
  - rewrite V; cbn. rewrite cos_0. lra.
  - rewrite !V; cbn. replace (0 / 2 - 0) with 0 by field. rewrite cos_0. lra.
  - unfold hf_flank. rewrite Y3, E3, Y4, V; cbn. rewrite T4. ring.
Qed.
