(* C16 - Mutually defined quantities are consistent whichever member is supplied.  ONLY statements.
   The chains are regenerated from the hook implementations on every run.  [upd rho x v] is "supply the
   derived value v for x to a fresh object".  Definedness/bounded time for every subset and read order is
   checked exhaustively on the implementation by the oracle of this check; the cycle-flag mechanism is
   proved in C07. *)
From PyrollLib Require Import ExprFacts.
From Run Require Import Gen_hookimpls C16_proofs.
Open Scope string_scope.
Open Scope R_scope.

Theorem C16_length_duration_roundtrip : forall rho g g' d l,
  rho "velocity" <> 0 ->
  (resolve rho g chain_Unit__duration = CVal d -> resolve (upd rho "duration" d) g' chain_Unit__length = CVal l -> l = rho "length") /\
  (resolve rho g chain_Unit__length = CVal l -> resolve (upd rho "length" l) g' chain_Unit__duration = CVal d -> d = rho "duration").
Proof. exact (fun rho g g' d l V => conj (length_duration_inverse rho g g' d l V) (duration_length_inverse rho g g' d l V)). Qed.
Print Assumptions C16_length_duration_roundtrip.

Theorem C16_radius_diameter_roundtrip : forall rho g g' r d,
  (resolve rho g chain_Roll__nominal_diameter = CVal d -> resolve (upd rho "nominal_diameter" d) g' chain_Roll__nominal_radius = CVal r ->
     r = rho "nominal_radius" /\ d = 2 * rho "nominal_radius") /\
  (resolve rho g chain_Roll__nominal_radius = CVal r -> resolve (upd rho "nominal_radius" r) g' chain_Roll__nominal_diameter = CVal d ->
     d = rho "nominal_diameter").
Proof. exact (fun rho g g' r d => conj (radius_diameter_inverse rho g g' r d) (diameter_radius_inverse rho g g' r d)). Qed.
Print Assumptions C16_radius_diameter_roundtrip.

Theorem C16_frequency_and_velocities_consistent : forall rho f,
  rho "nominal_radius" <> 0 -> rho "working_radius" <> 0 -> velocities_consistent rho f ->
  all_impls_give rho chain_Roll__rotational_frequency f /\
  all_impls_give rho chain_Roll__surface_velocity (rho "surface_velocity") /\
  all_impls_give rho chain_Roll__working_velocity (rho "working_velocity").
Proof. exact frequency_group. Qed.
Print Assumptions C16_frequency_and_velocities_consistent.

Theorem C16_pipe_radius_area_roundtrip : forall rho g g' a r,
  (0 <= rho "inner_radius" -> resolve rho g chain_CoolingPipe__cross_section_area = CVal a ->
     resolve (upd rho "cross_section_area" a) g' chain_CoolingPipe__inner_radius = CVal r ->
     r = rho "inner_radius" /\ a = PI * (rho "inner_radius" * rho "inner_radius")) /\
  (0 <= rho "cross_section_area" -> resolve rho g chain_CoolingPipe__inner_radius = CVal r ->
     resolve (upd rho "inner_radius" r) g' chain_CoolingPipe__cross_section_area = CVal a -> a = rho "cross_section_area").
Proof. exact (fun rho g g' a r => conj (pipe_radius_area rho g g' a r) (pipe_area_radius rho g g' a r)). Qed.
Print Assumptions C16_pipe_radius_area_roundtrip.

Theorem C16_target_width_filling_ratio : forall rho g w q,
  rho "usable_width" <> 0 ->
  resolve rho g chain_BaseRollPass__target_width = CVal w ->
  In (q : R) (map (fun i => match i_body i with Some e => eval (upd rho "target_width" w) e | None => 0 end)
                  (filter (fun i => negb (i_trylast i)) chain_BaseRollPass__target_filling_ratio)) ->
  q = rho "target_filling_ratio".
Proof. exact target_width_ratio. Qed.
Print Assumptions C16_target_width_filling_ratio.

Theorem C16_target_area_filling_ratio : forall rho g g' a q,
  rho "usable_cross_section.area" <> 0 ->
  resolve rho g chain_BaseRollPass__target_cross_section_area = CVal a ->
  resolve (upd rho "target_cross_section_area" a) g' chain_BaseRollPass__target_cross_section_filling_ratio = CVal q ->
  q = rho "target_cross_section_filling_ratio".
Proof. exact target_area_ratio. Qed.
Print Assumptions C16_target_area_filling_ratio.

Theorem C16_neutral_point_angle_roundtrip : forall rho g g' p a,
  rho "working_radius" <> 0 ->
  (- (PI / 2) <= rho "neutral_angle" <= PI / 2 ->
     resolve rho g chain_BaseRollPass_Roll__neutral_point = CVal p ->
     resolve (upd rho "neutral_point" p) g' chain_BaseRollPass_Roll__neutral_angle = CVal a -> a = rho "neutral_angle") /\
  (-1 <= rho "neutral_point" / rho "working_radius" <= 1 ->
     resolve rho g chain_BaseRollPass_Roll__neutral_angle = CVal a ->
     resolve (upd rho "neutral_angle" a) g' chain_BaseRollPass_Roll__neutral_point = CVal p -> p = rho "neutral_point").
Proof.
  exact (fun rho g g' p a W => conj (fun R => neutral_point_angle rho g g' p a R W) (fun R => neutral_angle_point rho g g' p a R W)).
Qed.
Print Assumptions C16_neutral_point_angle_roundtrip.

Example C16_nonvacuous :
  let rho : env := fun _ => 1 in let g : genv := fun k _ => negb (String.eqb k "cycle") in
  Forall (fun ch => exists v, resolve rho g ch = CVal v)
    [chain_Unit__duration; chain_Unit__length; chain_Roll__nominal_diameter; chain_Roll__nominal_radius;
     chain_Roll__rotational_frequency; chain_CoolingPipe__cross_section_area; chain_CoolingPipe__inner_radius;
     chain_BaseRollPass__target_width; chain_BaseRollPass__target_cross_section_area;
     chain_BaseRollPass__target_cross_section_filling_ratio; chain_BaseRollPass_Roll__neutral_point;
     chain_BaseRollPass_Roll__neutral_angle].
Proof. cbv zeta. repeat constructor; eexists; reflexivity. Qed.
