(* C13 - The unit tree stays consistent under every edit of a sequence.  ONLY statements.
   Model: PyrollLib.UnitTree (Unit._SubUnitsList + PassSequence edits), tied to the code by the
   correspondence run of this check.  Inv (UnitFacts.v): every listed unit names the listing sequence as
   its parent; every unit naming a parent is listed there; no unit is listed twice. *)
From PyrollLib Require Import UnitTree UnitFacts UnitFlatten UnitEffects UnitEffectsFacts.
From Run Require Import Gen_unitlist.

Theorem C13_every_edit_preserves_consistency : forall s o,
  Inv s -> admissible s o -> covered o -> Inv (fst (step s o)).
Proof. exact step_inv. Qed.
Print Assumptions C13_every_edit_preserves_consistency.

Theorem C13_every_reachable_state_consistent : forall ops, ok_run init ops -> Inv (fst (run init ops)).
Proof. exact (fun ops H => run_inv ops init inv_init H). Qed.
Print Assumptions C13_every_reachable_state_consistent.

Theorem C13_from_any_consistent_state : forall ops s, Inv s -> ok_run s ops -> Inv (fst (run s ops)).
Proof. exact run_inv. Qed.
Print Assumptions C13_from_any_consistent_state.

Theorem C13_navigation_agrees_with_list_order : forall s q n,
  Inv s -> n < length (kids_of s q) ->
  let u := nth n (kids_of s q) 0 in
  par_of s u = Some q /\
  prev_of s u = (match n with 0 => NErr IndexError | S m => NUnit (nth m (kids_of s q) 0) end) /\
  next_of s u = (if Nat.eqb (S n) (length (kids_of s q)) then NErr IndexError else NUnit (nth (S n) (kids_of s q) 0)).
Proof. exact nav_agrees. Qed.
Print Assumptions C13_navigation_agrees_with_list_order.

Theorem C13_removed_unit_names_no_parent : forall s u,
  Inv s -> (forall q, ~ In u (kids_of s q)) -> par_of s u = None.
Proof. exact detached_has_no_parent. Qed.
Print Assumptions C13_removed_unit_names_no_parent.

(* PassSequence.flatten (walk over a snapshot, inner sequences dissolved on the spot, list rebuilt) preserves consistency for every
   sequence that does not list itself; with it, every admissible history keeps every reachable state consistent *)
Theorem C13_flatten_preserves_consistency : forall s q, Inv s -> ~ In q (kids_of s q) -> Inv (fst (step s (Flatten q))).
Proof. exact flatten_inv. Qed.
Print Assumptions C13_flatten_preserves_consistency.

Theorem C13_every_history_with_flatten : forall ops s, Inv s -> ok_run_all s ops -> Inv (fst (run s ops)).
Proof. exact run_inv_all. Qed.
Print Assumptions C13_every_history_with_flatten.

(* T-U: the list-editing methods of Unit._SubUnitsList, regenerated from the source as effect sequences (inherited list operation, release loop,
   adoption loop, in source order), are the ones the model assumes: each performs exactly one list operation, releases / adopts what the model
   says, and never adopts before it releases ... *)
Example C13_list_methods_as_modelled : methods_ok gen_methods = true.
Proof. vm_compute. reflexivity. Qed.

(* ... hence every method of the source, run effect by effect in its own order, yields the state of the model's `update` *)
Theorem C13_every_list_method_is_its_model : forall name effs, In (name, effs) gen_methods ->
  exists d a, flags_of name model_flags = Some (d, a) /\
    forall s q l' D A, apply_effects effs s q l' D A = update s q l' (if d then D else []) (if a then A else []).
Proof. exact (methods_as_modelled gen_methods C13_list_methods_as_modelled). Qed.
Print Assumptions C13_every_list_method_is_its_model.

(* adopting before releasing is not equivalent: a unit kept across a slice assignment would stay listed without naming its parent *)
Theorem C13_adopt_before_release_refuted :
  let s' := apply_effects [EAttach; EList; EDetach] overlap_state 10 [1] [1; 2] [1] in
  Inv overlap_state /\ In 1 (kids_of s' 10) /\ par_of s' 1 = None /\
  par_of (update overlap_state 10 [1] [1; 2] [1]) 1 = Some 10.
Proof. exact adopt_before_release_refuted. Qed.
Print Assumptions C13_adopt_before_release_refuted.

(* an instance by computation: what flatten produces *)
Definition flat_demo : list op :=
  [NewUnit 1 KPass 1; NewUnit 2 KTransport 2; NewUnit 3 KPass 3; NewUnit 4 KOther 4;
   Construct 10 [1; 2] 10; Construct 11 [10; 3; 4] 11; Flatten 11].
Example C13_flatten_instance :
  let s := fst (run init flat_demo) in
  kids_of s 11 = [1; 2; 3; 4] /\ kids_of s 10 = [] /\ par_of s 10 = None /\
  par_of s 1 = Some 11 /\ par_of s 2 = Some 11 /\ prev_of s 3 = NUnit 2.
Proof. vm_compute. repeat split. Qed.

(* adding a unit that is still listed elsewhere breaks consistency (known finding D4'): the hypothesis
   [admissible] is necessary *)
Example C13_add_listed_unit_refuted :
  let s := fst (run init [NewUnit 1 KPass 1; Construct 10 [1] 10; Construct 11 [] 11; Append 11 1]) in
  In 1 (kids_of s 10) /\ par_of s 1 = Some 11.
Proof. vm_compute. split; [left; reflexivity | reflexivity]. Qed.

Example C13_nonvacuous :
  ok_run init [NewUnit 1 KPass 1; NewUnit 2 KTransport 2; Construct 10 [1] 10; Append 10 2; Reverse 10; Pop 10 None;
               SetItem 10 0 1; Remove 10 1; Clear 10].
Proof.
  vm_compute. repeat match goal with |- _ /\ _ => split end; try reflexivity; try exact I; try (left; reflexivity);
  try (repeat constructor; cbn; intuition discriminate).
Qed.
