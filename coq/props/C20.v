(* C20 - Configuration values resolve as explicit value, else environment, else default.
   ONLY statements.  gen_params is regenerated from pyroll/core/config.py on every run (T-G);
   the model (PyrollLib.Config) is run against the implementation by the X-tie of this check. *)
From PyrollLib Require Import Config ConfigFacts.
From Run Require Import Gen_config.
Open Scope Z_scope.

(* the tie: the code's test order / source order / update mode make the model's transition
   function the standard one, for which everything below is proved *)
Theorem C20_dispatch_order : forall t, classify (p_dispatch gen_params) t = natural_kind t.
Proof. exact (fun t => match t with TBool | TInt | TFloat | TStr | TPath | TEnum _ | TDict | TList | TTuple => eq_refl end). Qed.
Print Assumptions C20_dispatch_order.

Theorem C20_code_is_standard : forall st o, step gen_params st o = step std_params st o.
Proof.
  exact (step_params_ext gen_params std_params eq_refl eq_refl eq_refl
           (fun t => eq_trans (C20_dispatch_order t) (eq_sym (std_dispatch_natural t)))).
Qed.
Print Assumptions C20_code_is_standard.

(* explicit (unless None) > environment text parsed to the default's type > default *)
Theorem C20_precedence : forall st n c,
  lookup (known st) n = Some c ->
  snd (step std_params st (Get n)) =
    OVal (resolve_spec (p_dispatch std_params) c (lookup (explicit st) n) (lookup (envm st) n)).
Proof. exact get_precedence. Qed.
Print Assumptions C20_precedence.

(* what is stored for a name after ANY history is the fold of the per-operation effects ... *)
Theorem C20_step_explicit : forall st o m,
  lookup (explicit (fst (step std_params st o))) m = explicit_effect st o m (lookup (explicit st) m).
Proof. exact step_explicit. Qed.
Print Assumptions C20_step_explicit.

Theorem C20_step_known_env : forall st o,
  known (fst (step std_params st o)) = known st /\
  (forall m, lookup (envm (fst (step std_params st o))) m =
     match o with
     | SetEnv n s => if str_eqb n m then Some s else lookup (envm st) m
     | UnsetEnv n => if str_eqb n m then None else lookup (envm st) m
     | _ => lookup (envm st) m end).
Proof. exact step_known_env. Qed.
Print Assumptions C20_step_known_env.

(* ... and operations that do not name m never change it (any interleaving, any length) *)
Theorem C20_explicit_frame : forall ops st m,
  forallb (fun o => negb (mentions o m)) ops = true ->
  lookup (explicit (fst (run std_params st ops))) m = lookup (explicit st) m.
Proof. exact explicit_frame. Qed.
Print Assumptions C20_explicit_frame.

Theorem C20_delete_restores : forall st n c,
  lookup (known st) n = Some c -> lookup (explicit st) n <> None ->
  let st' := fst (step std_params st (Del n)) in
  snd (step std_params st (Del n)) = ODone /\
  snd (step std_params st' (Get n)) =
    OVal (match lookup (envm st) n with Some s => parse (p_dispatch std_params) (cv_ty c) s | None => Ok (cv_default c) end).
Proof. exact delete_restores. Qed.
Print Assumptions C20_delete_restores.

Theorem C20_falsy_honoured : forall st n c v,
  lookup (known st) n = Some c -> v = VInt 0 \/ v = VBool false \/ v = VStr [] \/ v = VList [] ->
  snd (step std_params (fst (step std_params st (Set_ n v))) (Get n)) = OVal (Ok v).
Proof. exact falsy_honoured. Qed.
Print Assumptions C20_falsy_honoured.

Theorem C20_update_exact : forall st l,
  (all_known st l = true ->
     snd (step std_params st (Update l)) = ODone /\
     forall m, lookup (explicit (fst (step std_params st (Update l)))) m = upd_effect l m (lookup (explicit st) m)) /\
  (all_known st l = false -> step std_params st (Update l) = (st, ORaise AttributeError)).
Proof. exact update_exact. Qed.
Print Assumptions C20_update_exact.

(* parsing inverts the natural text form *)
Theorem C20_bool_roundtrip : forall (b : bool) (s w1 w2 : str),
  lower s = s2l (if b then "true" else "false") -> allws w1 -> allws w2 ->
  parse (p_dispatch gen_params) TBool (w1 ++ s ++ w2) = Ok (VBool b).
Proof. exact parse_bool_roundtrip. Qed.
Print Assumptions C20_bool_roundtrip.

Theorem C20_bool_rejects : forall s,
  strip (lower s) <> s2l "true" -> strip (lower s) <> s2l "false" ->
  parse (p_dispatch gen_params) TBool s = Err ValueError.
Proof. exact parse_bool_rejects. Qed.
Print Assumptions C20_bool_rejects.

Theorem C20_int_numeral : forall (sg : sign) (d : nat) (ds : list nat) (w1 w2 : str),
  Forall (fun d => (d < 10)%nat) (d :: ds) -> allws_by is_wsi w1 -> allws_by is_wsi w2 ->
  parse (p_dispatch gen_params) TInt (w1 ++ (sign_str sg ++ numeral (d :: ds)) ++ w2)
  = Ok (VInt (sign_apply sg (value_from 0 (d :: ds)))).
Proof.
  exact (fun sg d ds w1 w2 H H1 H2 =>
           f_equal (fun o => match o with Some z => Ok (VInt z) | None => Err ValueError end)
                   (py_int_numeral sg d ds w1 w2 H H1 H2)).
Qed.
Print Assumptions C20_int_numeral.

Theorem C20_str_path_identity : forall s,
  parse (p_dispatch gen_params) TStr s = Ok (VStr s) /\ parse (p_dispatch gen_params) TPath s = Ok (VPath s).
Proof. exact (fun s => conj eq_refl eq_refl). Qed.
Print Assumptions C20_str_path_identity.

(* lists and tuples, the empty one included (its text form is the empty text); the one list without a text form of its own is [""] *)
Theorem C20_list_tuple_roundtrip : forall l : list str,
  l <> [[]] -> Forall (free_of ","%char) l -> Forall trimmed l ->
  parse (p_dispatch gen_params) TList (join ","%char l) = Ok (VList l) /\
  parse (p_dispatch gen_params) TTuple (join ","%char l) = Ok (VTuple l).
Proof. exact (fun l H1 H2 H3 => list_and_tuple_parse (p_dispatch gen_params) l H1 H2 H3 eq_refl eq_refl). Qed.
Print Assumptions C20_list_tuple_roundtrip.

Theorem C20_mapping_roundtrip : forall kvs : list (str * str),
  Forall (fun kv => clean (fst kv) /\ clean (snd kv) /\ fst kv <> [] /\ snd kv <> []) kvs ->
  parse (p_dispatch gen_params) TDict (join ","%char (map kv_text kvs)) = Ok (VDict (dict_build kvs [])).
Proof. exact dict_roundtrip. Qed.

(* repaired defect: before, the empty text parsed to [""] (a list holding one empty string) and was rejected for mappings *)
Example C20_empty_collections :
  parse (p_dispatch gen_params) TList [] = Ok (VList []) /\ parse (p_dispatch gen_params) TTuple (s2l "  ") = Ok (VTuple []) /\
  parse (p_dispatch gen_params) TDict [] = Ok (VDict []).
Proof. vm_compute. repeat split. Qed.
Print Assumptions C20_mapping_roundtrip.

(* T-G: the spellings of a member name tried by the source are the ones of the model *)
Example C20_enum_lookup_as_modelled : gen_enum_lookup = enum_lookup.
Proof. reflexivity. Qed.

Theorem C20_enum_by_number_or_name : forall m s name z,
  (py_int s = Some z -> by_value m z = Some name -> parse (p_dispatch gen_params) (TEnum m) s = Ok (VEnum name)) /\
  (py_int s = None -> by_name m s = None -> by_name m (upper s) = Some name -> parse (p_dispatch gen_params) (TEnum m) s = Ok (VEnum name)) /\
  ((py_int s = None \/ by_value m z = None /\ py_int s = Some z) -> by_name m s = None -> by_name m (upper s) = None ->
     parse (p_dispatch gen_params) (TEnum m) s = Err KeyError).
Proof. exact (fun m s name z => conj (enum_by_number m s name z) (conj (enum_by_name m s name) (enum_rejects m s z))). Qed.
Print Assumptions C20_enum_by_number_or_name.

(* every member of every enumeration is found by its own name, whatever its letter case (the natural text form of a member) ... *)
Theorem C20_enum_member_by_own_name : forall (m : list (str * Z)) (n : str),
  In n (map fst m) -> py_int n = None -> parse (p_dispatch gen_params) (TEnum m) n = Ok (VEnum n).
Proof. exact (fun m n H1 H2 => enum_member_by_own_name [NUpper] m n H1 H2). Qed.
Print Assumptions C20_enum_member_by_own_name.

(* ... and whatever is accepted by name is a member, spelled exactly or in upper case *)
Theorem C20_enum_parse_sound : forall (m : list (str * Z)) (s n : str),
  py_int s = None -> parse (p_dispatch gen_params) (TEnum m) s = Ok (VEnum n) -> In n (map fst m) /\ (n = s \/ n = upper s).
Proof. exact enum_parse_sound. Qed.
Print Assumptions C20_enum_parse_sound.

(* repaired defect: with the pinned lookup (upper-cased spelling only) a member named in lower case was not found *)
Theorem C20_enum_member_pinned_refuted :
  exists m n, In n (map fst m) /\ py_int n = None /\ parse_enum_with [NUpper] m n = Err KeyError.
Proof. exact enum_member_pinned_refuted. Qed.
Print Assumptions C20_enum_member_pinned_refuted.

Example C20_nonvacuous :
  let st := {| known := [(s2l "N", {| cv_ty := TInt; cv_default := VInt 7 |})]; explicit := []; envm := [] |} in
  snd (run gen_params st [Get (s2l "N"); SetEnv (s2l "N") (s2l " -1_0 "); Get (s2l "N"); Set_ (s2l "N") (VInt 0);
                          Get (s2l "N"); Del (s2l "N"); Get (s2l "N"); Update [(s2l "X", VInt 1)]])
  = [OVal (Ok (VInt 7)); ODone; OVal (Ok (VInt (-10))); ODone; OVal (Ok (VInt 0)); ODone; OVal (Ok (VInt (-10)));
     ORaise AttributeError].
Proof. vm_compute. reflexivity. Qed.
