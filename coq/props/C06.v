(* C06 - State is handed over unchanged and volume conserved along solved sequences.  ONLY statements. *)
From PyrollLib Require Import ExprFacts Handover Geo2D.
From Run Require Import Gen_hookimpls C06_proofs.
Open Scope string_scope.
Open Scope R_scope.

(* hand-over: a profile built from another one carries exactly its public explicit values *)
Theorem C06_handover_copies_public_values : forall d k,
  (is_public k = true -> plookup (handover d) k = plookup d k) /\ (is_public k = false -> plookup (handover d) k = None).
Proof. exact (fun d k => conj (handover_public d k) (handover_private d k)). Qed.
Print Assumptions C06_handover_copies_public_values.

Theorem C06_time_and_position_advance : forall rho g t x,
  (resolve rho g chain_Unit_OutProfile__t = CVal t -> t = rho "unit.in_profile.t" + rho "unit.duration") /\
  (resolve rho g chain_Unit_OutProfile__x = CVal x -> x = rho "unit.in_profile.x" + rho "unit.length").
Proof. exact (fun rho g t x => conj (time_advances rho g t) (position_advances rho g x)). Qed.
Print Assumptions C06_time_and_position_advance.

(* along any sequence (each unit adds its duration to what it received): the final time is the initial one plus the sum
   of the durations, and time never decreases when durations are non-negative *)
Theorem C06_time_telescopes : forall t0 ds,
  last (times t0 ds) t0 = t0 + sum ds /\ (Forall (fun d => 0 <= d) ds -> Forall (fun t => t0 <= t) (times t0 ds)).
Proof. exact (fun t0 ds => conj (times_last t0 ds) (times_monotone t0 ds)). Qed.
Print Assumptions C06_time_telescopes.

Theorem C06_volume_conserved_through_a_pass : forall rho g lo e,
  rho "in_profile.cross_section.area" <> 0 -> rho "out_profile.cross_section.area" <> 0 ->
  resolve rho g chain_DeformationUnit__elongation = CVal e ->
  resolve (upd rho "roll_pass.elongation" e) g chain_BaseRollPass_OutProfile__length = CVal lo ->
  rho "out_profile.cross_section.area" * lo = rho "in_profile.cross_section.area" * rho "roll_pass.in_profile.length".
Proof. exact volume_conserved. Qed.
Print Assumptions C06_volume_conserved_through_a_pass.

(* the exact lag identity behind "within the iteration precision" *)
Theorem C06_volume_lag_identity : forall rho g lo e Ak,
  rho "in_profile.cross_section.area" <> 0 -> rho "out_profile.cross_section.area" <> 0 -> rho "roll_pass.in_profile.length" <> 0 ->
  resolve rho g chain_DeformationUnit__elongation = CVal e ->
  resolve (upd rho "roll_pass.elongation" e) g chain_BaseRollPass_OutProfile__length = CVal lo ->
  (Ak * lo) / (rho "in_profile.cross_section.area" * rho "roll_pass.in_profile.length") = Ak / rho "out_profile.cross_section.area".
Proof. exact volume_lag. Qed.
Print Assumptions C06_volume_lag_identity.

Theorem C06_strain_accumulates_and_resets : forall rho g s,
  (resolve rho g chain_BaseRollPass_OutProfile__strain = CVal s -> s = rho "roll_pass.in_profile.strain" + rho "roll_pass.strain") /\
  (resolve rho g chain_Transport_OutProfile__strain = CVal s -> s = 0).
Proof. exact (fun rho g s => conj (strain_accumulates rho g s) (transport_resets_strain rho g s)). Qed.
Print Assumptions C06_strain_accumulates_and_resets.

(* a sequence's elongation is the product of its units' elongations (areas handed over unchanged) *)
Theorem C06_sequence_elongation_is_the_product : forall As a0, a0 <> 0 -> Forall (fun a => a <> 0) As ->
  prod (elongations a0 As) = a0 / last As a0.
Proof. exact elongation_product. Qed.
Print Assumptions C06_sequence_elongation_is_the_product.

Theorem C06_sequence_elongation_formula : forall rho g e,
  resolve rho g chain_PassSequence__elongation = CVal e ->
  e = rho "in_profile.cross_section.area" / rho "out_profile.cross_section.area".
Proof. exact sequence_elongation_is_area_ratio. Qed.
Print Assumptions C06_sequence_elongation_formula.

(* rotators: no time, and the area of the turned cross-section is the same *)
Theorem C06_rotator_conserves : forall rho g d a l,
  (resolve rho g chain_Rotator__duration = CVal d -> d = 0) /\ area (map (rot a) l) = area l.
Proof. exact (fun rho g d a l => conj (rotator_takes_no_time rho g d) (area_rot a l)). Qed.
Print Assumptions C06_rotator_conserves.

(* disk elements: n parts of 1/n add up to the parent's length and duration *)
Theorem C06_disk_elements : forall rho g l d (n : nat) L,
  (resolve rho g chain_DiskElementUnit_DiskElement__length = CVal l ->
   resolve rho g chain_DiskElementUnit_DiskElement__duration = CVal d ->
   l = rho "parent.length" / rho "parent.disk_element_count" /\ d = rho "parent.duration" / rho "parent.disk_element_count") /\
  ((0 < n)%nat -> sum (repeat (L / INR n) n) = L).
Proof. exact (fun rho g l d n L => conj (disk_parts rho g l d) (disk_sum n L)). Qed.
Print Assumptions C06_disk_elements.

Example C06_nonvacuous :
  times 1 [2; 0; 3] = [1 + 2; 1 + 2 + 0; 1 + 2 + 0 + 3] /\ elongations 8 [4; 2] = [8 / 4; 4 / 2] /\
  exists v, resolve (fun _ => 1) (fun _ _ => true) chain_BaseRollPass_OutProfile__length = CVal v.
Proof. repeat split. eexists. reflexivity. Qed.
