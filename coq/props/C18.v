(* C18 - Pre-/post-processors run in hierarchy order and affect only what they should.  ONLY statements.
   Model: PyrollLib.Processors, tied to pyroll/core/unit/unit.py by the correspondence run. *)
From PyrollLib Require Import Processors ProcFacts ProcNest ProcNestFacts.

(* for every history of class definitions and registrations: the per-class lists are exactly the
   registrations made on that class since it was defined, in order *)
Theorem C18_lists_are_the_registrations : forall ops,
  Inv (fst (run init ops)) (fold_left log_pre_step ops []) (fold_left log_post_step ops []).
Proof. exact (fun ops => run_inv ops init [] [] inv_init). Qed.
Print Assumptions C18_lists_are_the_registrations.

(* what a solve does: pre-processors of base classes before those of subclasses, registration order within a
   class, factories returning nothing skipped, each receiving its predecessor's output (the marks accumulate in
   this order); the incoming profile carries exactly the pre marks; post-processors then run in the same
   hierarchy order on the returned profile only *)
Theorem C18_solve_order : forall s lp lq c, Inv s lp lq ->
  solve_obs s c =
  let a := procs (spec_walk (mro_of s c) lp) in
  let b := procs (spec_walk (mro_of s c) lq) in
  {| o_calls := a ++ b; o_in := a; o_out := a; o_ret := a ++ b |}.
Proof. exact solve_order. Qed.
Print Assumptions C18_solve_order.

Theorem C18_scope_class_and_subclasses_only : forall m log f,
  In f (spec_walk m log) <-> exists k, In k m /\ In (k, f) log.
Proof. exact walk_scope. Qed.
Print Assumptions C18_scope_class_and_subclasses_only.

Theorem C18_post_processors_do_not_touch_the_unit : forall s c,
  o_out (solve_obs s c) = o_in (solve_obs s c) /\
  o_ret (solve_obs s c) = o_out (solve_obs s c) ++ procs (walk s (post s) c).
Proof. exact post_frame. Qed.
Print Assumptions C18_post_processors_do_not_touch_the_unit.

(* processors are units like any other (ProcNest: a factory answers with nothing or with a processor UNIT of some class, whose own class registrations
   run around its work - also when it belongs to the class the factory is registered on).  For every state, every class, every nesting depth and every
   table of answers: the unit solved at depth d - the outer unit or a processor at any depth - is asked for by exactly the factories of the walk over its
   class, pre then post, each once, in order.  Tied to Unit.solve by the nested correspondence run. *)
Theorem C18_every_unit_is_asked_for_like_any_other : forall fuel s c d a p q, nsolve fuel s c d = Some (a, p, q) ->
  own_asks d a = map nf_id (nwalk s (npre s) c) ++ map nf_id (nwalk s (npost s) c).
Proof. exact every_factory_asked_once. Qed.
Print Assumptions C18_every_unit_is_asked_for_like_any_other.

(* a factory whose product belongs to the class it is registered on: asked at every depth; a re-entrancy guard that skips the factory while its own
   product is solved is refuted on the same state (the innermost stage never exists, one processor is lost) *)
Theorem C18_own_class_product_and_guard_refuted :
  nsolve 10 stage_state 0 0 = Some ([(1, 0); (1, 1); (1, 2); (2, 2); (2, 1); (2, 0)], [602; 702; 601; 701; 600], []) /\
  nsolve_guarded 10 [] stage_state 0 0 = Some ([(1, 0); (2, 1); (2, 0)], [601; 701; 600], []).
Proof. exact own_class_product. Qed.
Print Assumptions C18_own_class_product_and_guard_refuted.

Definition demo : list op :=
  [NewClass 0 [0]; NewClass 1 [1; 0]; NewClass 2 [2; 0];
   RegPre 1 {| f_id := 1; f_ret := Some 11 |}; RegPre 0 {| f_id := 2; f_ret := Some 12 |};
   RegPre 0 {| f_id := 3; f_ret := None |}; RegPost 2 {| f_id := 4; f_ret := Some 14 |};
   RegPost 0 {| f_id := 5; f_ret := Some 15 |}; NewClass 3 [3; 1; 0]; Solve 1; Solve 2; Solve 3].
Example C18_nonvacuous :
  map (fun x => match x with Some o => o_calls o | None => [] end) (snd (run init demo)) =
  [[]; []; []; []; []; []; []; []; []; [12; 11; 15]; [12; 15; 14]; [12; 11; 15]].
Proof. vm_compute. reflexivity. Qed.
