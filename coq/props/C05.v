(* C05 - Solve is bounded, reports convergence honestly and is reproducible.  ONLY statements.
   Model: PyrollLib.SolveLoop (the loop of Unit.solve with numpy's nan/inf/broadcasting semantics), tied to
   unit.py by the correspondence run (scripted units, several solves per unit). *)
From PyrollLib Require Import SolveLoop SolveFacts.

Theorem C05_bounded : forall p maxit old script, (snd (solve p maxit old script) <= maxit - 1)%nat.
Proof. exact solve_bound. Qed.
Print Assumptions C05_bounded.

(* 'Finished after k iterations' only if the k-th iterate passed the relative test against the stored vector,
   which for k > 1 is the (k-1)-th iterate of the same solve; on a fresh unit the stored vector is nan and
   the first iterate cannot pass (C05_fresh_unit_needs_two_iterations) *)
Theorem C05_converged_sound : forall p r old script i k st n,
  loop p old script i r = (Converged k, st, n) ->
  exists cur prev, (i <= k < i + r)%nat /\ nth_error script (k - i) = Some (IVec cur) /\
                   prev_of old script (k - i) = Some prev /\ close p prev cur = VTrue /\ st = prev /\ n = k.
Proof. exact converged_sound. Qed.
Print Assumptions C05_converged_sound.

(* every solve - the first and every later one on the same unit - starts from the scalar nan, so it ends without the warning only if two
   consecutive iterates of THIS solve agree within the precision *)
Theorem C05_every_solve_needs_two_agreeing_iterates : forall p maxit script k st n,
  solve p maxit SNan script = (Converged k, st, n) ->
  (exists cur, nth_error script (k - 1) = Some (IVec cur) /\
     ((k = 1%nat /\ cur = []) \/
      (2 <= k /\ exists prev, nth_error script (k - 2) = Some (IVec prev) /\ close p (SVec prev) cur = VTrue /\ st = SVec prev)%nat)).
Proof. exact solve_converged_needs_two_iterates. Qed.
Print Assumptions C05_every_solve_needs_two_agreeing_iterates.

Theorem C05_fresh_unit_needs_two_iterations : forall p v, v <> [] -> close p SNan v = VFalse.
Proof. exact fresh_unit_needs_two_iterations. Qed.
Print Assumptions C05_fresh_unit_needs_two_iterations.

(* the warning is issued iff every allowed iteration failed the test *)
Theorem C05_warning_iff_never_converged : forall p r old script i,
  (exists st n, loop p old script i r = (Warned, st, n)) <-> all_fail p old script r.
Proof. exact warned_iff. Qed.
Print Assumptions C05_warning_iff_never_converged.

Theorem C05_relative_test_finite : forall p o c,
  close1 p (Fin o) (Fin c) = Qle_bool (Qabs (c - o)) (Qabs o * p).
Proof. exact close1_finite. Qed.
Print Assumptions C05_relative_test_finite.

(* boundary behaviour: equality passes (<=), one failing component fails (all), convergence at the very last
   allowed iteration is still convergence, one iteration more would be needed otherwise *)
Example C05_boundaries :
  close (1 # 4) (SVec [Fin 4; Fin 8]) [Fin 5; Fin 8] = VTrue /\
  close (1 # 4) (SVec [Fin 4; Fin 8]) [Fin 5; Fin (21 # 2)] = VFalse /\
  fst (fst (solve (1 # 4) 4 SNan [IVec [Fin 1]; IVec [Fin 2]; IVec [Fin 2]])) = Converged 3 /\
  fst (fst (solve (1 # 4) 3 SNan [IVec [Fin 1]; IVec [Fin 2]; IVec [Fin 2]])) = Warned /\
  close (1 # 4) (SVec [Fin 0]) [Fin 0] = VTrue /\ close (1 # 4) (SVec [Fin 0]) [Fin (1 # 1000)] = VFalse /\
  close (1 # 4) (SVec [NaN]) [NaN] = VFalse /\ close (1 # 4) SNan [] = VTrue.
Proof. vm_compute. repeat split. Qed.
