(* Proofs for C04: the closed forms and residuals regenerated from the solvers (Gen_solvers.v, T-E) imply that the junction
   chain regenerated from generic_elongation.py (Gen_groove.v, T-D) closes at z4. *)
From PyrollLib Require Import Expr ExprFacts Groove GrooveFacts GrooveClosure.
From Run Require Import Gen_groove Gen_solvers C10_proofs.
From Coq Require Import Lra Lia Nsatz.
Open Scope string_scope.
Open Scope R_scope.

(* "closes": the contour function of the flank, evaluated at z4, gives y4 (regenerated terms) *)
Definition closes (rho : env) : Prop := eval (upd rho "z" (eval rho g_z4)) f_flank_contour_line = eval rho g_y4.

Lemma closes_hand rho : closes rho <-> hf_flank rho (hz4 rho) = hy4 rho.
Proof. unfold closes. split; intro H; exact H. Qed.

Definition no_r3 (rho : env) : Prop := rho "r3" = 0 /\ rho "alpha3" = 0.
Definition angles_ok (rho : env) : Prop :=
  0 < cos (rho "flank_angle") /\ 0 < sin (rho "flank_angle") /\ cos ((rho "flank_angle" + rho "pad_angle") / 2) <> 0.
Definition indent_ok (rho : env) : Prop := (rho "r2" + rho "r4") * (1 - cos (rho "alpha4")) = rho "indent".

(* alpha4 = arccos(1 - indent / (r2 + r4)) establishes indent_ok *)
Lemma alpha4_formula rho : 0 < rho "r2" + rho "r4" -> 0 <= rho "indent" <= 2 * (rho "r2" + rho "r4") ->
  rho "alpha4" = eval rho te_box_alpha4 -> rho "alpha4" = eval rho te_r124_alpha4 /\ indent_ok rho.
Proof.
  intros P I E. split; [exact E|]. unfold indent_ok. rewrite E. cbn [eval te_box_alpha4].
  rewrite cos_acos.
  - field. lra.
  - assert (0 <= rho "indent" / (rho "r2" + rho "r4") <= 2); [|lra].
    split; [apply Rmult_le_pos; [lra | apply Rlt_le, Rinv_0_lt_compat; exact P]|].
    apply (Rmult_le_reg_r (rho "r2" + rho "r4")); [exact P|]. unfold Rdiv. rewrite Rmult_assoc, Rinv_l by lra. lra.
Qed.

Lemma family rho : no_r3 rho -> angles_ok rho -> indent_ok rho -> (closes rho <-> family_eq rho).
Proof.
  intros [R3 A3] [Cf [Sf Ch]] I. rewrite closes_hand. apply family_closure; assumption.
Qed.

(* ---- solve_r124: the explicit formulas *)
Lemma r124_width rho : no_r3 rho -> angles_ok rho -> indent_ok rho ->
  rho "usable_width" = eval rho te_r124_width_formula + rho "even_ground_width" -> closes rho.
Proof.
  intros N A I E. apply (family rho N A I). unfold family_eq. rewrite E. cbn [eval te_r124_width_formula]. field.
  destruct A as [Cf [Sf _]]. unfold tan. intro T. apply Rmult_integral in T. destruct T as [T|T]; [lra|].
  apply (Rinv_neq_0_compat (cos (rho "flank_angle"))); [lra | exact T].
Qed.

Lemma r124_depth rho : no_r3 rho -> angles_ok rho -> indent_ok rho ->
  rho "depth" = eval (upd rho "width" (rho "usable_width" - rho "even_ground_width")) te_r124_depth_formula -> closes rho.
Proof.
  intros N A I E. apply (family rho N A I). unfold family_eq. rewrite E. cbn [eval te_r124_depth_formula].
  change (upd rho "width" (rho "usable_width" - rho "even_ground_width") "width") with (rho "usable_width" - rho "even_ground_width").
  change (upd rho "width" (rho "usable_width" - rho "even_ground_width") "r2") with (rho "r2").
  change (upd rho "width" (rho "usable_width" - rho "even_ground_width") "r4") with (rho "r4").
  change (upd rho "width" (rho "usable_width" - rho "even_ground_width") "flank_angle") with (rho "flank_angle").
  change (upd rho "width" (rho "usable_width" - rho "even_ground_width") "alpha4") with (rho "alpha4").
  destruct A as [Cf [Sf _]].
  assert (T : tan (rho "flank_angle") <> 0) by (unfold tan; apply Rgt_not_eq; apply Rdiv_lt_0_compat; assumption).
  field. exact T.
Qed.

(* ---- flank given by length, width or height: the three variants describe one vector along the flank *)
Lemma variants_parallel rho key fw fh : In (key, fw, fh) te_variants -> 0 < cos (rho "alpha") -> 0 < sin (rho "alpha") ->
  eval rho fh = eval rho fw * tan (rho "alpha").
Proof.
  intros I C S. unfold te_variants in I. unfold tan.
  destruct I as [E|[E|[E|[]]]]; inversion E; subst; cbn [eval]; unfold tan; field; lra.
Qed.

(* a root of the residual of the width-None branch makes the flank as high as requested: y4 - y3 = fh *)
Lemma r124_flank_height rho fh : no_r3 rho -> angles_ok rho -> indent_ok rho ->
  eval (upd (upd rho "alpha" (rho "flank_angle")) "fh" fh) te_r124_res_width_none = 0 ->
  eval rho g_y4 - eval rho g_y3 = fh.
Proof.
  intros [R3 A3] [Cf [Sf Ch]] I E. change (eval rho g_y4) with (hy4 rho). change (eval rho g_y3) with (hy3 rho).
  rewrite (family_y4 rho R3 A3 I), (y3_along_flank rho Ch). unfold hl12, halpha1.
  cbn [eval te_r124_res_width_none] in E.
  change (upd (upd rho "alpha" (rho "flank_angle")) "fh" fh "fh") with fh in E.
  change (upd (upd rho "alpha" (rho "flank_angle")) "fh" fh "alpha") with (rho "flank_angle") in E.
  change (upd (upd rho "alpha" (rho "flank_angle")) "fh" fh "depth") with (rho "depth") in E.
  change (upd (upd rho "alpha" (rho "flank_angle")) "fh" fh "r2") with (rho "r2") in E.
  change (upd (upd rho "alpha" (rho "flank_angle")) "fh" fh "r1") with (rho "r1") in E.
  change (upd (upd rho "alpha" (rho "flank_angle")) "fh" fh "pad_angle") with (rho "pad_angle") in E.
  lra.
Qed.

(* ... and, the contour being closed, as wide: z3 - z4 = fh / tan(flank_angle) *)
Lemma flank_width_from_height rho : angles_ok rho -> closes rho ->
  (eval rho g_z3 - eval rho g_z4) * tan (rho "flank_angle") = eval rho g_y4 - eval rho g_y3.
Proof.
  intros [Cf [Sf Ch]] C0. pose proof (proj1 (closes_hand rho) C0) as C.
  change (eval rho g_z3) with (hz3 rho). change (eval rho g_z4) with (hz4 rho).
  change (eval rho g_y3) with (hy3 rho). change (eval rho g_y4) with (hy4 rho).
  rewrite <- C. unfold hf_flank. ring.
Qed.

(* ---- solve_r123: a common root of the two residuals closes the contour *)
Definition r123_family (rho : env) : Prop :=
  rho "r4" = 0 /\ rho "alpha4" = 0 /\ rho "even_ground_width" = 0 /\ rho "indent" = 0.

Definition r123_env (rho : env) (fw fh : R) : env :=
  upd (upd (upd (upd rho "width" (rho "usable_width")) "alpha2" (rho "flank_angle" - rho "alpha3")) "fw" fw) "fh" fh.

Lemma r123_roots_close rho fw fh : r123_family rho -> angles_ok rho -> fh = fw * tan (rho "flank_angle") ->
  eval (r123_env rho fw fh) te_r123_res_y = 0 -> eval (r123_env rho fw fh) te_r123_res_z = 0 -> closes rho.
Proof.
  intros [R4 [A4 [EG IN]]] [Cf [Sf Ch]] P Ey Ez. apply closes_hand. apply (closure_iff rho Cf Ch).
  rewrite (r123_y4 rho R4 A4 IN), (r123_z4 rho R4 A4 EG). unfold hz2.
  cbn [eval te_r123_res_y te_r123_res_z] in Ey, Ez. unfold r123_env in Ey, Ez.
  repeat match type of Ey with context [upd ?r ?k ?v ?x] =>
    let y := eval cbv in (String.eqb k x) in
    match y with true => change (upd r k v x) with v in Ey | false => change (upd r k v x) with (r x) in Ey end end.
  repeat match type of Ez with context [upd ?r ?k ?v ?x] =>
    let y := eval cbv in (String.eqb k x) in
    match y with true => change (upd r k v x) with v in Ez | false => change (upd r k v x) with (r x) in Ez end end.
  replace (rho "flank_angle" - rho "alpha3" + rho "alpha3") with (rho "flank_angle") in Ey, Ez by ring.
  set (L := rho "r1" * tan ((rho "flank_angle" + rho "pad_angle") / 2)) in *.
  set (Y := rho "depth" - rho "r3" + (rho "r3" - rho "r2") * cos (rho "alpha3") + rho "r2" * sin (PI / 2 - rho "flank_angle")) in *.
  set (Z := (rho "r3" - rho "r2") * sin (rho "alpha3") + rho "r2" * cos (PI / 2 - rho "flank_angle")) in *.
  clearbody L Y.
  assert (EY : Y = fh + L * sin (rho "flank_angle")) by lra.
  assert (EZ : rho "usable_width" / 2 - Z = fw + L * cos (rho "flank_angle")) by (unfold Z; lra).
  rewrite EY, EZ, P. unfold tan. field. lra.
Qed.

(* ---- solve_box_like *)
Definition box_rel (rho : env) : Prop := rho "depth" = (rho "usable_width" - rho "ground_width") / 2 * tan (rho "flank_angle").

Lemma tan_nz rho : angles_ok rho -> tan (rho "flank_angle") <> 0.
Proof. intros [Cf [Sf _]]. unfold tan. apply Rgt_not_eq. apply Rdiv_lt_0_compat; assumption. Qed.

Lemma box_gw rho : angles_ok rho -> rho "ground_width" = eval rho te_box_gw_from_uw_fa -> box_rel rho.
Proof. intros A E. pose proof (tan_nz rho A). unfold box_rel. rewrite E. cbn [eval te_box_gw_from_uw_fa]. field. assumption. Qed.

Lemma box_uw rho : angles_ok rho -> rho "usable_width" = eval rho te_box_uw_from_gw_fa -> box_rel rho.
Proof. intros A E. pose proof (tan_nz rho A). unfold box_rel. rewrite E. cbn [eval te_box_uw_from_gw_fa]. field. assumption. Qed.

Lemma box_fa rho : rho "usable_width" <> rho "ground_width" -> rho "flank_angle" = eval rho te_box_fa_from_uw_gw -> box_rel rho.
Proof. intros N E. unfold box_rel. rewrite E. cbn [eval te_box_fa_from_uw_gw]. rewrite tan_atan. field. lra. Qed.

Lemma box_res rho : rho "ground_width" = eval rho te_box_gw_from_egw -> eval rho te_box_res_uw_egw = 0 -> box_rel rho.
Proof. intros G E. unfold box_rel. rewrite G. cbn [eval te_box_gw_from_egw te_box_res_uw_egw] in *. lra. Qed.

Lemma box_egw_equiv rho : rho "even_ground_width" = eval rho te_box_egw_from_gw <-> rho "ground_width" = eval rho te_box_gw_from_egw.
Proof. cbn [eval te_box_egw_from_gw te_box_gw_from_egw]. split; intro H; lra. Qed.

(* tan f * (tan (f/2) - sin f) = cos f - 1 *)
Lemma box_trig f : 0 < cos f -> cos (f / 2) <> 0 -> tan f * (tan (f / 2) - sin f) = cos f - 1.
Proof.
  intros C H. set (h := f / 2) in *. assert (E : f = 2 * h) by (unfold h; field). rewrite E in *.
  unfold tan. rewrite sin_2a, cos_2a in *. pose proof (sc1 h) as S.
  set (s := sin h) in *. set (c := cos h) in *.
  field_simplify_eq; [|split; lra]. simpl. nsatz.
Qed.

Lemma box_closes rho : no_r3 rho -> angles_ok rho -> indent_ok rho -> cos (rho "flank_angle" / 2) <> 0 ->
  box_rel rho -> rho "even_ground_width" = eval rho te_box_egw_from_gw -> closes rho.
Proof.
  intros N A I H2 B G. apply (family rho N A I). unfold family_eq. unfold box_rel in B.
  cbn [eval te_box_egw_from_gw] in G. rewrite G, B. pose proof (tan_nz rho A) as T. destruct A as [Cf [Sf Ch]].
  pose proof (box_trig (rho "flank_angle") Cf H2) as K.
  set (t := tan (rho "flank_angle")) in *. set (t2 := tan (rho "flank_angle" / 2)) in *.
  apply (Rmult_eq_reg_r t); [|exact T]. field_simplify_eq; [|exact T]. nra.
Qed.

(* ---- DiamondGroove *)
Lemma diamond_closes rho td : no_r3 rho -> angles_ok rho ->
  rho "r4" = 0 -> rho "alpha4" = 0 -> rho "even_ground_width" = 0 -> rho "indent" = 0 ->
  td = rho "usable_width" / 2 * tan (rho "flank_angle") ->
  rho "depth" = eval (upd (upd rho "alpha" (rho "flank_angle")) "tip_depth" td) te_dia_depth -> closes rho.
Proof.
  intros N A R4 A4 EG IN TD D.
  assert (I : indent_ok rho) by (unfold indent_ok; rewrite A4, IN, cos_0; ring).
  apply (family rho N A I). unfold family_eq. rewrite D, R4, A4, EG. cbn [eval te_dia_depth].
  change (upd (upd rho "alpha" (rho "flank_angle")) "tip_depth" td "tip_depth") with td.
  change (upd (upd rho "alpha" (rho "flank_angle")) "tip_depth" td "alpha") with (rho "flank_angle").
  change (upd (upd rho "alpha" (rho "flank_angle")) "tip_depth" td "r2") with (rho "r2").
  rewrite TD, sin_0. destruct A as [Cf [Sf Ch]]. pose proof (sc1 (rho "flank_angle")) as S.
  unfold tan. set (s := sin (rho "flank_angle")) in *. set (c := cos (rho "flank_angle")) in *.
  field_simplify_eq; [|split; lra]. simpl. nsatz.
Qed.

Lemma diamond_branches rho :
  (* given usable_width and tip_depth *)
  (rho "usable_width" <> 0 -> tan (eval rho te_dia_alpha_uw_td) * (rho "usable_width" / 2) = rho "tip_depth") /\
  (* given usable_width and tip_angle *)
  (eval (upd rho "alpha" (eval rho te_dia_alpha_ta)) te_dia_td_uw_ta = rho "usable_width" / 2 * tan (eval rho te_dia_alpha_ta)) /\
  (* given tip_depth and tip_angle *)
  (tan (eval rho te_dia_alpha_ta) <> 0 ->
   rho "tip_depth" = eval (upd rho "alpha" (eval rho te_dia_alpha_ta)) te_dia_uw_td_ta / 2 * tan (eval rho te_dia_alpha_ta)).
Proof.
  repeat split.
  - intro N. cbn [eval te_dia_alpha_uw_td]. rewrite tan_atan. field. lra.
  - intro T. cbn [eval te_dia_uw_td_ta te_dia_alpha_ta] in *.
    change (upd rho "alpha" (PI / 2 - rho "tip_angle" / 2) "alpha") with (PI / 2 - rho "tip_angle" / 2).
    change (upd rho "alpha" (PI / 2 - rho "tip_angle" / 2) "tip_depth") with (rho "tip_depth").
    field. exact T.
Qed.

(* ---- GenericElongationGroove: the four formulas of the three-of-four resolution express one relation *)
Lemma generic_three_of_four rho : angles_ok rho ->
  (rho "usable_width" = eval rho te_gen_uw -> box_rel rho) /\
  (rho "ground_width" = eval rho te_gen_gw -> box_rel rho) /\
  (rho "usable_width" <> rho "ground_width" -> rho "flank_angle" = eval rho te_gen_fa -> box_rel rho) /\
  (rho "depth" = eval rho te_gen_depth -> box_rel rho).
Proof.
  intro A. pose proof (tan_nz rho A) as T. unfold box_rel. repeat split.
  - intro E. rewrite E. cbn [eval te_gen_uw]. field. exact T.
  - intro E. rewrite E. cbn [eval te_gen_gw]. field. exact T.
  - intros N E. rewrite E. cbn [eval te_gen_fa]. rewrite tan_atan. field. lra.
  - intro E. rewrite E. cbn [eval te_gen_depth]. reflexivity.
Qed.
