(* C04 - Groove parameters resolve consistently whichever defining subset is given.  ONLY statements.
   Gen_groove.v: junction chain and contour functions regenerated from generic_elongation.py (T-D).
   Gen_solvers.v: closed forms and residual functions regenerated from generic_elongation_solvers.py, DiamondGroove.__init__ and the
   three-of-four resolution of GenericElongationGroove.__init__ (T-E).
   `closes rho`: the flank's contour function evaluated at z4 gives y4 - ground, arcs and flank join without a step (tangency of the
   arcs is built into the chain: C10_depth_continuous_at_junctions; the face corner: C03_face_meeting).
   Root finders are not modelled: each theorem says what ANY root of the regenerated residual, or the regenerated closed form, implies. *)
From PyrollLib Require Import Expr ExprFacts Groove GrooveFacts GrooveClosure.
From Run Require Import Gen_groove Gen_solvers C10_proofs C04_proofs.
From Coq Require Import Lra.
Open Scope string_scope.
Open Scope R_scope.

(* re-tracing from the centre arrives at the face corner: closing at z4 <=> the flank line through (z4, y4) passes through
   (usable_width / 2, 0) *)
Theorem C04_closure_is_retrace : forall rho, 0 < cos (rho "flank_angle") -> cos ((rho "flank_angle" + rho "pad_angle") / 2) <> 0 ->
  (closes rho <-> eval rho g_y4 = tan (rho "flank_angle") * (rho "usable_width" / 2 - eval rho g_z4)).
Proof. intros rho Cf Ch. rewrite closes_hand. apply (closure_iff rho Cf Ch). Qed.

(* all families without a third radius (box-like, round/oval by solve_r124, diamond/square): one explicit equation *)
Theorem C04_family_equation : forall rho, no_r3 rho -> angles_ok rho -> indent_ok rho -> (closes rho <-> family_eq rho).
Proof. exact family. Qed.

Theorem C04_alpha4_formula : forall rho, 0 < rho "r2" + rho "r4" -> 0 <= rho "indent" <= 2 * (rho "r2" + rho "r4") ->
  rho "alpha4" = eval rho te_box_alpha4 -> rho "alpha4" = eval rho te_r124_alpha4 /\ indent_ok rho.
Proof. exact alpha4_formula. Qed.

(* solve_r124, width or depth unknown: the regenerated closed form closes the contour (even ground added by FlatOvalGroove) *)
Theorem C04_r124_width_unknown : forall rho, no_r3 rho -> angles_ok rho -> indent_ok rho ->
  rho "usable_width" = eval rho te_r124_width_formula + rho "even_ground_width" -> closes rho.
Proof. exact r124_width. Qed.

Theorem C04_r124_depth_unknown : forall rho, no_r3 rho -> angles_ok rho -> indent_ok rho ->
  rho "depth" = eval (upd rho "width" (rho "usable_width" - rho "even_ground_width")) te_r124_depth_formula -> closes rho.
Proof. exact r124_depth. Qed.

(* flank given by length, width or height: one vector along the flank; a root of the residual reproduces the requested extent *)
Theorem C04_flank_variants_parallel : forall rho key fw fh, In (key, fw, fh) te_variants ->
  0 < cos (rho "alpha") -> 0 < sin (rho "alpha") -> eval rho fh = eval rho fw * tan (rho "alpha").
Proof. exact variants_parallel. Qed.

Theorem C04_r124_flank_height_reproduced : forall rho fh, no_r3 rho -> angles_ok rho -> indent_ok rho ->
  eval (upd (upd rho "alpha" (rho "flank_angle")) "fh" fh) te_r124_res_width_none = 0 ->
  eval rho g_y4 - eval rho g_y3 = fh.
Proof. exact r124_flank_height. Qed.

Theorem C04_flank_width_from_height : forall rho, angles_ok rho -> closes rho ->
  (eval rho g_z3 - eval rho g_z4) * tan (rho "flank_angle") = eval rho g_y4 - eval rho g_y3.
Proof. exact flank_width_from_height. Qed.

(* solve_r123 (three-radius ovals, gothic, ribbed): any common root of the two regenerated residuals closes the contour *)
Theorem C04_r123_roots_close : forall rho fw fh, r123_family rho -> angles_ok rho -> fh = fw * tan (rho "flank_angle") ->
  eval (r123_env rho fw fh) te_r123_res_y = 0 -> eval (r123_env rho fw fh) te_r123_res_z = 0 -> closes rho.
Proof. exact r123_roots_close. Qed.

(* solve_box_like: every branch establishes depth = (usable_width - ground_width) / 2 * tan(flank_angle); with the even ground
   width formula this closes the contour *)
Theorem C04_boxlike_branches : forall rho,
  (angles_ok rho -> rho "ground_width" = eval rho te_box_gw_from_uw_fa -> box_rel rho) /\
  (angles_ok rho -> rho "usable_width" = eval rho te_box_uw_from_gw_fa -> box_rel rho) /\
  (rho "usable_width" <> rho "ground_width" -> rho "flank_angle" = eval rho te_box_fa_from_uw_gw -> box_rel rho) /\
  (rho "ground_width" = eval rho te_box_gw_from_egw -> eval rho te_box_res_uw_egw = 0 -> box_rel rho) /\
  (rho "even_ground_width" = eval rho te_box_egw_from_gw <-> rho "ground_width" = eval rho te_box_gw_from_egw).
Proof.
  intro rho. split; [apply box_gw|]. split; [apply box_uw|]. split; [apply box_fa|]. split; [apply box_res | apply box_egw_equiv].
Qed.

Theorem C04_boxlike_closes : forall rho, no_r3 rho -> angles_ok rho -> indent_ok rho -> cos (rho "flank_angle" / 2) <> 0 ->
  box_rel rho -> rho "even_ground_width" = eval rho te_box_egw_from_gw -> closes rho.
Proof. exact box_closes. Qed.

(* DiamondGroove: the three branches establish tip_depth = usable_width / 2 * tan(alpha); with the depth formula the contour closes *)
Theorem C04_diamond_branches : forall rho,
  (rho "usable_width" <> 0 -> tan (eval rho te_dia_alpha_uw_td) * (rho "usable_width" / 2) = rho "tip_depth") /\
  (eval (upd rho "alpha" (eval rho te_dia_alpha_ta)) te_dia_td_uw_ta = rho "usable_width" / 2 * tan (eval rho te_dia_alpha_ta)) /\
  (tan (eval rho te_dia_alpha_ta) <> 0 ->
   rho "tip_depth" = eval (upd rho "alpha" (eval rho te_dia_alpha_ta)) te_dia_uw_td_ta / 2 * tan (eval rho te_dia_alpha_ta)).
Proof. exact diamond_branches. Qed.

Theorem C04_diamond_closes : forall rho td, no_r3 rho -> angles_ok rho ->
  rho "r4" = 0 -> rho "alpha4" = 0 -> rho "even_ground_width" = 0 -> rho "indent" = 0 ->
  td = rho "usable_width" / 2 * tan (rho "flank_angle") ->
  rho "depth" = eval (upd (upd rho "alpha" (rho "flank_angle")) "tip_depth" td) te_dia_depth -> closes rho.
Proof. exact diamond_closes. Qed.

(* GenericElongationGroove: whichever of the four is missing, the same relation holds afterwards *)
Theorem C04_generic_three_of_four : forall rho, angles_ok rho ->
  (rho "usable_width" = eval rho te_gen_uw -> box_rel rho) /\
  (rho "ground_width" = eval rho te_gen_gw -> box_rel rho) /\
  (rho "usable_width" <> rho "ground_width" -> rho "flank_angle" = eval rho te_gen_fa -> box_rel rho) /\
  (rho "depth" = eval rho te_gen_depth -> box_rel rho).
Proof. exact generic_three_of_four. Qed.

(* non-vacuity: the V groove of C10 closes, has no third radius, admissible angles *)
Example C04_nonvacuous : closes rho_v /\ no_r3 rho_v /\ angles_ok rho_v /\ indent_ok rho_v.
Proof.
  split; [apply closes_hand; apply (wf_closed rho_v rho_v_wellformed)|]. split; [split; reflexivity|].
  assert (V : forall x, rho_v x = if String.eqb x "flank_angle" then PI / 4 else if String.eqb x "usable_width" then 2 else
                                  if String.eqb x "depth" then 1 else if String.eqb x "pad" then 1 else 0) by reflexivity.
  split.
  - unfold angles_ok. rewrite !V; cbn. rewrite cos_PI4, sin_PI4.
    assert (Q2 : 0 < sqrt 2) by (apply sqrt_lt_R0; lra). assert (Q : 0 < 1 / sqrt 2) by (apply Rdiv_lt_0_compat; lra).
    repeat split; try lra. replace ((PI / 4 + 0) / 2) with (PI / 8) by field. apply Rgt_not_eq. apply cos_gt_0; pose proof PI_RGT_0; lra.
  - unfold indent_ok. rewrite !V; cbn. rewrite cos_0. ring.
Qed.

Print Assumptions C04_closure_is_retrace.
Print Assumptions C04_family_equation.
Print Assumptions C04_alpha4_formula.
Print Assumptions C04_r124_width_unknown.
Print Assumptions C04_r124_depth_unknown.
Print Assumptions C04_flank_variants_parallel.
Print Assumptions C04_r124_flank_height_reproduced.
Print Assumptions C04_flank_width_from_height.
Print Assumptions C04_r123_roots_close.
Print Assumptions C04_boxlike_branches.
Print Assumptions C04_boxlike_closes.
Print Assumptions C04_diamond_branches.
Print Assumptions C04_diamond_closes.
Print Assumptions C04_generic_three_of_four.
