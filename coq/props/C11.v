(* C11 - Results are independent of the unit of length (dimensional homogeneity).  ONLY statements.
   all_impls / chains: regenerated from /repo (Gen_hookimpls.v); dim_table: the hand-written table of length
   exponents (tools/dimtable.py -> Gen_dimtable.v); dim / dim_sound: PyrollLib.Dim. *)
From PyrollLib Require Import Expr Dim.
From Run Require Import Gen_hookimpls Gen_dimtable.
From Coq Require Import QArith Qreals Rpower.
Open Scope R_scope.

Definition excepted (i : impl) : bool := existsb (String.eqb (i_hook i)) dim_exceptions.

(* every translated hook implementation of the core is homogeneous of the dimension of its hook
   (decided by computation on the regenerated formulas; the listed exceptions are known findings) *)
Theorem C11_every_implementation_homogeneous :
  forallb (fun i => (excepted i || impl_ok dim_table i)%bool) all_impls = true.
Proof. vm_compute. reflexivity. Qed.
Print Assumptions C11_every_implementation_homogeneous.

(* what that means: scale every variable p by k^(dim p) and the value of the implementation scales by
   k^(dim of its hook) - for every k > 0 and every environment *)
Theorem C11_homogeneous_means_scaling : forall i e q k rho,
  In i all_impls -> excepted i = false -> i_body i = Some e -> tlookup dim_table (i_hook i) = Some q -> 0 < k ->
  eval (scale k (denv_of dim_table) rho) e = Rpower k (Q2R q) * eval rho e.
Proof.
  exact (fun i e q k rho I X B T Hk =>
    impl_ok_sound dim_table i e q k rho Hk
      (forallb_impl_ok dim_table excepted all_impls C11_every_implementation_homogeneous i I X) B T).
Qed.
Print Assumptions C11_homogeneous_means_scaling.

(* the verified checker: for every expression whose dimension is computed *)
Theorem C11_dim_sound : forall k G rho, 0 < k -> forall e d, dim G e = Some d -> sound_at k G rho e d.
Proof. exact dim_sound. Qed.
Print Assumptions C11_dim_sound.

(* the relative convergence test is scale free: scaling both vectors by k > 0 does not change the verdict *)
Theorem C11_convergence_test_scale_free : forall k p o c, 0 < k ->
  (Rabs (k * c - k * o) <= Rabs (k * o) * p <-> Rabs (c - o) <= Rabs o * p).
Proof. exact close_scale_free. Qed.
Print Assumptions C11_convergence_test_scale_free.

Example C11_nonvacuous :
  dim (denv_of dim_table) (Sqrt (Div (Mul (Var "cross_section.area") (Var "height")) (Var "in_profile.width"))) = Some (DQ ((2 + 1 - 1) * (1 # 2))).
Proof. vm_compute. reflexivity. Qed.
