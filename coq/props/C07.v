(* C07 - Failed hook evaluation raises the documented error and leaves no residue.  ONLY statements. *)
From PyrollLib Require Import HookMachine HookFacts.

(* whatever happens inside an evaluation - any program, any nesting, any exception kind, fuel
   exhaustion - registrations, explicit values and every cycle flag are as before *)
Theorem C07_evaluation_frame : forall mro n st o c h,
  frame st (fst (get_result mro sem_fixed n st o c h)).
Proof. exact get_result_frame. Qed.
Print Assumptions C07_evaluation_frame.

Theorem C07_flags_clear_after_every_operation : forall mro fuel ops st,
  cyc st = [] -> cyc (fst (run mro sem_fixed fuel st ops)) = [].
Proof. exact run_flags. Qed.
Print Assumptions C07_flags_clear_after_every_operation.

(* outcome classes of a read that has to compute.  The computation runs with the mark "a read is on the stack" (Hook._read_depth > 0) set and the mark
   is put back afterwards; fuel exhaustion (RecursionError) becomes AttributeError in the OUTERMOST read only *)
Theorem C07_outcome_classes : forall gr st o h,
  (alookup key2_eqb (dict st) (o, h) = None \/ alookup key2_eqb (dict st) (o, h) = Some VNone) ->
  (alookup key2_eqb (cache st) (o, h) = None \/ alookup key2_eqb (cache st) (o, h) = Some VNone) ->
  let '(st0, r) := gr (set_inget st true) o (cls_of st o) h in
  let st1 := set_inget st0 (inget st) in
  read_with gr st o h =
    match r with
    | Exn ERecursion => (st1, Exn (if inget st then ERecursion else EAttr))
    | Exn e => (st1, Exn e)
    | Val VNone => (st1, Exn EAttr)
    | Val v => if nonfinite v then (st1, Exn EValue) else (set_cache st1 (aset key2_eqb (cache st1) (o, h) v), Val v)
    end.
Proof. exact read_computed. Qed.
Print Assumptions C07_outcome_classes.

(* a read issued from outside (no read on the stack) never ends in RecursionError ... *)
Theorem C07_never_recursion_error : forall gr st o h, inget st = false -> snd (read_with gr st o h) <> Exn ERecursion.
Proof. exact read_never_recursion_error. Qed.
Print Assumptions C07_never_recursion_error.

(* ... and every operation puts the mark back, so in every reachable state a read issued from outside is an outermost read *)
Theorem C07_every_outside_read_is_outermost : forall mro fuel ops o h,
  let st := fst (run mro sem_fixed fuel init ops) in
  inget st = false /\ snd (read mro sem_fixed fuel st o h) <> Exn ERecursion.
Proof.
  intros mro fuel ops o h. cbn zeta.
  assert (E : inget (fst (run mro sem_fixed fuel init ops)) = false) by (rewrite run_inget; reflexivity).
  split; [exact E | apply read_never_recursion_error; exact E].
Qed.
Print Assumptions C07_every_outside_read_is_outermost.

(* runaway recursion fails the WHOLE read: a read nested in another read's computation hands the RecursionError on, remembering nothing, and no
   construct of an implementation (try/except AttributeError, has_value, sequencing, arithmetic) can turn it into a value half-way up the stack *)
Theorem C07_nested_read_passes_recursion_error : forall gr st o h,
  inget st = true ->
  (alookup key2_eqb (dict st) (o, h) = None \/ alookup key2_eqb (dict st) (o, h) = Some VNone) ->
  (alookup key2_eqb (cache st) (o, h) = None \/ alookup key2_eqb (cache st) (o, h) = Some VNone) ->
  snd (gr (set_inget st true) o (cls_of st o) h) = Exn ERecursion ->
  snd (read_with gr st o h) = Exn ERecursion /\
  cache (fst (read_with gr st o h)) = cache (fst (gr (set_inget st true) o (cls_of st o) h)).
Proof. exact nested_read_passes_recursion_error. Qed.
Print Assumptions C07_nested_read_passes_recursion_error.

Theorem C07_recursion_error_not_catchable : forall gr o cy st a b r h',
  (snd (exec gr o a cy st) = Exn ERecursion -> snd (exec gr o (PTry a b) cy st) = Exn ERecursion) /\
  (snd (exec gr o a cy st) = Exn ERecursion -> snd (exec gr o (PSeq a b) cy st) = Exn ERecursion) /\
  (snd (exec gr o a cy st) = Exn ERecursion -> snd (exec gr o (PAdd a b) cy st) = Exn ERecursion) /\
  (snd (read_with gr st (the_obj o r) h') = Exn ERecursion ->
   snd (exec gr o (PIfHas HasValue r h' a b) cy st) = Exn ERecursion).
Proof. exact recursion_error_not_catchable. Qed.
Print Assumptions C07_recursion_error_not_catchable.

Theorem C07_failed_read_remembers_nothing : forall gr st o h e,
  snd (read_with gr st o h) = Exn e ->
  cache (fst (read_with gr st o h)) = cache (fst (gr (set_inget st true) o (cls_of st o) h)) \/ fst (read_with gr st o h) = st.
Proof. exact failed_read_remembers_nothing. Qed.
Print Assumptions C07_failed_read_remembers_nothing.

(* an instance by computation: hook a reads b behind a has_value guard, b reads a - a runaway.  The read of a fails with AttributeError for every
   fuel (stack depth); with the pinned conversion in the innermost read the guard swallowed the failure and the read "succeeded" with a value that
   depends on the fuel (repaired defect) *)
Definition mro1 (c : cls) : list cls := match c with 0 => [0] | _ => [] end.
Definition guarded_runaway : list op :=
  [Register 0 {| i_owner := 0; i_hook := 0; i_tier := 1; i_wrapper := false;
                 i_body := Plain (PIfHas HasValue OSelf 1 (PAdd (PRead OSelf 1) (PConst (VInt 1))) (PConst (VInt 0))) |};
   Register 1 {| i_owner := 0; i_hook := 1; i_tier := 1; i_wrapper := false;
                 i_body := Plain (PAdd (PRead OSelf 0) (PConst (VInt 1))) |};
   NewObj 0 0; Read 0 0].
Example C07_guarded_runaway_fails_for_every_depth :
  forallb (fun fuel => match last (snd (run mro1 sem_fixed fuel init guarded_runaway)) ODone with OOut (Exn EAttr) => true | _ => false end)
          [3; 4; 5; 8; 13; 21; 34; 55]%nat = true /\
  cache (fst (run mro1 sem_fixed 34 init guarded_runaway)) = [].
Proof. vm_compute. split; reflexivity. Qed.

(* record of the repaired defect: with the pinned "finally: cycle = False" a flag is cleared while its call
   is still on the stack; here a failure inside a nested evaluation leaves different later behaviour *)
Definition mro0 (c : cls) : list cls := match c with 0 => [0] | _ => [] end.
Definition nested_clear : list op :=
  [Register 0 {| i_owner := 0; i_hook := 0; i_tier := 1; i_wrapper := false;
                 i_body := Plain (PIfCycle (PConst (VInt 1)) (PSeq (PRead OSelf 0) (PIfHas HasValue OSelf 1 (PConst (VInt 2)) (PConst (VInt 3))))) |};
   Register 1 {| i_owner := 0; i_hook := 1; i_tier := 1; i_wrapper := false;
                 i_body := Plain (PRead OSelf 0) |};
   NewObj 0 0; Read 0 1].
Example C07_nonvacuous :
  cyc (fst (run mro0 sem_fixed 60 init nested_clear)) = [] /\
  snd (run mro0 sem_fixed 60 init nested_clear) <> [].
Proof. vm_compute. split; [reflexivity | discriminate]. Qed.
