(* C07 - Failed hook evaluation raises the documented error and leaves no residue.  ONLY statements. *)
From PyrollLib Require Import HookMachine HookFacts.

(* whatever happens inside an evaluation - any program, any nesting, any exception kind, fuel
   exhaustion - registrations, explicit values and every cycle flag are as before *)
Theorem C07_evaluation_frame : forall mro n st o c h,
  frame st (fst (get_result mro sem_fixed n st o c h)).
Proof. exact get_result_frame. Qed.
Print Assumptions C07_evaluation_frame.

Theorem C07_flags_clear_after_every_operation : forall mro fuel ops st,
  cyc st = [] -> cyc (fst (run mro sem_fixed fuel st ops)) = [].
Proof. exact run_flags. Qed.
Print Assumptions C07_flags_clear_after_every_operation.

(* outcome classes of a read that has to compute *)
Theorem C07_outcome_classes : forall gr st o h,
  (alookup key2_eqb (dict st) (o, h) = None \/ alookup key2_eqb (dict st) (o, h) = Some VNone) ->
  (alookup key2_eqb (cache st) (o, h) = None \/ alookup key2_eqb (cache st) (o, h) = Some VNone) ->
  let '(st1, r) := gr st o (cls_of st o) h in
  read_with gr st o h =
    match r with
    | Exn ERecursion => (st1, Exn EAttr)
    | Exn e => (st1, Exn e)
    | Val VNone => (st1, Exn EAttr)
    | Val v => if nonfinite v then (st1, Exn EValue) else (set_cache st1 (aset key2_eqb (cache st1) (o, h) v), Val v)
    end.
Proof. exact read_computed. Qed.
Print Assumptions C07_outcome_classes.

Theorem C07_never_recursion_error : forall gr st o h, snd (read_with gr st o h) <> Exn ERecursion.
Proof. exact read_never_recursion_error. Qed.
Print Assumptions C07_never_recursion_error.

Theorem C07_failed_read_remembers_nothing : forall gr st o h e,
  snd (read_with gr st o h) = Exn e ->
  cache (fst (read_with gr st o h)) = cache (fst (gr st o (cls_of st o) h)) \/ fst (read_with gr st o h) = st.
Proof. exact failed_read_remembers_nothing. Qed.
Print Assumptions C07_failed_read_remembers_nothing.

(* record of the repaired defect: with the pinned "finally: cycle = False" a flag is cleared while its call
   is still on the stack; here a failure inside a nested evaluation leaves different later behaviour *)
Definition mro0 (c : cls) : list cls := match c with 0 => [0] | _ => [] end.
Definition nested_clear : list op :=
  [Register 0 {| i_owner := 0; i_hook := 0; i_tier := 1; i_wrapper := false;
                 i_body := Plain (PIfCycle (PConst (VInt 1)) (PSeq (PRead OSelf 0) (PIfHas HasValue OSelf 1 (PConst (VInt 2)) (PConst (VInt 3))))) |};
   Register 1 {| i_owner := 0; i_hook := 1; i_tier := 1; i_wrapper := false;
                 i_body := Plain (PRead OSelf 0) |};
   NewObj 0 0; Read 0 1].
Example C07_nonvacuous :
  cyc (fst (run mro0 sem_fixed 60 init nested_clear)) = [] /\
  snd (run mro0 sem_fixed 60 init nested_clear) <> [].
Proof. vm_compute. split; [reflexivity | discriminate]. Qed.
