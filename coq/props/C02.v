(* C02 - Hook value lifecycle: explicit value, then remembered value, then computation.  ONLY statements. *)
From PyrollLib Require Import HookMachine HookFacts HookCopy.

Theorem C02_explicit_first : forall gr st o h v,
  alookup key2_eqb (dict st) (o, h) = Some v -> v <> VNone ->
  read_with gr st o h = (st, Val (match v with VFn0 r | VFn1 r => r | _ => v end)).
Proof. exact read_explicit. Qed.
Print Assumptions C02_explicit_first.

(* a remembered value is served without consulting any implementation: the state (incl. the invocation
   trace) is unchanged *)
Theorem C02_remembered_second : forall gr st o h v,
  (alookup key2_eqb (dict st) (o, h) = None \/ alookup key2_eqb (dict st) (o, h) = Some VNone) ->
  alookup key2_eqb (cache st) (o, h) = Some v -> v <> VNone ->
  read_with gr st o h = (st, Val v).
Proof. exact read_remembered. Qed.
Print Assumptions C02_remembered_second.

Theorem C02_computed_third_and_remembered : forall gr st o h,
  (alookup key2_eqb (dict st) (o, h) = None \/ alookup key2_eqb (dict st) (o, h) = Some VNone) ->
  (alookup key2_eqb (cache st) (o, h) = None \/ alookup key2_eqb (cache st) (o, h) = Some VNone) ->
  let '(st0, r) := gr (set_inget st true) o (cls_of st o) h in
  let st1 := set_inget st0 (inget st) in
  read_with gr st o h =
    match r with
    | Exn ERecursion => (st1, Exn (if inget st then ERecursion else EAttr))
    | Exn e => (st1, Exn e)
    | Val VNone => (st1, Exn EAttr)
    | Val v => if nonfinite v then (st1, Exn EValue) else (set_cache st1 (aset key2_eqb (cache st1) (o, h) v), Val v)
    end.
Proof. exact read_computed. Qed.
Print Assumptions C02_computed_third_and_remembered.

(* assigning / deleting never changes the remembered value; computing never changes an explicit one *)
Theorem C02_assign_delete_frame : forall mro fuel st o h v,
  cache (fst (step mro sem_fixed fuel st (Assign o h v))) = cache st /\
  cache (fst (step mro sem_fixed fuel st (Delete o h))) = cache st /\
  stores (fst (step mro sem_fixed fuel st (Assign o h v))) = stores st.
Proof. exact assign_delete_frame. Qed.
Print Assumptions C02_assign_delete_frame.

Theorem C02_computation_never_overwrites_explicit : forall mro n st o h,
  dict (fst (read mro sem_fixed n st o h)) = dict st.
Proof. exact (fun mro n st o h => proj1 (proj2 (proj2 (read_frame mro n st o h)))). Qed.
Print Assumptions C02_computation_never_overwrites_explicit.

(* falsy explicit values are honoured *)
Theorem C02_falsy_honoured : forall gr st o h,
  (alookup key2_eqb (dict st) (o, h) = Some (VInt 0) -> read_with gr st o h = (st, Val (VInt 0))) /\
  (alookup key2_eqb (dict st) (o, h) = Some (VBool false) -> read_with gr st o h = (st, Val (VBool false))).
Proof. exact read_falsy. Qed.
Print Assumptions C02_falsy_honoured.

(* independence of instances: a shallow copy takes over the explicit and the remembered values of its source and is an instance of its own;
   what is assigned, deleted or cleared on one instance never shows on another *)
Theorem C02_copy_takes_over_and_is_separate : forall mro S fuel st ob src, fresh_obj st ob ->
  let st' := fst (step mro S fuel st (CopyObj ob src)) in
  (forall h, alookup key2_eqb (dict st') (ob, h) = alookup key2_eqb (dict st) (src, h)) /\
  (forall h, alookup key2_eqb (cache st') (ob, h) = alookup key2_eqb (cache st) (src, h)) /\
  (forall o h, o <> ob -> alookup key2_eqb (dict st') (o, h) = alookup key2_eqb (dict st) (o, h)) /\
  (forall o h, o <> ob -> alookup key2_eqb (cache st') (o, h) = alookup key2_eqb (cache st) (o, h)) /\
  cls_of st' ob = cls_of st src.
Proof. exact copy_takes_over. Qed.
Print Assumptions C02_copy_takes_over_and_is_separate.

Theorem C02_edits_stay_on_their_instance : forall mro S fuel st ob h v o h', o <> ob ->
  let sa := fst (step mro S fuel st (Assign ob h v)) in
  let sd := fst (step mro S fuel st (Delete ob h)) in
  let sc := fst (step mro S fuel st (ClearCache ob)) in
  alookup key2_eqb (dict sa) (o, h') = alookup key2_eqb (dict st) (o, h') /\ cache sa = cache st /\
  alookup key2_eqb (dict sd) (o, h') = alookup key2_eqb (dict st) (o, h') /\ cache sd = cache st /\
  alookup key2_eqb (cache sc) (o, h') = alookup key2_eqb (cache st) (o, h') /\ dict sc = dict st.
Proof. exact edits_stay_on_their_instance. Qed.
Print Assumptions C02_edits_stay_on_their_instance.

(* x := 2 * y; a.y = 5; b = copy.copy(a); b.y = 50; b.x = 100 and then a.x = 10 (computed from a's own y), not b's 100 *)
Example C02_copy_nonvacuous :
  snd (run (fun c => match c with 0 => [0] | _ => [] end) sem_fixed 20 init
     [Register 0 {| i_owner := 0; i_hook := 0; i_tier := 1; i_wrapper := false; i_body := Plain (PAdd (PRead OSelf 1) (PRead OSelf 1)) |};
      NewObj 0 0; Assign 0 1 (VInt 5); CopyObj 1 0; Assign 1 1 (VInt 50); Read 1 0; Has HasCached 0 0; Read 0 0]) =
  [ODone; ODone; ODone; ODone; ODone; OOut (Val (VInt 100)); OOut (Val (VBool false)); OOut (Val (VInt 10))].
Proof. vm_compute. reflexivity. Qed.

Definition mro0 (c : cls) : list cls := match c with 0 => [0] | _ => [] end.
Definition lifecycle : list op :=
  [Register 0 {| i_owner := 0; i_hook := 0; i_tier := 1; i_wrapper := false; i_body := Plain (PConst (VInt 7)) |};
   NewObj 0 0; Read 0 0; Assign 0 0 (VInt 0); Read 0 0; Delete 0 0; Read 0 0;
   Register 1 {| i_owner := 0; i_hook := 0; i_tier := 1; i_wrapper := false; i_body := Plain (PConst (VInt 9)) |};
   Read 0 0; Reeval 0; Read 0 0; EvalRoot 0 [0]; ClearCache 0; Remove 1; Remove 0; Read 0 0].
Example C02_nonvacuous :
  snd (run mro0 sem_fixed 20 init lifecycle) =
  [ODone; ODone; OOut (Val (VInt 7)); ODone; OOut (Val (VInt 0)); ODone; OOut (Val (VInt 7)); ODone;
   OOut (Val (VInt 7)); ODone; OOut (Val (VInt 9)); ODone; ODone; ODone; ODone; OOut (Val (VInt 9))].
Proof. vm_compute. reflexivity. Qed.
