(* C19 - Velocity calculations leave a constant volume flux through all roll passes.  ONLY statements.
   Array passes: PyrollLib.Velocity (tied to the nested functions of sequence.py, extracted from the source and run
   on the same dyadic inputs); entry/exit velocities: formulas regenerated from the hook implementations. *)
From PyrollLib Require Import Velocity ExprFacts.
From Run Require Import Gen_hookimpls.
Open Scope string_scope.

Theorem C19_backward_flux : forall vs As, length vs = length As -> vs <> [] -> all_nonzero As ->
  flux_all (backward vs As) As (last vs 0 * last As 0)%Q /\ (last (backward vs As) 0 == last vs 0)%Q.
Proof. exact backward_flux. Qed.
Print Assumptions C19_backward_flux.

Theorem C19_forward_flux : forall vs As, length vs = length As -> vs <> [] -> all_nonzero As ->
  flux_all (forward vs As) As (hd 0 vs * hd 0 As)%Q /\ (hd 0 (forward vs As) == hd 0 vs)%Q.
Proof. exact forward_flux. Qed.
Print Assumptions C19_forward_flux.

(* each pass's entry and exit velocities carry the flux of the pass: the out profile runs at the pass velocity,
   the in profile's velocity times its area equals the out profile's velocity times its area *)
Open Scope R_scope.
Theorem C19_entry_exit_flux : forall rho g vin vout,
  rho "cross_section.area" <> 0 ->
  resolve rho g chain_BaseRollPass_InProfile__velocity = CVal vin ->
  resolve rho g chain_BaseRollPass_OutProfile__velocity = CVal vout ->
  vout = rho "roll_pass.velocity" /\
  vin * rho "cross_section.area" = rho "roll_pass.out_profile.velocity" * rho "unit.out_profile.cross_section.area".
Proof.
  intros rho g vin vout N H1 H2.
  unfold chain_BaseRollPass_InProfile__velocity in H1. chain_inv H1.
  unfold chain_BaseRollPass_OutProfile__velocity in H2. chain_inv H2.
  subst. split; [reflexivity | field; assumption].
Qed.
Print Assumptions C19_entry_exit_flux.

Example C19_nonvacuous :
  backward [0; 0; 6]%Q [4; 3; 2]%Q = [(6 * 2 / 3 * 3 / 4); (6 * 2 / 3); 6]%Q /\
  forward [2; 0; 0]%Q [4; 2; 1]%Q = [2; (2 * 4 / 2); (2 * 4 / 2 * 2 / 1)]%Q.
Proof. split; reflexivity. Qed.
