(* Proofs for C16 about the chains regenerated from /repo (Gen_hookimpls.v). *)
From PyrollLib Require Import ExprFacts.
From Run Require Import Gen_hookimpls.
Open Scope string_scope.
Open Scope R_scope.

Ltac chain_inv' H := chain_inv H; unfold upd in H; simpl String.eqb in H; cbv iota in H.

Section C16.
Variables (rho : env) (g g' : genv).

(* length <-> duration via velocity *)
Lemma length_duration_inverse d l :
  rho "velocity" <> 0 ->
  resolve rho g chain_Unit__duration = CVal d ->
  resolve (upd rho "duration" d) g' chain_Unit__length = CVal l ->
  l = rho "length".
Proof.
  intros V H1 H2. unfold chain_Unit__duration in H1. chain_inv' H1.
  unfold chain_Unit__length in H2. chain_inv' H2. subst. field. assumption.
Qed.

Lemma duration_length_inverse d l :
  rho "velocity" <> 0 ->
  resolve rho g chain_Unit__length = CVal l ->
  resolve (upd rho "length" l) g' chain_Unit__duration = CVal d ->
  d = rho "duration".
Proof.
  intros V H1 H2. unfold chain_Unit__length in H1. chain_inv' H1.
  unfold chain_Unit__duration in H2. chain_inv' H2. subst. field. assumption.
Qed.

(* roll radius <-> diameter *)
Lemma radius_diameter_inverse r d :
  resolve rho g chain_Roll__nominal_diameter = CVal d ->
  resolve (upd rho "nominal_diameter" d) g' chain_Roll__nominal_radius = CVal r ->
  r = rho "nominal_radius" /\ d = 2 * rho "nominal_radius".
Proof.
  intros H1 H2. unfold chain_Roll__nominal_diameter in H1. chain_inv' H1.
  unfold chain_Roll__nominal_radius in H2. chain_inv' H2. subst. split; field.
Qed.

Lemma diameter_radius_inverse r d :
  resolve rho g chain_Roll__nominal_radius = CVal r ->
  resolve (upd rho "nominal_radius" r) g' chain_Roll__nominal_diameter = CVal d ->
  d = rho "nominal_diameter".
Proof.
  intros H1 H2. unfold chain_Roll__nominal_radius in H1. chain_inv' H1.
  unfold chain_Roll__nominal_diameter in H2. chain_inv' H2. subst. field.
Qed.

(* rotational frequency, surface velocity, working velocity: every implementation of every member agrees with
   the defining relations  v_surface = f * R * 2 PI,  v_working = f * R_w * 2 PI *)
Definition velocities_consistent (f : R) : Prop :=
  rho "rotational_frequency" = f /\
  rho "surface_velocity" = f * rho "nominal_radius" * 2 * PI /\
  rho "working_velocity" = f * rho "working_radius" * 2 * PI.

Lemma frequency_group f :
  rho "nominal_radius" <> 0 -> rho "working_radius" <> 0 -> velocities_consistent f ->
  all_impls_give rho chain_Roll__rotational_frequency f /\
  all_impls_give rho chain_Roll__surface_velocity (rho "surface_velocity") /\
  all_impls_give rho chain_Roll__working_velocity (rho "working_velocity").
Proof.
  intros N W [Hf [Hs Hw]]. assert (P : PI <> 0) by (apply Rgt_not_eq, PI_RGT_0).
  unfold all_impls_give, chain_Roll__rotational_frequency, chain_Roll__surface_velocity, chain_Roll__working_velocity.
  repeat split; intros i e I B;
    repeat (destruct I as [I|I]; [subst i; cbv [i_body] in B;
                                  repeat match type of B with context [i_body ?c] => unfold c in B end;
                                  cbv [i_body] in B; inversion B; subst e; cbn [eval]; rewrite ?Hs, ?Hw, ?Hf; try field; try assumption; try (split; assumption)|]);
    try destruct I.
Qed.

(* cooling pipe radius <-> area *)
Lemma pipe_radius_area a r :
  0 <= rho "inner_radius" ->
  resolve rho g chain_CoolingPipe__cross_section_area = CVal a ->
  resolve (upd rho "cross_section_area" a) g' chain_CoolingPipe__inner_radius = CVal r ->
  r = rho "inner_radius" /\ a = PI * (rho "inner_radius" * rho "inner_radius").
Proof.
  intros P H1 H2. unfold chain_CoolingPipe__cross_section_area in H1. chain_inv' H1.
  unfold chain_CoolingPipe__inner_radius in H2. chain_inv' H2. subst.
  assert (Pi : 0 < PI) by apply PI_RGT_0. split; [|ring].
  match goal with |- sqrt ?x = _ => replace x with (Rsqr (rho "inner_radius")) by (unfold Rsqr; field; lra) end.
  apply sqrt_Rsqr. assumption.
Qed.

Lemma pipe_area_radius a r :
  0 <= rho "cross_section_area" ->
  resolve rho g chain_CoolingPipe__inner_radius = CVal r ->
  resolve (upd rho "inner_radius" r) g' chain_CoolingPipe__cross_section_area = CVal a ->
  a = rho "cross_section_area".
Proof.
  intros P H1 H2. unfold chain_CoolingPipe__inner_radius in H1. chain_inv' H1.
  unfold chain_CoolingPipe__cross_section_area in H2. chain_inv' H2. subst.
  assert (Pi : 0 < PI) by apply PI_RGT_0.
  match goal with |- ?x * PI = _ => replace x with (Rsqr (sqrt (rho "cross_section_area" / PI))) by (unfold Rsqr; ring) end.
  rewrite Rsqr_sqrt; [field; lra|]. apply Rmult_le_pos; [assumption | apply Rlt_le, Rinv_0_lt_compat; assumption].
Qed.

(* target width <-> target filling ratio; target area <-> its filling ratio *)
Lemma target_width_ratio w q :
  rho "usable_width" <> 0 ->
  resolve rho g chain_BaseRollPass__target_width = CVal w ->
  In (q : R) (map (fun i => match i_body i with Some e => eval (upd rho "target_width" w) e | None => 0 end)
                  (filter (fun i => negb (i_trylast i)) chain_BaseRollPass__target_filling_ratio)) ->
  q = rho "target_filling_ratio".
Proof.
  intros U H1 H2. unfold chain_BaseRollPass__target_width in H1. chain_inv' H1. subst w.
  unfold chain_BaseRollPass__target_filling_ratio in H2.
  repeat match type of H2 with context [filter _ (?c :: _)] => unfold c in H2 end.
  cbn [filter i_trylast negb map i_body eval] in H2. unfold upd in H2. simpl String.eqb in H2. cbv iota in H2.
  destruct H2 as [H2|[]]. subst q. field. assumption.
Qed.

Lemma target_area_ratio a q :
  rho "usable_cross_section.area" <> 0 ->
  resolve rho g chain_BaseRollPass__target_cross_section_area = CVal a ->
  resolve (upd rho "target_cross_section_area" a) g' chain_BaseRollPass__target_cross_section_filling_ratio = CVal q ->
  q = rho "target_cross_section_filling_ratio".
Proof.
  intros U H1 H2. unfold chain_BaseRollPass__target_cross_section_area in H1. chain_inv' H1.
  unfold chain_BaseRollPass__target_cross_section_filling_ratio in H2. chain_inv' H2. subst. field. assumption.
Qed.

(* neutral point <-> neutral angle *)
Lemma neutral_point_angle p a :
  - (PI / 2) <= rho "neutral_angle" <= PI / 2 -> rho "working_radius" <> 0 ->
  resolve rho g chain_BaseRollPass_Roll__neutral_point = CVal p ->
  resolve (upd rho "neutral_point" p) g' chain_BaseRollPass_Roll__neutral_angle = CVal a ->
  a = rho "neutral_angle".
Proof.
  intros R W H1 H2. unfold chain_BaseRollPass_Roll__neutral_point in H1. chain_inv' H1.
  unfold chain_BaseRollPass_Roll__neutral_angle in H2. chain_inv' H2. subst.
  replace (sin (rho "neutral_angle") * rho "working_radius" / rho "working_radius") with (sin (rho "neutral_angle")) by (field; assumption).
  apply asin_sin. assumption.
Qed.

Lemma neutral_angle_point p a :
  -1 <= rho "neutral_point" / rho "working_radius" <= 1 -> rho "working_radius" <> 0 ->
  resolve rho g chain_BaseRollPass_Roll__neutral_angle = CVal a ->
  resolve (upd rho "neutral_angle" a) g' chain_BaseRollPass_Roll__neutral_point = CVal p ->
  p = rho "neutral_point".
Proof.
  intros R W H1 H2. unfold chain_BaseRollPass_Roll__neutral_angle in H1. chain_inv' H1.
  unfold chain_BaseRollPass_Roll__neutral_point in H2. chain_inv' H2. subst.
  rewrite sin_asin by assumption. field. assumption.
Qed.

End C16.
