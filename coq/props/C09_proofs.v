(* Proofs for C09 about the regenerated contour operation sequences (Gen_contours.v) and formulas (Gen_hookimpls.v). *)
From PyrollLib Require Import ExprFacts PassGeo.
From Run Require Import Gen_hookimpls Gen_contours.
Open Scope string_scope.
Open Scope list_scope.
Open Scope R_scope.

Definition contour (rho : env) (cs : list (list gop)) (k : nat) (l : list pt) : list pt := apply_ops rho (nth k cs []) l.

(* two-roll pass: the lower contour is the upper one turned by a half turn, and vice versa *)
Lemma two_halfturn rho l :
  contour rho two_roll_contours 1 l = map (rot PI) (contour rho two_roll_contours 0 l) /\
  map (rot PI) (contour rho two_roll_contours 1 l) = contour rho two_roll_contours 0 l.
Proof.
  assert (E : contour rho two_roll_contours 1 l = map (rot PI) (contour rho two_roll_contours 0 l)).
  { unfold contour, two_roll_contours. cbn [nth].
    match goal with |- apply_ops _ (?a :: ?b) _ = _ => change (a :: b) with ([a] ++ b) end.
    rewrite apply_ops_app. cbn [apply_ops fold_left apply_op]. rewrite deg_180. reflexivity. }
  split; [exact E|]. rewrite E. apply map_rot_PI_involutive.
Qed.

(* the faces: a face vertex (z, 0) of the roll contour lies at height gap/2 above the centre in the upper contour and at
   -gap/2 in the lower one, so the faces are separated by exactly the gap *)
Lemma two_face_gap rho z :
  contour rho two_roll_contours 0 [(z, 0)] = [(z, rho "gap" / 2)] /\
  contour rho two_roll_contours 1 [(z, 0)] = [(- z, - (rho "gap" / 2))].
Proof.
  unfold contour, two_roll_contours. cbn [nth apply_ops fold_left apply_op map eval]. rewrite deg_180.
  unfold translate, rot. cbn [fst snd]. rewrite cos_PI, sin_PI. split; f_equal; f_equal; ring.
Qed.

(* every point of the contour is lifted by gap/2: groove depth d below the face gives pass height gap + 2 d *)
Lemma two_height_from_contour rho z d :
  let up := contour rho two_roll_contours 0 [(z, d)] in
  let lo := contour rho two_roll_contours 1 [(z, d)] in
  snd (hd (0, 0) up) - snd (hd (0, 0) lo) = rho "gap" + 2 * d.
Proof.
  unfold contour, two_roll_contours. cbn [nth apply_ops fold_left apply_op map eval hd]. rewrite deg_180.
  unfold translate, rot. cbn [fst snd]. rewrite cos_PI, sin_PI. field.
Qed.

Section Formulas.
Variables (rho : env) (g g' : genv).

Lemma two_gap_height_roundtrip h gp :
  (resolve rho g chain_TwoRollPass__height = CVal h ->
   resolve (upd rho "height" h) g' chain_TwoRollPass__gap = CVal gp -> gp = rho "gap" /\ h = rho "gap" + 2 * rho "roll.groove.depth") /\
  (resolve rho g chain_TwoRollPass__gap = CVal gp ->
   resolve (upd rho "gap" gp) g' chain_TwoRollPass__height = CVal h -> h = rho "height").
Proof.
  split; intros H1 H2.
  - unfold chain_TwoRollPass__height in H1. chain_inv H1. unfold chain_TwoRollPass__gap in H2. chain_inv H2.
    unfold upd in H2. simpl String.eqb in H2. cbv iota in H2. subst. split; ring.
  - unfold chain_TwoRollPass__gap in H1. chain_inv H1. unfold chain_TwoRollPass__height in H2. chain_inv H2.
    unfold upd in H2. simpl String.eqb in H2. cbv iota in H2. subst. ring.
Qed.

Lemma sqrt3_nz : sqrt 3 <> 0.
Proof. apply Rgt_not_eq. apply sqrt_lt_R0. lra. Qed.

(* three-roll pass: gap -> inscribed circle diameter -> gap *)
Lemma three_gap_icd_roundtrip icd gp :
  g' "has_set" "inscribed_circle_diameter" = true ->
  resolve rho g chain_ThreeRollPass__inscribed_circle_diameter = CVal icd ->
  resolve (upd rho "inscribed_circle_diameter" icd) g' chain_ThreeRollPass__gap = CVal gp ->
  gp = rho "gap".
Proof.
  intros G H1 H2. unfold chain_ThreeRollPass__inscribed_circle_diameter in H1. chain_inv H1.
  unfold chain_ThreeRollPass__gap in H2. cbv [resolve] in H2. unfold_impls H2.
  cbv [guard_eval forallb gatom_eval i_guard i_body andb negb] in H2. rewrite G in H2. cbn [eval] in H2. injection H2 as H2.
  unfold upd in H2. simpl String.eqb in H2. cbv iota in H2. subst. pose proof sqrt3_nz. field. assumption.
Qed.

(* every implementation of ThreeRollPass.gap inverts the quantity it is computed from: from the inscribed circle
   diameter d = 2 (uw/2/sqrt3 + gap/sqrt3 + depth), and from a height equal to that diameter *)
Lemma three_gap_impls_consistent gp0 :
  let d := 2 * (rho "roll.groove.usable_width" / 2 / sqrt 3 + gp0 / sqrt 3 + rho "roll.groove.depth") in
  rho "inscribed_circle_diameter" = d -> rho "height" = d ->
  all_impls_give rho chain_ThreeRollPass__gap gp0.
Proof.
  intros d Hi Hh. pose proof sqrt3_nz as S. unfold all_impls_give, chain_ThreeRollPass__gap. intros i e I B.
  repeat (destruct I as [I|I]; [subst i; repeat match type of B with context [i_body ?c] => unfold c in B end;
                                cbv [i_body] in B; inversion B; subst e; cbn [eval]; rewrite ?Hi, ?Hh; unfold d; field; assumption|]).
  destruct I.
Qed.
End Formulas.

(* three-roll pass: the three contours map onto each other under a turn by 120 degrees *)
Lemma three_contours_120 rho l :
  let c k := contour rho three_roll_contours k l in
  c 1%nat = map (rot (deg 120)) (c 0%nat) /\ c 2%nat = map (rot (deg 120)) (c 1%nat) /\ c 0%nat = map (rot (deg 120)) (c 2%nat).
Proof.
  cbv zeta. unfold contour, three_roll_contours. cbn [nth].
  repeat match goal with |- context [apply_ops rho [?a; ?b; ?c] l] => change [a; b; c] with ([a; b] ++ [c]) end.
  split; [|split].
  - rewrite (rotated_pair rho _ 60 180). apply map_ext. intro p. f_equal. f_equal. lra.
  - rewrite (rotated_pair rho _ 180 (-60)). apply map_ext. intro p. replace (IZR (-60) - IZR 180) with (120 - 360) by lra.
    rewrite <- (rot_deg_period (120 - 360)). f_equal. f_equal. lra.
  - rewrite (rotated_pair rho _ (-60) 60). apply map_ext. intro p. f_equal. f_equal. lra.
Qed.
