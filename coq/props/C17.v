(* C17 - Derived profile, stress and deformation quantities obey their identities.
   ONLY statements: each theorem is closed by [exact] of a lemma of C17_proofs.v and followed by
   Print Assumptions.  All chains (chain_<Class>__<hook>) are regenerated from /repo on every run;
   [resolve rho g chain = CVal x] reads: "the hook, computed by the implementations registered in
   the core for that class under attribute values rho and guard outcomes g, yields x". *)
From PyrollLib Require Import ExprFacts.
From Run Require Import Gen_hookimpls C17_proofs.
Open Scope string_scope.
Open Scope R_scope.

Theorem C17_eq_rect_area_and_ratio : forall rho g h w,
  0 < rho "cross_section.area" -> 0 < rho "height" -> 0 < rho "width" ->
  resolve rho g chain_Profile__equivalent_height = CVal h ->
  resolve rho g chain_Profile__equivalent_width = CVal w ->
  h * w = rho "cross_section.area" /\ w / h = rho "width" / rho "height".
Proof. exact eq_rect_area. Qed.
Print Assumptions C17_eq_rect_area_and_ratio.

Theorem C17_eq_radius_area : forall rho g r,
  0 <= rho "cross_section.area" ->
  resolve rho g chain_Profile__equivalent_radius = CVal r ->
  PI * r ^ 2 = rho "cross_section.area" /\ 0 <= r.
Proof. exact eq_radius. Qed.
Print Assumptions C17_eq_radius_area.

Theorem C17_hydrostatic_is_mean : forall rho g s,
  resolve rho g chain_Profile__hydrostatic_stress = CVal s ->
  s = mean3 (rho "longitudinal_stress") (rho "altitudinal_stress") (rho "latitudinal_stress").
Proof. exact hydrostatic_mean. Qed.
Print Assumptions C17_hydrostatic_is_mean.

(* von_mises s1 s2 s3 = sqrt (((s1-s2)^2 + (s2-s3)^2 + (s3-s1)^2) / 2)   (ExprFacts.v) *)
Theorem C17_equivalent_is_von_mises : forall rho g s,
  resolve rho g chain_Profile__equivalent_stress = CVal s ->
  s = von_mises (rho "longitudinal_stress") (rho "altitudinal_stress") (rho "latitudinal_stress").
Proof. exact equivalent_is_von_mises. Qed.
Print Assumptions C17_equivalent_is_von_mises.

Theorem C17_von_mises_permutation : forall s1 s2 s3,
  von_mises s1 s2 s3 = von_mises s2 s1 s3 /\ von_mises s1 s2 s3 = von_mises s2 s3 s1.
Proof. exact (fun s1 s2 s3 => conj (von_mises_swap12 s1 s2 s3) (von_mises_rot s1 s2 s3)). Qed.
Print Assumptions C17_von_mises_permutation.

Theorem C17_von_mises_hydrostatic_zero : forall s, von_mises s s s = 0.
Proof. exact von_mises_hydrostatic. Qed.
Print Assumptions C17_von_mises_hydrostatic_zero.

Theorem C17_von_mises_uniaxial_abs : forall s,
  von_mises s 0 0 = Rabs s /\ von_mises 0 s 0 = Rabs s /\ von_mises 0 0 s = Rabs s.
Proof.
  exact (fun s => conj (von_mises_uniaxial s)
          (conj (eq_trans (von_mises_swap12 0 s 0) (von_mises_uniaxial s))
                (eq_trans (eq_sym (von_mises_rot s 0 0)) (von_mises_uniaxial s)))).
Qed.
Print Assumptions C17_von_mises_uniaxial_abs.

Theorem C17_thermal_profile : forall rho g a e,
  0 < rho "thermal_conductivity" -> 0 < rho "density" -> 0 < rho "specific_heat_capacity" ->
  resolve rho g chain_Profile__thermal_diffusivity = CVal a ->
  resolve rho g chain_Profile__heat_penetration_number = CVal e ->
  a = rho "thermal_conductivity" / (rho "density" * rho "specific_heat_capacity") /\
  e ^ 2 = rho "thermal_conductivity" * rho "density" * rho "specific_heat_capacity" /\
  e * sqrt a = rho "thermal_conductivity".
Proof. exact thermal_profile. Qed.
Print Assumptions C17_thermal_profile.

Theorem C17_thermal_roll : forall rho g a e,
  0 < rho "thermal_conductivity" -> 0 < rho "density" -> 0 < rho "specific_heat_capacity" ->
  resolve rho g chain_Roll__thermal_diffusivity = CVal a ->
  resolve rho g chain_Roll__heat_penetration_number = CVal e ->
  a = rho "thermal_conductivity" / (rho "density" * rho "specific_heat_capacity") /\
  e ^ 2 = rho "thermal_conductivity" * rho "density" * rho "specific_heat_capacity".
Proof. exact thermal_roll. Qed.
Print Assumptions C17_thermal_roll.

Theorem C17_draught_forms_consistent : forall rho g rel lg,
  rho "in_profile.equivalent_rectangle.height" <> 0 ->
  consistent rho g "draught" chain_DeformationUnit__draught ->
  consistent rho g "abs_draught" chain_DeformationUnit__abs_draught ->
  resolve rho g chain_DeformationUnit__rel_draught = CVal rel ->
  resolve rho g chain_DeformationUnit__log_draught = CVal lg ->
  rho "abs_draught" = rho "out_profile.equivalent_rectangle.height" - rho "in_profile.equivalent_rectangle.height" /\
  rel = rho "draught" - 1 /\ lg = ln (1 + rel).
Proof. exact draught_forms. Qed.
Print Assumptions C17_draught_forms_consistent.

Theorem C17_spread_forms_consistent : forall rho g rel lg,
  rho "in_profile.equivalent_rectangle.width" <> 0 ->
  consistent rho g "spread" chain_DeformationUnit__spread ->
  consistent rho g "abs_spread" chain_DeformationUnit__abs_spread ->
  resolve rho g chain_DeformationUnit__rel_spread = CVal rel ->
  resolve rho g chain_DeformationUnit__log_spread = CVal lg ->
  rho "abs_spread" = rho "out_profile.equivalent_rectangle.width" - rho "in_profile.equivalent_rectangle.width" /\
  rel = rho "spread" - 1 /\ lg = ln (1 + rel).
Proof. exact spread_forms. Qed.
Print Assumptions C17_spread_forms_consistent.

Theorem C17_elongation_forms_consistent : forall rho g rel lg,
  rho "in_profile.length" <> 0 ->
  consistent rho g "abs_elongation" chain_DeformationUnit__abs_elongation ->
  resolve rho g chain_DeformationUnit__rel_elongation = CVal rel ->
  resolve rho g chain_DeformationUnit__log_elongation = CVal lg ->
  rel = rho "out_profile.length" / rho "in_profile.length" - 1 /\ lg = ln (rho "elongation").
Proof. exact elongation_forms. Qed.
Print Assumptions C17_elongation_forms_consistent.

Theorem C17_strain_is_equivalent_of_log_coefficients : forall rho g e,
  resolve rho g chain_DeformationUnit__strain = CVal e ->
  e = sqrt (2 / 3 * (rho "log_elongation" ^ 2 + rho "log_spread" ^ 2 + rho "log_draught" ^ 2)) /\ 0 <= e.
Proof. exact strain_equivalent. Qed.
Print Assumptions C17_strain_is_equivalent_of_log_coefficients.

Theorem C17_draught_spread_elongation_product : forall rho g d s e,
  let hi := rho "in_profile.equivalent_rectangle.height" in
  let wi := rho "in_profile.equivalent_rectangle.width" in
  let ho := rho "out_profile.equivalent_rectangle.height" in
  let wo := rho "out_profile.equivalent_rectangle.width" in
  0 < hi -> 0 < wi -> 0 < ho -> 0 < wo ->
  hi * wi = rho "in_profile.cross_section.area" ->
  ho * wo = rho "out_profile.cross_section.area" ->
  resolve rho g chain_DeformationUnit__draught = CVal d ->
  resolve rho g chain_DeformationUnit__spread = CVal s ->
  resolve rho g chain_DeformationUnit__elongation = CVal e ->
  d * s * e = 1.
Proof. exact dse_product. Qed.
Print Assumptions C17_draught_spread_elongation_product.

(* Non-vacuity: every chain used above does yield a value under a concrete environment
   (all attributes 1, every guard true). *)
Example C17_nonvacuous :
  let rho : env := fun _ => 1 in let g : genv := fun _ _ => true in
  Forall (fun ch => exists v, resolve rho g ch = CVal v)
   [chain_Profile__equivalent_height; chain_Profile__equivalent_width; chain_Profile__equivalent_radius;
    chain_Profile__hydrostatic_stress; chain_Profile__equivalent_stress; chain_Profile__thermal_diffusivity;
    chain_Profile__heat_penetration_number; chain_Roll__thermal_diffusivity; chain_Roll__heat_penetration_number;
    chain_DeformationUnit__draught; chain_DeformationUnit__spread; chain_DeformationUnit__elongation;
    chain_DeformationUnit__abs_draught; chain_DeformationUnit__rel_draught; chain_DeformationUnit__log_draught;
    chain_DeformationUnit__abs_spread; chain_DeformationUnit__rel_spread; chain_DeformationUnit__log_spread;
    chain_DeformationUnit__abs_elongation; chain_DeformationUnit__rel_elongation;
    chain_DeformationUnit__log_elongation; chain_DeformationUnit__strain].
Proof. cbv zeta. repeat constructor; eexists; reflexivity. Qed.
