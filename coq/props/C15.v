(* C15 - Profile factories return valid shapes with exactly the requested dimensions.  ONLY statements.
   The factories (argument alternatives, range guard, core polygon, buffer radius) are regenerated from
   profile.py (T-I).  width_buffered / height_buffered use kernel law K4 (bounds of a round-join buffer = bounds of
   the core +- radius), which the oracle of this check samples against shapely. *)
From PyrollLib Require Import Factories.
From Run Require Import Gen_factories C15_proofs.
Open Scope string_scope.
Open Scope R_scope.

Theorem C15_round : forall rho f, In f round_branches -> accepted rho f ->
  width_buffered rho f = derived rho f "diameter" /\ height_buffered rho f = derived rho f "diameter" /\
  derived rho f "diameter" = 2 * derived rho f "radius" /\ 0 < derived rho f "radius" /\
  centre_x rho f = 0 /\ centre_y rho f = 0.
Proof. exact round_dims. Qed.
Print Assumptions C15_round.

Theorem C15_box : forall rho, accepted rho box_b0 ->
  width_buffered rho box_b0 = rho "width" /\ height_buffered rho box_b0 = rho "height" /\
  centre_x rho box_b0 = 0 /\ centre_y rho box_b0 = 0.
Proof. exact box_dims. Qed.
Print Assumptions C15_box.

Theorem C15_diamond : forall rho, accepted rho diamond_b0 ->
  width_buffered rho diamond_b0 = rho "width" /\ height_buffered rho diamond_b0 = rho "height" /\
  centre_x rho diamond_b0 = 0 /\ centre_y rho diamond_b0 = 0.
Proof. exact diamond_dims. Qed.
Print Assumptions C15_diamond.

(* documented measure of a rounded square: the diagonal is measured at the tips as if the radii were not present *)
Theorem C15_square : forall rho f, In f square_branches -> accepted rho f ->
  derived rho f "diagonal" * derived rho f "diagonal" = 2 * (derived rho f "side" * derived rho f "side") /\
  width_buffered rho f = derived rho f "diagonal" - 2 * rho "corner_radius" * (sqrt 2 - 1) /\
  height_buffered rho f = width_buffered rho f /\ centre_x rho f = 0 /\ centre_y rho f = 0.
Proof. exact square_dims. Qed.
Print Assumptions C15_square.

Theorem C15_hexagon : forall rho f, In f hexagon_branches -> accepted rho f ->
  derived rho f "diagonal" = 2 * derived rho f "side" /\
  derived rho f "height" = sqrt 3 * derived rho f "side" /\
  height_buffered rho f = derived rho f "height" /\
  width_buffered rho f = derived rho f "diagonal" - 2 * rho "corner_radius" * (2 / sqrt 3 - 1) /\
  centre_x rho f = 0 /\ centre_y rho f = 0.
Proof. exact hexagon_dims. Qed.
Print Assumptions C15_hexagon.

(* which argument patterns are accepted: exactly one of the alternative size arguments (otherwise TypeError) *)
Theorem C15_exactly_one_alternative : forall given : string -> bool,
  (existsb (selects given) round_branches = one_of given ["radius"; "diameter"]) /\
  (existsb (selects given) square_branches = one_of given ["side"; "diagonal"]) /\
  (existsb (selects given) hexagon_branches = one_of given ["side"; "height"; "diagonal"]).
Proof. exact alternatives_exactly_one. Qed.
Print Assumptions C15_exactly_one_alternative.

Example C15_nonvacuous :
  accepted (fun v => if String.eqb v "corner_radius" then 1 else 4) box_b0.
Proof.
  unfold accepted. cbv [f_guard box_b0].
  repeat (apply Forall_cons; [cbn [cmp_holds eval]; simpl String.eqb; cbv iota; lra|]). apply Forall_nil.
Qed.
