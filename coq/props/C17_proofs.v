(* Proofs for C17 about the chains regenerated from /repo (Gen_hookimpls.v). *)
From PyrollLib Require Import ExprFacts.
From Run Require Import Gen_hookimpls.
Open Scope string_scope.
Open Scope R_scope.

Section C17.
Variables (rho : env) (g : genv).

Lemma eq_rect_area h w :
  0 < rho "cross_section.area" -> 0 < rho "height" -> 0 < rho "width" ->
  resolve rho g chain_Profile__equivalent_height = CVal h ->
  resolve rho g chain_Profile__equivalent_width = CVal w ->
  h * w = rho "cross_section.area" /\ w / h = rho "width" / rho "height".
Proof.
  intros HA Hh Hw H1 H2.
  unfold chain_Profile__equivalent_height in H1. chain_inv H1.
  unfold chain_Profile__equivalent_width in H2. chain_inv H2.
  subst. split; [apply sqrt_prod_ratio | apply sqrt_ratio_ratio]; assumption.
Qed.

Lemma eq_radius r :
  0 <= rho "cross_section.area" ->
  resolve rho g chain_Profile__equivalent_radius = CVal r ->
  PI * r ^ 2 = rho "cross_section.area" /\ 0 <= r.
Proof.
  intros HA H. unfold chain_Profile__equivalent_radius in H. chain_inv H. subst.
  assert (0 < PI) by apply PI_RGT_0.
  split; [|apply sqrt_pos].
  replace (sqrt (rho "cross_section.area" / PI) ^ 2) with (Rsqr (sqrt (rho "cross_section.area" / PI)))
    by (unfold Rsqr; ring).
  rewrite Rsqr_sqrt. field. lra. apply Rmult_le_pos. lra. apply Rlt_le, Rinv_0_lt_compat; lra.
Qed.

Lemma hydrostatic_mean s :
  resolve rho g chain_Profile__hydrostatic_stress = CVal s ->
  s = mean3 (rho "longitudinal_stress") (rho "altitudinal_stress") (rho "latitudinal_stress").
Proof. intro H. unfold chain_Profile__hydrostatic_stress in H. chain_inv H. subst. reflexivity. Qed.

Lemma equivalent_is_von_mises s :
  resolve rho g chain_Profile__equivalent_stress = CVal s ->
  s = von_mises (rho "longitudinal_stress") (rho "altitudinal_stress") (rho "latitudinal_stress").
Proof.
  intro H. unfold chain_Profile__equivalent_stress in H. chain_inv H. subst.
  unfold von_mises. f_equal. field.
Qed.

Lemma thermal_profile a e :
  0 < rho "thermal_conductivity" -> 0 < rho "density" -> 0 < rho "specific_heat_capacity" ->
  resolve rho g chain_Profile__thermal_diffusivity = CVal a ->
  resolve rho g chain_Profile__heat_penetration_number = CVal e ->
  a = rho "thermal_conductivity" / (rho "density" * rho "specific_heat_capacity") /\
  e ^ 2 = rho "thermal_conductivity" * rho "density" * rho "specific_heat_capacity" /\
  e * sqrt a = rho "thermal_conductivity".
Proof.
  intros Hk Hd Hc H1 H2.
  unfold chain_Profile__thermal_diffusivity in H1. chain_inv H1.
  unfold chain_Profile__heat_penetration_number in H2. chain_inv H2. subst.
  set (k := rho "thermal_conductivity") in *. set (d := rho "density") in *.
  set (c := rho "specific_heat_capacity") in *.
  assert (0 < k * d * c) by (repeat apply Rmult_lt_0_compat; assumption).
  assert (0 < d * c) by (apply Rmult_lt_0_compat; assumption).
  split; [reflexivity|]. split.
  - replace (sqrt (k * d * c) ^ 2) with (Rsqr (sqrt (k * d * c))) by (unfold Rsqr; ring).
    apply Rsqr_sqrt. lra.
  - rewrite <- sqrt_mult_alt by lra.
    replace (k * d * c * (k / (d * c))) with (Rsqr k) by (unfold Rsqr; field; split; lra).
    apply sqrt_Rsqr. lra.
Qed.

Lemma thermal_roll a e :
  0 < rho "thermal_conductivity" -> 0 < rho "density" -> 0 < rho "specific_heat_capacity" ->
  resolve rho g chain_Roll__thermal_diffusivity = CVal a ->
  resolve rho g chain_Roll__heat_penetration_number = CVal e ->
  a = rho "thermal_conductivity" / (rho "density" * rho "specific_heat_capacity") /\
  e ^ 2 = rho "thermal_conductivity" * rho "density" * rho "specific_heat_capacity".
Proof.
  intros Hk Hd Hc H1 H2.
  unfold chain_Roll__thermal_diffusivity in H1. chain_inv H1.
  unfold chain_Roll__heat_penetration_number in H2. chain_inv H2. subst.
  split; [reflexivity|].
  set (x := _ * _ * _).
  replace (sqrt x ^ 2) with (Rsqr (sqrt x)) by (unfold Rsqr; ring).
  apply Rsqr_sqrt. unfold x. apply Rlt_le. repeat apply Rmult_lt_0_compat; assumption.
Qed.

(* coefficients of draught / spread / elongation.  [consistent name ch]: the environment holds,
   under [name], the value the chain [ch] computes - i.e. reads of that hook see its value. *)
Definition consistent (name : string) (ch : list impl) : Prop := resolve rho g ch = CVal (rho name).

Lemma draught_forms rel lg :
  rho "in_profile.equivalent_rectangle.height" <> 0 ->
  consistent "draught" chain_DeformationUnit__draught ->
  consistent "abs_draught" chain_DeformationUnit__abs_draught ->
  resolve rho g chain_DeformationUnit__rel_draught = CVal rel ->
  resolve rho g chain_DeformationUnit__log_draught = CVal lg ->
  rho "abs_draught" = rho "out_profile.equivalent_rectangle.height" - rho "in_profile.equivalent_rectangle.height" /\
  rel = rho "draught" - 1 /\ lg = ln (1 + rel).
Proof.
  unfold consistent. intros Hn H1 H2 H3 H4.
  unfold chain_DeformationUnit__draught in H1. chain_inv H1.
  unfold chain_DeformationUnit__abs_draught in H2. chain_inv H2.
  unfold chain_DeformationUnit__rel_draught in H3. chain_inv H3.
  unfold chain_DeformationUnit__log_draught in H4. chain_inv H4.
  subst. split; [symmetry; assumption|].
  assert (E : rho "abs_draught" / rho "in_profile.equivalent_rectangle.height" = rho "draught" - 1).
  { rewrite <- H1, <- H2. field. assumption. }
  split; [exact E|]. rewrite E. f_equal. ring.
Qed.

Lemma spread_forms rel lg :
  rho "in_profile.equivalent_rectangle.width" <> 0 ->
  consistent "spread" chain_DeformationUnit__spread ->
  consistent "abs_spread" chain_DeformationUnit__abs_spread ->
  resolve rho g chain_DeformationUnit__rel_spread = CVal rel ->
  resolve rho g chain_DeformationUnit__log_spread = CVal lg ->
  rho "abs_spread" = rho "out_profile.equivalent_rectangle.width" - rho "in_profile.equivalent_rectangle.width" /\
  rel = rho "spread" - 1 /\ lg = ln (1 + rel).
Proof.
  unfold consistent. intros Hn H1 H2 H3 H4.
  unfold chain_DeformationUnit__spread in H1. chain_inv H1.
  unfold chain_DeformationUnit__abs_spread in H2. chain_inv H2.
  unfold chain_DeformationUnit__rel_spread in H3. chain_inv H3.
  unfold chain_DeformationUnit__log_spread in H4. chain_inv H4.
  subst. split; [symmetry; assumption|].
  assert (E : rho "abs_spread" / rho "in_profile.equivalent_rectangle.width" = rho "spread" - 1).
  { rewrite <- H1, <- H2. field. assumption. }
  split; [exact E|]. rewrite E. f_equal. ring.
Qed.

Lemma elongation_forms rel lg :
  rho "in_profile.length" <> 0 ->
  consistent "abs_elongation" chain_DeformationUnit__abs_elongation ->
  resolve rho g chain_DeformationUnit__rel_elongation = CVal rel ->
  resolve rho g chain_DeformationUnit__log_elongation = CVal lg ->
  rel = rho "out_profile.length" / rho "in_profile.length" - 1 /\ lg = ln (rho "elongation").
Proof.
  unfold consistent. intros Hn H2 H3 H4.
  unfold chain_DeformationUnit__abs_elongation in H2. chain_inv H2.
  unfold chain_DeformationUnit__rel_elongation in H3. chain_inv H3.
  unfold chain_DeformationUnit__log_elongation in H4. chain_inv H4.
  subst. split; [|reflexivity]. rewrite <- H2. field. assumption.
Qed.

Lemma strain_equivalent e :
  resolve rho g chain_DeformationUnit__strain = CVal e ->
  e = sqrt (2 / 3 * (rho "log_elongation" ^ 2 + rho "log_spread" ^ 2 + rho "log_draught" ^ 2)) /\ 0 <= e.
Proof.
  intro H. unfold chain_DeformationUnit__strain in H. chain_inv H. subst.
  split; [reflexivity | apply sqrt_pos].
Qed.

(* draught * spread * elongation = 1 whenever the equivalent rectangles have the areas of their
   profiles (which is eq_rect_area above). *)
Lemma dse_product d s e :
  let hi := rho "in_profile.equivalent_rectangle.height" in
  let wi := rho "in_profile.equivalent_rectangle.width" in
  let ho := rho "out_profile.equivalent_rectangle.height" in
  let wo := rho "out_profile.equivalent_rectangle.width" in
  0 < hi -> 0 < wi -> 0 < ho -> 0 < wo ->
  hi * wi = rho "in_profile.cross_section.area" ->
  ho * wo = rho "out_profile.cross_section.area" ->
  resolve rho g chain_DeformationUnit__draught = CVal d ->
  resolve rho g chain_DeformationUnit__spread = CVal s ->
  resolve rho g chain_DeformationUnit__elongation = CVal e ->
  d * s * e = 1.
Proof.
  intros hi wi ho wo P1 P2 P3 P4 Ai Ao H1 H2 H3.
  unfold chain_DeformationUnit__draught in H1. chain_inv H1.
  unfold chain_DeformationUnit__spread in H2. chain_inv H2.
  unfold chain_DeformationUnit__elongation in H3. chain_inv H3.
  subst d s e. rewrite <- Ai, <- Ao. fold hi wi ho wo. field. repeat split; lra.
Qed.

End C17.
