(* C10 - All representations of one groove or roll surface describe the same shape.  ONLY statements.
   Gen_groove.v (junction chain, analytic contour functions, the table of np.piecewise, the sampling loop) is
   regenerated from generic_elongation.py on every run (T-D); `wellformed` (Groove.v) collects the documented
   parameter ranges (non-negative radii, flank angle below 90 degrees, arc angles in range), the ordering of the
   junctions and the absence of a step at z4, i.e. what the solvers establish and the constructor's acceptance checks.
   Roll surface and spline groove are hand-written models (Surface.v) tied by the correspondence run of this check. *)
From PyrollLib Require Import Expr ExprFacts Groove GrooveFacts Surface SurfaceFacts SplineFacts.
From Run Require Import Gen_groove C10_proofs.
Open Scope string_scope.

Section Real.
Open Scope R_scope.

(* every vertex of the contour polyline lies on the analytic depth function: for every sampling density n, every set of
   vertices the isclose guards let through, both halves of the polyline *)
Theorem C10_vertex_on_depth : forall rho n right p, wellformed rho ->
  (forall q, In q right -> In q (right_points rho n contour_items)) ->
  In p (full_contour right) -> glocal_depth rho depth_pieces depth_default (fst p) = snd p.
Proof. exact vertex_on_depth. Qed.

(* the depth function is continuous inside the groove: neighbouring analytic pieces agree at every junction *)
Theorem C10_depth_continuous_at_junctions : forall rho, wellformed rho ->
  let at_ (j f : expr) := eval (upd rho "z" (eval rho j)) f in
  at_ g_z7 f_ground_contour_line = at_ g_z7 f_r4_contour_line /\
  at_ g_z6 f_r4_contour_line = at_ g_z6 f_r3_contour_line /\
  at_ g_z5 f_r3_contour_line = at_ g_z5 f_r2_contour_line /\
  at_ g_z4 f_r2_contour_line = at_ g_z4 f_flank_contour_line /\
  at_ g_z3 f_flank_contour_line = at_ g_z3 f_r1_contour_line /\
  at_ g_z1 f_r1_contour_line = at_ g_z1 f_face_contour_line.
Proof. exact junction_continuity. Qed.

(* numpy's piecewise over the regenerated table is the hand-written depth function, which is even in z *)
Theorem C10_depth_even : forall rho z, glocal_depth rho depth_pieces depth_default (- z) = glocal_depth rho depth_pieces depth_default z.
Proof. intros rho z. rewrite !tie_local_depth. apply hlocal_depth_even. Qed.

(* roll surface: at the high point (x = 0) the grid reproduces the contour; off the high point it is the surface of
   revolution of the contour about the roll axis; symmetric in rolling direction *)
Theorem C10_surface_highpoint : forall Rmax y, y <= Rmax -> surf_y Rmax y 0 = y.
Proof. exact surf_highpoint. Qed.

Theorem C10_surface_of_revolution : forall Rmax y x, x ^ 2 <= (Rmax - y) ^ 2 ->
  (Rmax - surf_y Rmax y x) ^ 2 + x ^ 2 = (Rmax - y) ^ 2.
Proof. exact surf_revolution. Qed.

Theorem C10_surface_even_in_x : forall Rmax y x, surf_y Rmax y (- x) = surf_y Rmax y x.
Proof. exact surf_even. Qed.

Theorem C10_surface_grid_antisymmetric : forall rmin t, map Ropp (rev (xgrid rmin (0 :: t))) = xgrid rmin (0 :: t).
Proof. exact xgrid_antisymmetric. Qed.

(* interpolation: whichever cell a node is looked up in, the node's grid value comes back; mirrored cells give mirrored values *)
Theorem C10_interpolation_nodes : forall x0 x1 z0 z1 v00 v01 v10 v11, x0 <> x1 -> z0 <> z1 ->
  bilin x0 x1 z0 z1 v00 v01 v10 v11 x0 z0 = v00 /\ bilin x0 x1 z0 z1 v00 v01 v10 v11 x0 z1 = v01 /\
  bilin x0 x1 z0 z1 v00 v01 v10 v11 x1 z0 = v10 /\ bilin x0 x1 z0 z1 v00 v01 v10 v11 x1 z1 = v11.
Proof. intros. repeat split; [apply bilin_00 | apply bilin_01 | apply bilin_10 | apply bilin_11]; assumption. Qed.

Theorem C10_interpolation_symmetric : forall x0 x1 z0 z1 v00 v01 v10 v11 x z, x0 <> x1 -> z0 <> z1 ->
  bilin (- x1) (- x0) z0 z1 v10 v11 v00 v01 (- x) z = bilin x0 x1 z0 z1 v00 v01 v10 v11 x z /\
  bilin x0 x1 (- z1) (- z0) v01 v00 v11 v10 x (- z) = bilin x0 x1 z0 z1 v00 v01 v10 v11 x z.
Proof. intros. split; [apply bilin_mirror_x | apply bilin_mirror_z]; assumption. Qed.

(* the polyline is mirror symmetric (used for the symmetry in width direction) *)
Theorem C10_contour_symmetric : forall rho (init : list (R * R)),
  let right := (init ++ [(eval rho g_z9, eval rho g_y9)])%list in
  map mirror (rev (full_contour right)) = full_contour right.
Proof. exact contour_symmetric. Qed.

Example C10_nonvacuous : wellformed rho_v.
Proof. exact rho_v_wellformed. Qed.
End Real.

Print Assumptions C10_vertex_on_depth.
Print Assumptions C10_depth_continuous_at_junctions.
Print Assumptions C10_depth_even.
Print Assumptions C10_surface_highpoint.
Print Assumptions C10_surface_of_revolution.
Print Assumptions C10_surface_even_in_x.
Print Assumptions C10_surface_grid_antisymmetric.
Print Assumptions C10_interpolation_nodes.
Print Assumptions C10_interpolation_symmetric.
Print Assumptions C10_contour_symmetric.

Section Rational.
Open Scope Q_scope.

(* spline groove: the depth function passes through every stored vertex *)
Theorem C10_spline_through_vertices : forall p0 l p, incr p0 l -> In p (p0 :: l) -> pl_eval p0 l (fst p) == snd p.
Proof. exact pl_eval_node. Qed.

(* refining the polyline by a collinear vertex - anywhere, at any position within a segment - leaves the depth function
   unchanged at every z *)
Theorem C10_spline_refinement_invariant : forall pre p0 q p1 rest z a, collinear_between p0 q p1 ->
  pl_eval a (pre ++ p0 :: q :: p1 :: rest) z == pl_eval a (pre ++ p0 :: p1 :: rest) z.
Proof. exact pl_eval_refine. Qed.

Theorem C10_spline_refinement_invariant_head : forall p0 q p1 rest z, collinear_between p0 q p1 ->
  pl_eval p0 (q :: p1 :: rest) z == pl_eval p0 (p1 :: rest) z.
Proof. exact pl_eval_refine_head. Qed.

(* the centre depends on the extent only: any resampling that keeps the old vertices and adds vertices within the old
   extent keeps it; after centring the extent is symmetric about 0 *)
Theorem C10_spline_centre_resampling : forall l l', l <> [] -> (forall p, In p l -> In p l') ->
  (forall p', In p' l' -> minx l <= fst p' <= maxx l) -> centre l' == centre l.
Proof. exact centre_refine. Qed.

Theorem C10_spline_centred : forall l, l <> [] -> minx (map (shift (centre l)) l) == - maxx (map (shift (centre l)) l).
Proof. exact centred_extent. Qed.

(* the pinned centring (mean of the vertex abscissae, repaired by fix 3631695) moved the groove under refinement *)
Example C10_mean_centring_refuted :
  let mean (l : list (Q * Q)) := fold_left Qplus (map fst l) 0 / inject_Z (Z.of_nat (length l)) in
  ~ mean [(0, 0); (1, 1); (3, 1); (4, 0)] == mean [(0, 0); (1 # 2, 1 # 2); (1, 1); (3, 1); (4, 0)].
Proof. vm_compute. discriminate. Qed.

(* boundary stripping: every given vertex off the roll face is stored - also a single peak between two face points and grooves that touch
   the face in between - and no vertex is invented; the pinned strip (own height not looked at) dropped such a peak (repaired defect) *)
Theorem C10_spline_keeps_every_vertex_off_the_face : forall (pts : list (Q * Q)) (p : Q * Q),
  In p pts -> close0 (snd p) = false -> In p (strip pts).
Proof. exact strip_keeps_every_vertex_off_the_face. Qed.

Theorem C10_spline_strip_invents_nothing : forall (pts : list (Q * Q)) (p : Q * Q), In p (strip pts) -> In p pts.
Proof. exact (strip_invents_nothing true). Qed.

Theorem C10_spline_strip_pinned_refuted :
  exists pts p, In p pts /\ close0 (snd p) = false /\ ~ In p (strip_pinned pts) /\ In p (strip pts).
Proof. exact strip_pinned_drops_a_peak. Qed.

Example C10_spline_nonvacuous : incr (0, 0) [(1, 1); (3, 1); (4, 0)] /\ collinear_between (0, 0) (1 # 2, 1 # 2) (1, 1).
Proof. unfold collinear_between, seg. cbn. repeat split; try reflexivity. Qed.
End Rational.

Print Assumptions C10_spline_through_vertices.
Print Assumptions C10_spline_refinement_invariant.
Print Assumptions C10_spline_refinement_invariant_head.
Print Assumptions C10_spline_centre_resampling.
Print Assumptions C10_spline_centred.
Print Assumptions C10_spline_keeps_every_vertex_off_the_face.
Print Assumptions C10_spline_strip_invents_nothing.
Print Assumptions C10_spline_strip_pinned_refuted.
