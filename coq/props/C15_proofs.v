(* Proofs for C15 about the factories regenerated from profile.py (Gen_factories.v). *)
From PyrollLib Require Import Factories.
From Run Require Import Gen_factories.
Open Scope string_scope.
Open Scope R_scope.

Ltac acc H := unfold accepted in H;
  cbv [f_guard round_b0 round_b1 box_b0 diamond_b0 square_b0 square_b1 hexagon_b0 hexagon_b1 hexagon_b2] in H;
  repeat match type of H with Forall _ (_ :: _) => let A := fresh "G" in let B := fresh "H" in inversion H as [|? ? A B]; clear H; rename B into H; subst end;
  clear H; cbn [cmp_holds eval] in *.

Lemma sqrt3_gt1 : 1 < sqrt 3.
Proof. rewrite <- sqrt_1 at 1. apply sqrt_lt_1; lra. Qed.
Lemma sqrt3_sq : sqrt 3 * sqrt 3 = 3.
Proof. apply sqrt_sqrt. lra. Qed.
Lemma sqrt2_sq : sqrt 2 * sqrt 2 = 2.
Proof. apply sqrt_sqrt. lra. Qed.
Lemma sqrt2_gt1 : 1 < sqrt 2.
Proof. rewrite <- sqrt_1 at 1. apply sqrt_lt_1; lra. Qed.

(* round: width = height = 2 radius = diameter, whichever is given; centred *)
Lemma round_dims rho f : In f round_branches -> accepted rho f ->
  width_buffered rho f = derived rho f "diameter" /\ height_buffered rho f = derived rho f "diameter" /\
  derived rho f "diameter" = 2 * derived rho f "radius" /\ 0 < derived rho f "radius" /\
  centre_x rho f = 0 /\ centre_y rho f = 0.
Proof.
  intros [E|[E|[]]] A; subst f; acc A;
    unfold width_buffered, height_buffered, centre_x, centre_y, derived, xs, ys; cbn; repeat split; lra.
Qed.

(* box: exactly the requested width and height *)
Lemma box_dims rho : accepted rho box_b0 ->
  width_buffered rho box_b0 = rho "width" /\ height_buffered rho box_b0 = rho "height" /\
  centre_x rho box_b0 = 0 /\ centre_y rho box_b0 = 0.
Proof.
  intro A. acc A. unfold width_buffered, height_buffered, centre_x, centre_y, xs, ys. cbn [box_b0 f_core f_radius map fst snd eval].
  set (a := rho "width" / 2 - rho "corner_radius"). set (b := rho "height" / 2 - rho "corner_radius").
  assert (Ea : a = rho "width" / 2 - rho "corner_radius") by reflexivity.
  assert (Eb : b = rho "height" / 2 - rho "corner_radius") by reflexivity. clearbody a b.
  assert (0 <= a) by lra. assert (0 <= b) by lra.
  repeat split; [extremes_x a (- a) | extremes_x b (- b) | extremes_x a (- a) | extremes_x b (- b)]; lra.
Qed.

(* diamond: tips at the requested width and height (the rounding circle of radius r around a core tip at w/2 - r reaches w/2) *)
Lemma diamond_dims rho : accepted rho diamond_b0 ->
  width_buffered rho diamond_b0 = rho "width" /\ height_buffered rho diamond_b0 = rho "height" /\
  centre_x rho diamond_b0 = 0 /\ centre_y rho diamond_b0 = 0.
Proof.
  intro A. acc A. unfold width_buffered, height_buffered, centre_x, centre_y, xs, ys. cbn [diamond_b0 f_core f_radius map fst snd eval].
  set (a := rho "width" / 2 - rho "corner_radius"). set (b := rho "height" / 2 - rho "corner_radius").
  assert (Ea : a = rho "width" / 2 - rho "corner_radius") by reflexivity.
  assert (Eb : b = rho "height" / 2 - rho "corner_radius") by reflexivity. clearbody a b.
  assert (0 <= a) by lra. assert (0 <= b) by lra.
  repeat split; [extremes_x a (- a) | extremes_x b (- b) | extremes_x a (- a) | extremes_x b (- b)]; lra.
Qed.

(* square (standing on a corner): extent = diagonal - 2 r (sqrt 2 - 1), diagonal = sqrt 2 * side in both branches *)
Lemma square_dims rho f : In f square_branches -> accepted rho f ->
  derived rho f "diagonal" * derived rho f "diagonal" = 2 * (derived rho f "side" * derived rho f "side") /\
  width_buffered rho f = derived rho f "diagonal" - 2 * rho "corner_radius" * (sqrt 2 - 1) /\
  height_buffered rho f = width_buffered rho f /\ centre_x rho f = 0 /\ centre_y rho f = 0.
Proof.
  pose proof sqrt2_sq as S2. pose proof sqrt2_gt1 as S1.
  intros [E|[E|[]]] A; subst f; acc A;
    unfold width_buffered, height_buffered, centre_x, centre_y, derived, xs, ys;
    cbn [square_b0 square_b1 f_core f_radius f_derived alookup_e String.eqb Ascii.eqb Bool.eqb map fst snd eval].
  - set (s := rho "side") in *. set (r := rho "corner_radius") in *.
    set (a := sqrt 2 * s / 2 - r * sqrt 2).
    assert (Ea : a = sqrt 2 * s / 2 - r * sqrt 2) by reflexivity. clearbody a.
    assert (0 <= a) by nra.
    repeat split.
    + nra.
    + extremes_x a (- a). lra.
    + extremes_x a (- a). extremes_x a (- a). lra.
    + extremes_x a (- a). lra.
    + extremes_x a (- a). lra.
  - set (d := rho "diagonal") in *. set (r := rho "corner_radius") in *.
    assert (Sp : 0 < sqrt 2) by lra.
    assert (Hs : 0 < d / sqrt 2) by (apply Rnot_le_lt; assumption).
    assert (Hd : 0 < d) by (apply (Rmult_lt_reg_r (/ sqrt 2)); [apply Rinv_0_lt_compat; lra | unfold Rdiv in Hs; lra]).
    assert (Hr : r <= d / sqrt 2 / 2) by lra.
    assert (E : d / sqrt 2 = d * sqrt 2 / 2) by (field_simplify_eq; [nra | lra]).
    set (a := d / 2 - r * sqrt 2).
    assert (Ea : a = d / 2 - r * sqrt 2) by reflexivity. clearbody a.
    assert (0 <= a) by (rewrite E in Hr; nra).
    repeat split.
    + rewrite E. nra.
    + extremes_x a (- a). lra.
    + extremes_x a (- a). extremes_x a (- a). lra.
    + extremes_x a (- a). lra.
    + extremes_x a (- a). lra.
Qed.

(* hexagon (standing on a flat side): height = sqrt 3 * side exactly (flat sides stay put), width = diagonal minus the
   rounding of the two side tips; the three parametrisations agree: diagonal = 2 side, height = sqrt 3 side *)
Lemma hexagon_dims rho f : In f hexagon_branches -> accepted rho f ->
  derived rho f "diagonal" = 2 * derived rho f "side" /\
  derived rho f "height" = sqrt 3 * derived rho f "side" /\
  height_buffered rho f = derived rho f "height" /\
  width_buffered rho f = derived rho f "diagonal" - 2 * rho "corner_radius" * (2 / sqrt 3 - 1) /\
  centre_x rho f = 0 /\ centre_y rho f = 0.
Proof.
  pose proof sqrt3_sq as S3. pose proof sqrt3_gt1 as S1. set (t := sqrt 3) in *.
  assert (Tn : t <> 0) by lra.
  assert (K : forall s r, 0 < s -> 0 <= r -> r <= s / 2 -> 0 <= s - 2 * r / t).
  { intros s r Hs Hr Hle. assert (2 * r / t <= s / t) by (unfold Rdiv; apply Rmult_le_compat_r; [apply Rlt_le, Rinv_0_lt_compat; lra | lra]).
    assert (s / t < s) by (apply (Rmult_lt_reg_r t); [lra | unfold Rdiv; rewrite Rmult_assoc, Rinv_l by assumption; nra]). lra. }
  intros I A.
  assert (EXT : forall s r, 0 < s -> 0 <= r -> r <= s / 2 ->
              let a := s - 2 * r / t in
              Rmaxl [- (1) * a; - (1) / 2 * a; 1 / 2 * a; 1 * a; 1 / 2 * a; - (1) / 2 * a] = a /\
              Rminl [- (1) * a; - (1) / 2 * a; 1 / 2 * a; 1 * a; 1 / 2 * a; - (1) / 2 * a] = - a /\
              Rmaxl [0 * a; t / 2 * a; t / 2 * a; 0 * a; - t / 2 * a; - t / 2 * a] = t / 2 * a /\
              Rminl [0 * a; t / 2 * a; t / 2 * a; 0 * a; - t / 2 * a; - t / 2 * a] = - (t / 2 * a)).
  { intros s r Hs Hr Hle a. pose proof (K s r Hs Hr Hle) as Ha. fold a in Ha. clearbody a.
    assert (0 <= t / 2 * a) by nra.
    repeat split; first [apply Rmaxl_eq | apply Rminl_eq]; first [in_list | solve [repeat (constructor; [nra|]); constructor]]. }
  destruct I as [E|[E|[E|[]]]]; subst f; acc A;
    unfold width_buffered, height_buffered, centre_x, centre_y, derived, xs, ys;
    cbn [hexagon_b0 hexagon_b1 hexagon_b2 f_core f_radius f_derived alookup_e String.eqb Ascii.eqb Bool.eqb map fst snd eval]; fold t;
    repeat match goal with H : ~ _ |- _ => progress fold t in H end.
  - set (s := rho "side") in *. set (r := rho "corner_radius") in *.
    destruct (EXT s r ltac:(lra) ltac:(lra) ltac:(lra)) as [Q1 [Q2 [Q3 Q4]]]. cbv zeta in *.
    rewrite Q1, Q2, Q3, Q4. repeat split; try lra; field; assumption.
  - set (d := rho "diagonal") in *. set (r := rho "corner_radius") in *.
    destruct (EXT (d / 2) r ltac:(lra) ltac:(lra) ltac:(lra)) as [Q1 [Q2 [Q3 Q4]]]. cbv zeta in *.
    rewrite Q1, Q2, Q3, Q4. repeat split; try lra; field; assumption.
  - set (h := rho "height") in *. set (r := rho "corner_radius") in *.
    assert (Hs : 0 < h / t) by lra.
    destruct (EXT (h / t) r ltac:(lra) ltac:(lra) ltac:(lra)) as [Q1 [Q2 [Q3 Q4]]]. cbv zeta in *.
    rewrite Q1, Q2, Q3, Q4. repeat split; try lra; field; assumption.
Qed.

(* admissible argument patterns: exactly one of the alternative size arguments *)
Definition one_of (given : string -> bool) (names : list string) : bool := Nat.eqb (length (filter given names)) 1.

Lemma alternatives_exactly_one (given : string -> bool) :
  (existsb (selects given) round_branches = one_of given ["radius"; "diameter"]) /\
  (existsb (selects given) square_branches = one_of given ["side"; "diagonal"]) /\
  (existsb (selects given) hexagon_branches = one_of given ["side"; "height"; "diagonal"]).
Proof.
  unfold one_of. cbn [filter]. repeat split;
    cbv [existsb selects forallb round_branches round_b0 round_b1 square_branches square_b0 square_b1
         hexagon_branches hexagon_b0 hexagon_b1 hexagon_b2 f_pattern fst snd];
    destruct (given "radius"), (given "diameter"), (given "side"), (given "diagonal"), (given "height"); reflexivity.
Qed.
