(* C09 - Pass opening: symmetric contours, exact gap, interchangeable gap/height/ICD.  ONLY statements.
   two_roll_contours / three_roll_contours: operation sequences regenerated from TwoRollPass.contour_lines and
   ThreeRollPass.contour_lines (T-K); chains: regenerated hook formulas (T-A); geometry: PyrollLib.Geo2D/PassGeo. *)
From PyrollLib Require Import ExprFacts PassGeo.
From Run Require Import Gen_hookimpls Gen_contours C09_proofs.
Open Scope string_scope.
Open Scope R_scope.

Theorem C09_two_roll_half_turn : forall rho l,
  contour rho two_roll_contours 1 l = map (rot PI) (contour rho two_roll_contours 0 l) /\
  map (rot PI) (contour rho two_roll_contours 1 l) = contour rho two_roll_contours 0 l.
Proof. exact two_halfturn. Qed.
Print Assumptions C09_two_roll_half_turn.

Theorem C09_two_roll_faces_separated_by_gap : forall rho z,
  contour rho two_roll_contours 0 [(z, 0)] = [(z, rho "gap" / 2)] /\
  contour rho two_roll_contours 1 [(z, 0)] = [(- z, - (rho "gap" / 2))].
Proof. exact two_face_gap. Qed.
Print Assumptions C09_two_roll_faces_separated_by_gap.

Theorem C09_two_roll_height_is_gap_plus_twice_depth : forall rho z d,
  let up := contour rho two_roll_contours 0 [(z, d)] in
  let lo := contour rho two_roll_contours 1 [(z, d)] in
  snd (hd (0, 0) up) - snd (hd (0, 0) lo) = rho "gap" + 2 * d.
Proof. exact two_height_from_contour. Qed.
Print Assumptions C09_two_roll_height_is_gap_plus_twice_depth.

Theorem C09_two_roll_gap_height_interchangeable : forall rho g g' h gp,
  (resolve rho g chain_TwoRollPass__height = CVal h ->
   resolve (upd rho "height" h) g' chain_TwoRollPass__gap = CVal gp -> gp = rho "gap" /\ h = rho "gap" + 2 * rho "roll.groove.depth") /\
  (resolve rho g chain_TwoRollPass__gap = CVal gp ->
   resolve (upd rho "gap" gp) g' chain_TwoRollPass__height = CVal h -> h = rho "height").
Proof. exact two_gap_height_roundtrip. Qed.
Print Assumptions C09_two_roll_gap_height_interchangeable.

Theorem C09_three_roll_contours_map_under_120_degrees : forall rho l,
  let c k := contour rho three_roll_contours k l in
  c 1%nat = map (rot (deg 120)) (c 0%nat) /\ c 2%nat = map (rot (deg 120)) (c 1%nat) /\ c 0%nat = map (rot (deg 120)) (c 2%nat).
Proof. exact three_contours_120. Qed.
Print Assumptions C09_three_roll_contours_map_under_120_degrees.

Theorem C09_three_roll_gap_icd_roundtrip : forall rho g g' icd gp,
  g' "has_set" "inscribed_circle_diameter" = true ->
  resolve rho g chain_ThreeRollPass__inscribed_circle_diameter = CVal icd ->
  resolve (upd rho "inscribed_circle_diameter" icd) g' chain_ThreeRollPass__gap = CVal gp ->
  gp = rho "gap".
Proof. exact three_gap_icd_roundtrip. Qed.
Print Assumptions C09_three_roll_gap_icd_roundtrip.

Theorem C09_three_roll_gap_from_height_or_icd : forall rho gp0,
  let d := 2 * (rho "roll.groove.usable_width" / 2 / sqrt 3 + gp0 / sqrt 3 + rho "roll.groove.depth") in
  rho "inscribed_circle_diameter" = d -> rho "height" = d ->
  all_impls_give rho chain_ThreeRollPass__gap gp0.
Proof. exact three_gap_impls_consistent. Qed.
Print Assumptions C09_three_roll_gap_from_height_or_icd.

Example C09_nonvacuous :
  length two_roll_contours = 2%nat /\ length three_roll_contours = 3%nat /\
  exists v, resolve (fun _ => 1) (fun _ _ => true) chain_TwoRollPass__height = CVal v.
Proof. repeat split. eexists. reflexivity. Qed.
