(* Proofs for C06 about regenerated formulas (Gen_hookimpls.v) and the chaining lemmas of PyrollLib.Handover. *)
From PyrollLib Require Import ExprFacts Handover Geo2D.
From Run Require Import Gen_hookimpls.
Open Scope string_scope.
Open Scope R_scope.

Section C06.
Variables (rho : env) (g : genv).

Lemma time_advances t :
  resolve rho g chain_Unit_OutProfile__t = CVal t -> t = rho "unit.in_profile.t" + rho "unit.duration".
Proof. intro H. unfold chain_Unit_OutProfile__t in H. chain_inv H. subst. reflexivity. Qed.

Lemma position_advances x :
  resolve rho g chain_Unit_OutProfile__x = CVal x -> x = rho "unit.in_profile.x" + rho "unit.length".
Proof. intro H. unfold chain_Unit_OutProfile__x in H. chain_inv H. subst. reflexivity. Qed.

(* volume through a roll pass: the out length is elongation x in length, the elongation an area ratio.  If the
   remembered elongation was computed from the out area A_j of an earlier iterate while the final out area is A_k,
   the volume ratio is exactly A_k / A_j; it is 1 when both are the same iterate *)
Lemma volume_lag lo e Ak :
  rho "in_profile.cross_section.area" <> 0 -> rho "out_profile.cross_section.area" <> 0 -> rho "roll_pass.in_profile.length" <> 0 ->
  resolve rho g chain_DeformationUnit__elongation = CVal e ->
  resolve (upd rho "roll_pass.elongation" e) g chain_BaseRollPass_OutProfile__length = CVal lo ->
  (Ak * lo) / (rho "in_profile.cross_section.area" * rho "roll_pass.in_profile.length") = Ak / rho "out_profile.cross_section.area".
Proof.
  intros N1 N2 N3 H1 H2. unfold chain_DeformationUnit__elongation in H1. chain_inv H1.
  unfold chain_BaseRollPass_OutProfile__length in H2. chain_inv H2. unfold upd in H2. simpl String.eqb in H2. cbv iota in H2.
  subst. field. repeat split; assumption.
Qed.

Lemma volume_conserved lo e :
  rho "in_profile.cross_section.area" <> 0 -> rho "out_profile.cross_section.area" <> 0 ->
  resolve rho g chain_DeformationUnit__elongation = CVal e ->
  resolve (upd rho "roll_pass.elongation" e) g chain_BaseRollPass_OutProfile__length = CVal lo ->
  rho "out_profile.cross_section.area" * lo = rho "in_profile.cross_section.area" * rho "roll_pass.in_profile.length".
Proof.
  intros N1 N2 H1 H2. unfold chain_DeformationUnit__elongation in H1. chain_inv H1.
  unfold chain_BaseRollPass_OutProfile__length in H2. chain_inv H2. unfold upd in H2. simpl String.eqb in H2. cbv iota in H2.
  subst. field. assumption.
Qed.

Lemma strain_accumulates s :
  resolve rho g chain_BaseRollPass_OutProfile__strain = CVal s -> s = rho "roll_pass.in_profile.strain" + rho "roll_pass.strain".
Proof. intro H. unfold chain_BaseRollPass_OutProfile__strain in H. chain_inv H. subst. reflexivity. Qed.

Lemma transport_resets_strain s : resolve rho g chain_Transport_OutProfile__strain = CVal s -> s = 0.
Proof. intro H. unfold chain_Transport_OutProfile__strain in H. chain_inv H. subst. reflexivity. Qed.

Lemma rotator_takes_no_time d : resolve rho g chain_Rotator__duration = CVal d -> d = 0.
Proof. intro H. unfold chain_Rotator__duration in H. chain_inv H. subst. reflexivity. Qed.

Lemma sequence_elongation_is_area_ratio e :
  resolve rho g chain_PassSequence__elongation = CVal e ->
  e = rho "in_profile.cross_section.area" / rho "out_profile.cross_section.area".
Proof. intro H. unfold chain_PassSequence__elongation in H. chain_inv H. subst. reflexivity. Qed.

(* disk elements: each carries 1/n of its parent's length and duration *)
Lemma disk_parts l d :
  resolve rho g chain_DiskElementUnit_DiskElement__length = CVal l ->
  resolve rho g chain_DiskElementUnit_DiskElement__duration = CVal d ->
  l = rho "parent.length" / rho "parent.disk_element_count" /\ d = rho "parent.duration" / rho "parent.disk_element_count".
Proof.
  intros H1 H2. unfold chain_DiskElementUnit_DiskElement__length in H1. chain_inv H1.
  unfold chain_DiskElementUnit_DiskElement__duration in H2. chain_inv H2. subst. split; reflexivity.
Qed.
End C06.
