(* C08 - A pass's outgoing profile is confined by the rolls and has the prescribed width.  ONLY statements.
   Gen_contours.v (T-K): operation sequences of TwoRollPass/ThreeRollPass.contour_lines; Gen_crosssec.v (T-K2): how Profile.from_groove and
   helpers.out_cross_section build and clip the polygon, and the over-width factors of the guards; Gen_hookimpls.v (T-A): OutProfile.width.
   Clip.v is a Sutherland-Hodgman model of clip_by_rect for a vertical strip, tied to shapely by this check's correspondence run.
   Three-roll passes (clip and rotate by 120 degrees three times) have no theorem: they are covered by the search only (partial). *)
From PyrollLib Require Import Expr ExprFacts PassGeo Clip ClipFacts.
From Run Require Import Gen_contours Gen_crosssec Gen_hookimpls.
From Coq Require Import Lqa.
Open Scope string_scope.

(* the same shape as Profile.from_groove: both constructions feed the same contours, in the same order, into the same clipping *)
Theorem C08_same_construction_as_from_groove : fg_contours = two_roll_contours.
Proof. reflexivity. Qed.

Theorem C08_same_shape_as_from_groove : forall (A : Type) (geos : list (list pt) -> A) rho base,
  geos (map (fun ops => apply_ops rho ops base) fg_contours) = geos (map (fun ops => apply_ops rho ops base) two_roll_contours).
Proof. intros. rewrite C08_same_construction_as_from_groove. reflexivity. Qed.

(* the default width is the usable width of the pass *)
Theorem C08_default_width_is_usable_width : forall rho g,
  resolve rho g chain_BaseRollPass_OutProfile__width = CVal (rho "roll_pass.usable_width").
Proof. intros. reflexivity. Qed.

Section Strip.
Open Scope Q_scope.

(* confined: no vertex outside the strip; every vertex is a vertex of the opening or lies on one of its edges *)
Theorem C08_within_prescribed_width : forall w l v, 0 <= w -> In v (clip_strip w l) -> - (w / 2) <= fst v <= w / 2.
Proof. exact clip_strip_within. Qed.

Theorem C08_vertices_on_the_opening : forall c l v,
  (In v (clip_le c l) ->
   In v l \/ (exists p q, In p l /\ In q l /\ fst v = c /\ Qmin (fst p) (fst q) <= c <= Qmax (fst p) (fst q) /\
                         Qmin (snd p) (snd q) <= snd v <= Qmax (snd p) (snd q))) /\
  (In v (clip_ge c l) ->
   In v l \/ (exists p q, In p l /\ In q l /\ fst v = c /\ Qmin (fst p) (fst q) <= c <= Qmax (fst p) (fst q) /\
                         Qmin (snd p) (snd q) <= snd v <= Qmax (snd p) (snd q))).
Proof. intros. split; [apply clip_le_confined | apply clip_ge_confined]. Qed.

(* exactly the prescribed width whenever the opening reaches that far on both sides (filled, over-filled into the face padding) *)
Theorem C08_exact_width : forall w l, 0 <= w -> (exists a, In a l /\ w / 2 <= fst a) -> (exists b, In b l /\ fst b <= - (w / 2)) ->
  width_of (clip_strip w l) == w.
Proof. exact clip_strip_width. Qed.

(* under-filled relative to the whole contour: nothing is cut *)
Theorem C08_nothing_cut_inside : forall w l, (forall p, In p l -> - (w / 2) <= fst p <= w / 2) -> clip_strip w l = l.
Proof. exact clip_strip_identity. Qed.

(* over-width: the test of the pass (on the clipped section) and the test of from_groove (on the opening) use the same factor and
   accept / reject the same prescribed widths; h = half the prescribed width, H = half the width of the opening *)
Theorem C08_overwidth_guards_agree : pass_overwidth_factor = fg_overwidth_factor /\
  forall h H, 0 < H -> 0 <= h ->
  (2 * Qmin h H * pass_overwidth_factor < 2 * h <-> h > H * fg_overwidth_factor) /\
  (h > H * fg_overwidth_factor <-> (- h < - H * fg_overwidth_factor \/ h > H * fg_overwidth_factor)).
Proof. split; [reflexivity|]. intros h H P Ph. exact (overwidth_guards_agree h H P Ph). Qed.

Example C08_nonvacuous :
  let sq := [(2, 1); (-2, 1); (-2, -1); (2, -1)] in
  width_of (clip_strip 2 sq) == 2 /\ clip_strip 6 sq = sq /\ (exists a, In a sq /\ 2 / 2 <= fst a).
Proof. cbv zeta. split; [vm_compute; reflexivity|]. split; [vm_compute; reflexivity|]. exists (2, 1). split; [left; reflexivity | vm_compute; discriminate]. Qed.
End Strip.

Print Assumptions C08_same_construction_as_from_groove.
Print Assumptions C08_same_shape_as_from_groove.
Print Assumptions C08_default_width_is_usable_width.
Print Assumptions C08_within_prescribed_width.
Print Assumptions C08_vertices_on_the_opening.
Print Assumptions C08_exact_width.
Print Assumptions C08_nothing_cut_inside.
Print Assumptions C08_overwidth_guards_agree.
