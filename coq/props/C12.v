(* C12 - Solving has no side effects on its inputs and no aliasing between positions.  ONLY statements.
   Heap.v models copy.deepcopy over HookHost.__deepcopy__ / _SubUnitsList.__deepcopy__ (strong and weak references, memo entered before or after the
   fields), tied to the implementation by comparing the memoisation order on real unit trees.
   Gen_mutations.v (T-S) is the mutation-relevant skeleton of every registered hook implementation and of the Profile factories, regenerated from the
   live registry on every run.  That solve itself writes only unit-owned objects is decided by the snapshot search of this check (partial). *)
From PyrollLib Require Import Heap HeapFacts Fresh FreshFacts.
From Run Require Import Gen_mutations.
From Coq Require Import Lia.

(* a deep copy shares nothing with the original: the original objects are untouched, the copy of the root is a new object, every memoised copy is
   new, and every reference held by a new object - strong (units, profiles, rolls, sub-unit lists) or weak (parent, owner, unit, roll pass
   back-references) - points to a new object; a weak reference whose target is gone (Dead) has no target to speak of; for every heap, every root,
   every recursion budget *)
Theorem C12_deepcopy_shares_nothing : forall fuel h0 root h' m r, deepcopy fuel h0 root = Some ((h', m), r) ->
  firstn (length h0) h' = h0 /\
  length h0 <= r < length h' /\
  (forall x y, In (x, y) m -> length h0 <= y < length h') /\
  (forall i o, length h0 <= i -> nth_error h' i = Some o -> forall k t, In (k, t) (fields o) -> k <> Dead -> length h0 <= t < length h').
Proof.
  intros fuel h0 root h' m r E. unfold deepcopy in E.
  destruct (dcopy_good h0 true fuel (h0, []) root (h', m) r (Inv_init h0) E) as [I [R _]]. cbn [fst snd] in *.
  split; [apply (inv_orig _ _ I)|]. split; [exact R|]. split; [apply (inv_memo _ _ I) | apply (inv_closed _ _ I)].
Qed.

(* the copy of the root has the same fields in the same order with the same kinds: strong stays strong, weak stays weak, and a back-reference whose
   target is gone stays dead (and nothing else becomes dead) *)
Theorem C12_copy_keeps_reference_kinds : forall fuel h0 root h' m r, deepcopy fuel h0 root = Some ((h', m), r) ->
  exists o o', nth_error h0 root = Some o /\ nth_error h' r = Some o' /\ map fst (fields o') = map fst (fields o) /\ early o' = early o.
Proof. exact root_copy_keeps_kinds. Qed.
Print Assumptions C12_copy_keeps_reference_kinds.

(* pinned behaviour before the repair 343b99d: one dead back-reference makes the whole deep copy fail (weakref.ref(None)); the repaired copy of the
   same heap succeeds, shares nothing and keeps the reference dead *)
Theorem C12_dead_reference_pinned_refuted :
  deepcopy_pinned 10 orphan_heap 0 = None /\
  exists h' m, deepcopy 10 orphan_heap 0 = Some ((h', m), 2) /\
               nth_error h' 2 = Some {| early := true; fields := [(Dead, 0); (Strong, 3)] |} /\
               nth_error h' 3 = Some {| early := true; fields := [(Weak, 2)] |}.
Proof. exact dead_reference_pinned_fails. Qed.
Print Assumptions C12_dead_reference_pinned_refuted.

(* every value-producing function keeps the mutation discipline: what it changes in place it has created itself ... *)
Theorem C12_all_implementations_disciplined : forallb (fun p => discipline (snd p)) mutation_programs = true.
Proof. vm_compute. reflexivity. Qed.

(* ... and therefore never changes an object that existed before it ran (a classifier set attached to a profile, a list handed in),
   whatever the values it reads are aliased with *)
Theorem C12_no_inplace_mutation : forall name p, In (name, p) mutation_programs ->
  forall pick val h0, firstn (length h0) (fst (run pick val 0 (h0, []) p)) = h0.
Proof.
  intros name p I pick val h0. apply discipline_protects_existing_objects.
  pose proof C12_all_implementations_disciplined as A. rewrite forallb_forall in A. apply (A (name, p) I).
Qed.

(* non-vacuity: a unit with a sub-unit list and a child holding a weak parent reference *)
Example C12_nonvacuous :
  let h := [ {| early := true; fields := [(Strong, 1)] |};                       (* sequence -> its sub-unit list *)
             {| early := false; fields := [(Weak, 0); (Strong, 2)] |};           (* list: owner, element *)
             {| early := true; fields := [(Weak, 0)] |} ] in                     (* unit: parent *)
  match deepcopy 20 h 2 with                                                      (* copying the CHILD copies the whole tree *)
  | Some ((h', m), r) => r = 3 /\ length h' = 6 /\ nth_error h' 3 = Some {| early := true; fields := [(Weak, 4)] |}
  | None => False
  end.
Proof. vm_compute. repeat split. Qed.

Example C12_discipline_nonvacuous :
  existsb (fun p => existsb (fun c => match c with SMutate _ => true | _ => false end) (snd p)) mutation_programs = true.
Proof. vm_compute. reflexivity. Qed.

Print Assumptions C12_deepcopy_shares_nothing.
Print Assumptions C12_all_implementations_disciplined.
Print Assumptions C12_no_inplace_mutation.
