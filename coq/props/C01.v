(* C01 - Hook resolution order is a pure function of registrations and class hierarchy.
   ONLY statements.  Model: PyrollLib.HookMachine (six per-class stores, lazily touched hooks, wrapper
   protocol, cycle flag); tied to pyroll/core/hooks.py by the correspondence run of this check. *)
From PyrollLib Require Import HookMachine HookFacts HookWrappers.
From Coq Require Import Lia.

(* [chain mro log c h] (HookFacts.v) is the documented order: wrappers before plain; tryfirst, normal,
   trylast; most derived class first along the MRO; latest registration first.  [log_step] is the abstract
   registration log (removal through the implementation's own hook, or through the class it was registered
   on, deletes the entry; class/instance touches and every evaluation leave it alone). *)
Theorem C01_functions_are_the_documented_order :
  forall mro fuel ops c h, ok_run mro fuel init ops ->
  functions mro (fst (run mro sem_fixed fuel init ops)) c h = chain mro (fold_left log_step ops []) c h.
Proof. exact functions_refine_chain. Qed.
Print Assumptions C01_functions_are_the_documented_order.

Theorem C01_scope_exactly_class_and_subclasses :
  forall mro log c h i, (forall j jm, In (j, jm) log -> i_tier jm <= 2) ->
  (In i (chain mro log c h) <-> exists im, In (i, im) log /\ i_hook im = h /\ In (i_owner im) (mro c)).
Proof. exact chain_scope. Qed.
Print Assumptions C01_scope_exactly_class_and_subclasses.

Theorem C01_removed_never_consulted :
  forall mro log i c h, ~ In i (chain mro (log_step log (Remove i)) c h).
Proof. exact removed_never. Qed.
Print Assumptions C01_removed_never_consulted.

(* touches (lazy creation of per-subclass Hook objects) do not change the log, hence not the order *)
Theorem C01_touch_irrelevant : forall log c h, log_step log (Touch c h) = log.
Proof. exact (fun _ _ _ => eq_refl). Qed.
Print Assumptions C01_touch_irrelevant.

(* the first result that is not None is the value (chains of constant implementations, any length,
   any pattern of None / non-None) *)
Theorem C01_first_non_none_wins :
  forall gr o c h l st, (forall i, In i l -> const_of st i <> None) ->
  snd (scan sem_fixed gr o c h l st) = Val (first_non_none st l).
Proof. exact scan_first_non_none. Qed.
Print Assumptions C01_first_non_none_wins.

(* wrapper composition (repaired semantics): a stack of cycle-guarded wrappers (each adding its own amount) over a plain implementation,
   evaluated on a quiet machine with enough recursion budget, yields the plain value plus every wrapper's amount - each wrapper exactly
   once - and leaves registrations, values and every cycle flag as they were; for any number of wrappers *)
Theorem C01_every_wrapper_exactly_once : forall mro o c h ws p z a, NoDup ws -> forall st n,
  stack_state mro c h ws p z a st -> (forall w, In w ws -> flagged st w = false) -> length ws < n ->
  exists st', get_result mro sem_fixed n st o c h = (st', Val (VInt (a + zsum z ws)%Z)) /\ same st st'.
Proof. intros mro o c h ws p z a ND st n. apply stack_applies_every_wrapper_once. exact ND. Qed.
Print Assumptions C01_every_wrapper_exactly_once.

(* ... and from any flag state: exactly the wrappers that are not already running take part, once each *)
Theorem C01_wrapper_stack_from_any_flag_state : forall mro o c h ws p z a, NoDup ws -> forall m n st,
  stack_state mro c h ws p z a st -> length (unflagged ws st) = m -> m < n ->
  exists st', get_result mro sem_fixed n st o c h = (st', Val (VInt (a + zsum z (unflagged ws st))%Z)) /\ same st st'.
Proof. intros mro o c h ws p z a ND. apply stack_value. exact ND. Qed.
Print Assumptions C01_wrapper_stack_from_any_flag_state.

(* machine-checked record of the two defects repaired in /repo (fix: commits), on the pinned semantics:
   two cycle-guarded wrappers (+10, +1) over a plain 5 gave 5+1+1+10... the inner wrapper applied twice;
   a wrapper registered on the base class ignored the subclass's implementation. *)
Definition two_wrappers : list op :=
  [Register 0 {| i_owner := 0; i_hook := 0; i_tier := 1; i_wrapper := false; i_body := Plain (PConst (VInt 5)) |};
   Register 1 {| i_owner := 0; i_hook := 0; i_tier := 1; i_wrapper := true; i_body := Wrapper true (PoAdd 1) |};
   Register 2 {| i_owner := 0; i_hook := 0; i_tier := 1; i_wrapper := true; i_body := Wrapper true (PoAdd 10) |};
   NewObj 0 0; Read 0 0].
Definition mro1 (c : cls) : list cls := match c with 0 => [0] | 1 => [1; 0] | _ => [] end.

(* non-vacuity of the stack theorem: the state after registering +10 and +1 over a plain 5 is such a stack, quiet, and 5 + 10 + 1 = 16 *)
Example C01_wrapper_stack_nonvacuous :
  let st := fst (run mro1 sem_fixed 50 init (firstn 4 two_wrappers)) in
  stack_state mro1 0 0 [2; 1] 0 (fun w : iid => match w with 1%nat => 1%Z | 2%nat => 10%Z | _ => 0%Z end) 5%Z st /\
  (forall w, In w [2; 1] -> flagged st w = false) /\ (5 + zsum (fun w : iid => match w with 1%nat => 1 | 2%nat => 10 | _ => 0 end) [2%nat; 1%nat] = 16)%Z.
Proof.
  cbv zeta. split; [|split; [intros w [E|[E|[]]]; subst; reflexivity | reflexivity]].
  constructor.
  - vm_compute. reflexivity.
  - intros w [E|[E|[]]]; subst w; eexists; (split; [vm_compute; reflexivity | reflexivity]).
  - eexists. split; [vm_compute; reflexivity | reflexivity].
Qed.

Example C01_each_wrapper_once_repaired :
  nth 4 (snd (run mro1 sem_fixed 50 init two_wrappers)) ODone = OOut (Val (VInt 16)).
Proof. vm_compute. reflexivity. Qed.
Example C01_each_wrapper_once_pinned_refuted :
  nth 4 (snd (run mro1 sem_pinned 50 init two_wrappers)) ODone <> OOut (Val (VInt 16)).
Proof. vm_compute. discriminate. Qed.

Definition base_wrapper : list op :=
  [Register 0 {| i_owner := 0; i_hook := 0; i_tier := 1; i_wrapper := false; i_body := Plain (PConst (VInt 1)) |};
   Register 1 {| i_owner := 1; i_hook := 0; i_tier := 1; i_wrapper := false; i_body := Plain (PConst (VInt 2)) |};
   Register 2 {| i_owner := 0; i_hook := 0; i_tier := 1; i_wrapper := true; i_body := Wrapper true (PoAdd 10) |};
   NewObj 0 1; Read 0 0].
Example C01_base_wrapper_sees_subclass_repaired :
  nth 4 (snd (run mro1 sem_fixed 50 init base_wrapper)) ODone = OOut (Val (VInt 12)).
Proof. vm_compute. reflexivity. Qed.
Example C01_base_wrapper_pinned_refuted :
  nth 4 (snd (run mro1 sem_pinned 50 init base_wrapper)) ODone = OOut (Val (VInt 11)).
Proof. vm_compute. reflexivity. Qed.

Example C01_nonvacuous : ok_run mro1 50 init two_wrappers /\ ok_run mro1 50 init base_wrapper.
Proof. vm_compute. intuition lia. Qed.
