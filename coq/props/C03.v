(* C03 - Every groove handed out is a well-formed contour; unrealisable input is rejected.  ONLY statements.
   Gen_groove.v is regenerated from generic_elongation.py (T-D) and Gen_byname.v from the live pyroll.core.grooves
   namespace on every run.  `keep a b` stands for `not np.isclose(a, b)`; all that is used of it is that a junction is
   close to itself.  `wellformed` = documented parameter ranges + ordered junctions + no step at z4 (see Groove.v);
   whether the constructor rejects everything else is decided by this check's search over the implementation. *)
From PyrollLib Require Import Expr ExprFacts Groove GrooveFacts GrooveOrder ByName ByNameFacts.
From Run Require Import Gen_groove Gen_byname C10_proofs C03_proofs.
From Coq Require Import Lra.
Open Scope string_scope.
Open Scope R_scope.

(* strictly increasing in the width coordinate - for every sampling density and every outcome of the isclose guards *)
Theorem C03_strictly_increasing : forall keep rho n, wellformed rho -> hz1 rho < hz0 rho -> keep_ok keep rho ->
  sinc (map fst (full_contour (right_g keep rho n))).
Proof. exact contour_increasing. Qed.

(* hence single valued (and, being monotone in z, a simple polyline) *)
Theorem C03_single_valued : forall keep rho n, wellformed rho -> hz1 rho < hz0 rho -> keep_ok keep rho ->
  NoDup (map fst (full_contour (right_g keep rho n))).
Proof. exact contour_single_valued. Qed.

(* mirror symmetric about the groove centre - unconditionally *)
Theorem C03_mirror_symmetric : forall keep rho n,
  map mirror (rev (full_contour (right_g keep rho n))) = full_contour (right_g keep rho n).
Proof. exact contour_mirror. Qed.

(* meets the face at the usable width: flank and face line intersect in (usable_width / 2, 0), the r1 arc is tangent to both
   (C10_depth_continuous_at_junctions) *)
Theorem C03_face_meeting : forall rho, wellformed rho ->
  eval rho g_z2 = rho "usable_width" / 2 /\ eval rho g_y2 = 0 /\
  eval (upd rho "z" (eval rho g_z2)) f_flank_contour_line = 0 /\ eval (upd rho "z" (eval rho g_z2)) f_face_contour_line = 0.
Proof. exact face_meeting. Qed.

(* the centre vertex carries the requested depth (minus the indent) *)
Theorem C03_centre_vertex : forall rho, eval rho g_z9 = 0 /\ eval rho g_y9 = rho "depth" - rho "indent".
Proof. exact centre_vertex. Qed.

(* the vertices the model predicts are exactly those covered by C10_vertex_on_depth *)
Theorem C03_vertices_are_contour_vertices : forall keep rho n q, In q (right_g keep rho n) -> In q (right_points rho n contour_items).
Proof. exact right_g_subset. Qed.

(* by-name factory: any rendering of a name (separators anywhere, any letter case) resolves like the name itself, and every class
   of the namespace is found under its name with and without the "Groove" suffix *)
Theorem C03_byname_rendering : forall classes s r,
  rendering (list_ascii_of_string s) (list_ascii_of_string r) -> by_name classes r = by_name classes s.
Proof. exact by_name_rendering. Qed.

Theorem C03_byname_every_class : forall c, In c groove_classes -> named_groove c = true ->     (* all but the abstract GrooveBase *)
  by_name groove_classes c = Some c /\ by_name groove_classes (without_suffix c) = Some c.
Proof. apply finds_all_sound. vm_compute. reflexivity. Qed.

Example C03_nonvacuous : wellformed rho_v /\ hz1 rho_v < hz0 rho_v /\
  keep_ok (fun a b => if Req_EM_T (eval rho_v a) (eval rho_v b) then false else true) rho_v.
Proof.
  split; [exact rho_v_wellformed|]. split.
  - unfold hz0. assert (0 < rho_v "pad" * cos (rho_v "pad_angle")); [|lra].
    change (rho_v "pad") with 1. change (rho_v "pad_angle") with 0. rewrite cos_0. lra.
  - intros a b H. destruct (Req_EM_T (eval rho_v a) (eval rho_v b)); [discriminate | assumption].
Qed.

Print Assumptions C03_strictly_increasing.
Print Assumptions C03_single_valued.
Print Assumptions C03_mirror_symmetric.
Print Assumptions C03_face_meeting.
Print Assumptions C03_centre_vertex.
Print Assumptions C03_vertices_are_contour_vertices.
Print Assumptions C03_byname_rendering.
Print Assumptions C03_byname_every_class.
