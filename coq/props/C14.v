(* C14 - The workpiece is turned exactly once between consecutive roll passes.  ONLY statements.
   Decision model: PyrollLib.Rotation (tied by the correspondence run: every arrangement of <= 4 units and random
   longer ones against roll_pass.rotation of real unsolved sequences); rule table: regenerated from
   rotator/hookimpls.py (Gen_hookimpls.v); geometry: PyrollLib.Geo2D. *)
From PyrollLib Require Import ExprFacts Rotation RotationFacts Geo2D.
From Run Require Import Gen_hookimpls.
Open Scope string_scope.

Theorem C14_exactly_once : forall mid_rev p rest,
  no_pass mid_rev -> (count_rotators mid_rev <= 1)%nat ->
  (count_rotators mid_rev + turns_by_entry (rotation true true (mid_rev ++ UPass p :: rest) SUnset) = 1)%nat.
Proof. exact exactly_once. Qed.
Print Assumptions C14_exactly_once.

Theorem C14_rotator_present_pass_does_not_turn : forall mid_rev p rest,
  no_pass mid_rev -> (count_rotators mid_rev >= 1)%nat ->
  rotation true true (mid_rev ++ UPass p :: rest) SUnset = RFalse.
Proof. exact rotator_present_pass_does_not_turn. Qed.
Print Assumptions C14_rotator_present_pass_does_not_turn.

Theorem C14_explicit_settings_applied_exactly : forall auto inseq before,
  entry_rotator (rotation auto inseq before SFalse) = None /\
  entry_rotator (rotation auto inseq before SZero) = None /\
  entry_rotator (rotation auto inseq before STrue) = Some None /\
  (forall a, a <> 0%Z -> entry_rotator (rotation auto inseq before (SAngle a)) = Some (Some a)).
Proof. exact explicit_settings. Qed.
Print Assumptions C14_explicit_settings_applied_exactly.

(* the stated angle of an explicit rotator does not enter the decision: a rotator stated as 0 (or 180, -90, 360) is a rotator *)
Theorem C14_rotator_angle_irrelevant : forall auto l l', same_shape l l' = true -> rotations auto l = rotations auto l'.
Proof. exact rotator_angle_irrelevant. Qed.
Print Assumptions C14_rotator_angle_irrelevant.

Theorem C14_global_switch_off : forall inseq before, entry_rotator (rotation false inseq before SUnset) = None.
Proof. exact global_off. Qed.
Print Assumptions C14_global_switch_off.

(* the rule table of the automatic rotator always yields an angle, and only 0, 45, 90 or 180 degrees *)
Theorem C14_rule_table_total : forall rho g, exists v, resolve rho g chain_Rotator__rotation = CVal v.
Proof. exact (fun rho g => chain_total_sound rho g chain_Rotator__rotation eq_refl). Qed.
Print Assumptions C14_rule_table_total.

Theorem C14_rule_table_angles : forallb (body_is_int [0; 45; 90; 180]%Z) chain_Rotator__rotation = true.
Proof. vm_compute. reflexivity. Qed.
Print Assumptions C14_rule_table_angles.

(* a rotator's outgoing cross-section is the incoming one turned about the rolling axis: congruent, equal area
   and perimeter, successive rotations add up (polygon model; shapely.affinity.rotate is sampled against it) *)
Theorem C14_rotation_geometry : forall a b l,
  area (map (rot a) l) = area l /\ perimeter (map (rot a) l) = perimeter l /\
  map (rot a) (map (rot b) l) = map (rot (a + b)) l /\
  (forall p q, dist (rot a p) (rot a q) = dist p q).
Proof. exact (fun a b l => conj (area_rot a l) (conj (perimeter_rot a l) (conj (rot_compose a b l) (rot_dist a)))). Qed.
Print Assumptions C14_rotation_geometry.

Example C14_nonvacuous :
  rotations true [UPass SUnset; UTransport; URotator 90; UTransport; UPass SUnset; UOther; UPass SUnset; UPass (SAngle 45); UPass SFalse]
  = [RTrue; RFalse; RTrue; RNum 45; RFalse].
Proof. vm_compute. reflexivity. Qed.
