(* Proofs for C03 over the tables regenerated from generic_elongation.py (Gen_groove.v). *)
From PyrollLib Require Import Expr ExprFacts Groove GrooveFacts GrooveOrder.
From Run Require Import Gen_groove C10_proofs.
From Coq Require Import Lra Lia.
Open Scope string_scope.
Open Scope R_scope.

(* the sampling loop with its isclose guards: `keep a b` = not np.isclose(a, b) *)
Definition item_points_g (keep : expr -> expr -> bool) (rho : env) (n : nat) (it : citem) : list (R * R) :=
  match it with
  | CPoint z y None => [(eval rho z, eval rho y)]
  | CPoint z y (Some (a, b)) => if keep a b then [(eval rho z, eval rho y)] else []
  | CSeg a b f => if keep a b then seg_points rho a b f n else []
  end.
Definition right_g keep rho n : list (R * R) := flat_map (item_points_g keep rho n) contour_items.

(* all that is used of np.isclose: a value is close to itself *)
Definition keep_ok (keep : expr -> expr -> bool) (rho : env) : Prop := forall a b, keep a b = true -> eval rho a <> eval rho b.

Lemma right_g_subset keep rho n q : In q (right_g keep rho n) -> In q (right_points rho n contour_items).
Proof.
  unfold right_g, right_points. intro I. apply in_flat_map in I. destruct I as [it [Iit Iq]]. apply in_flat_map. exists it. split; [exact Iit|].
  destruct it as [z y [[a b]|]|a b f]; cbn [item_points_g item_points] in *; try exact Iq; destruct (keep a b); (exact Iq || destruct Iq).
Qed.

Lemma map_fst_if {A B} (c : bool) (l : list (A * B)) : map fst (if c then l else []) = if c then map fst l else [].
Proof. destruct c; reflexivity. Qed.

Lemma map_fst_seg rho a b f n : map fst (seg_points rho a b f n) = map (sample (eval rho a) (eval rho b) n) (seq 0 n).
Proof. unfold seg_points. rewrite map_map. reflexivity. Qed.

Lemma right_g_last keep rho n : exists init, right_g keep rho n = (init ++ [(eval rho g_z9, eval rho g_y9)])%list.
Proof.
  unfold right_g, contour_items. cbn [flat_map item_points_g]. rewrite app_nil_r.
  eexists. rewrite !app_assoc. reflexivity.
Qed.

Lemma right_g_decreasing keep rho n : wellformed rho -> hz1 rho < hz0 rho -> keep_ok keep rho ->
  sdec (map fst (right_g keep rho n)).
Proof.
  intros W P K.
  pose proof (wf_o97 rho W); pose proof (wf_o76 rho W); pose proof (wf_o65 rho W); pose proof (wf_o54 rho W);
  pose proof (wf_o43 rho W); pose proof (wf_o31 rho W).
  unfold right_g, contour_items. cbn [flat_map item_points_g]. rewrite !map_app, !map_fst_if, !map_fst_seg. cbn [map fst].
  change (eval rho g_z0) with (hz0 rho). change (eval rho g_z1) with (hz1 rho). change (eval rho g_z3) with (hz3 rho).
  change (eval rho g_z4) with (hz4 rho). change (eval rho g_z5) with (hz5 rho). change (eval rho g_z6) with (hz6 rho).
  change (eval rho g_z7) with (hz7 rho). change (eval rho g_z9) with 0.
  set (S1 := if keep g_z1 g_z3 then map (sample (hz1 rho) (hz3 rho) n) (seq 0 n) else []).
  set (P3 := if keep g_z3 g_z4 then [hz3 rho] else []).
  set (S2 := if keep g_z4 g_z5 then map (sample (hz4 rho) (hz5 rho) n) (seq 0 n) else []).
  set (S3 := if keep g_z5 g_z6 then map (sample (hz5 rho) (hz6 rho) n) (seq 0 n) else []).
  set (S4 := if keep g_z6 g_z7 then map (sample (hz6 rho) (hz7 rho) n) (seq 0 n) else []).
  set (P7 := if keep g_z7 g_z9 then [hz7 rho] else []).
  apply (blocks_sdec (hz0 rho)
           [(hz1 rho, hz0 rho, [hz0 rho]); (hz3 rho, hz1 rho, S1); (hz4 rho, hz3 rho, P3); (hz5 rho, hz4 rho, S2);
            (hz6 rho, hz5 rho, S3); (hz7 rho, hz6 rho, S4); (0, hz7 rho, P7); (-1, 0, [0])]).
  assert (SB : forall ja jb a b, eval rho ja = a -> eval rho jb = b -> b <= a ->
               let l := if keep ja jb then map (sample a b n) (seq 0 n) else [] in sdec l /\ all_in b a l).
  { intros ja jb a b Ea Eb Hab l. unfold l. destruct (keep ja jb) eqn:Q; [|split; [exact I | constructor]].
    specialize (K ja jb Q). rewrite Ea, Eb in K. apply samples_block. lra. }
  destruct (SB g_z1 g_z3 (hz1 rho) (hz3 rho) eq_refl eq_refl ltac:(lra)) as [A1 B1].
  destruct (SB g_z4 g_z5 (hz4 rho) (hz5 rho) eq_refl eq_refl ltac:(lra)) as [A2 B2].
  destruct (SB g_z5 g_z6 (hz5 rho) (hz6 rho) eq_refl eq_refl ltac:(lra)) as [A3 B3].
  destruct (SB g_z6 g_z7 (hz6 rho) (hz7 rho) eq_refl eq_refl ltac:(lra)) as [A4 B4].
  assert (P3ok : sdec P3 /\ all_in (hz4 rho) (hz3 rho) P3).
  { unfold P3. destruct (keep g_z3 g_z4) eqn:Q; [|split; [exact I | constructor]].
    specialize (K g_z3 g_z4 Q). change (eval rho g_z3) with (hz3 rho) in K. change (eval rho g_z4) with (hz4 rho) in K.
    split; [exact I|]. constructor; [lra | constructor]. }
  destruct P3ok as [A5 B5].
  assert (P7ok : sdec P7 /\ all_in 0 (hz7 rho) P7).
  { unfold P7. destruct (keep g_z7 g_z9) eqn:Q; [|split; [exact I | constructor]].
    specialize (K g_z7 g_z9 Q). change (eval rho g_z7) with (hz7 rho) in K. change (eval rho g_z9) with 0 in K.
    unfold hz9 in *. split; [exact I|]. constructor; [lra | constructor]. }
  destruct P7ok as [A6 B6].
  cbn [blocks_ok]. repeat split; try lra; try assumption; try exact I.
  - constructor; [lra | constructor].
  - constructor; [lra | constructor].
Qed.

Lemma contour_increasing keep rho n : wellformed rho -> hz1 rho < hz0 rho -> keep_ok keep rho ->
  sinc (map fst (full_contour (right_g keep rho n))).
Proof.
  intros W P K. pose proof (right_g_decreasing keep rho n W P K) as D.
  destruct (right_g_last keep rho n) as [init E]. rewrite E in *.
  apply full_contour_increasing; [exact D | reflexivity].
Qed.

Lemma contour_single_valued keep rho n : wellformed rho -> hz1 rho < hz0 rho -> keep_ok keep rho ->
  NoDup (map fst (full_contour (right_g keep rho n))).
Proof. intros. apply sinc_NoDup. apply contour_increasing; assumption. Qed.

Lemma contour_mirror keep rho n :
  map mirror (rev (full_contour (right_g keep rho n))) = full_contour (right_g keep rho n).
Proof. destruct (right_g_last keep rho n) as [init E]. rewrite E. apply contour_symmetric. Qed.

(* flank line and face line both pass through (usable_width / 2, 0): the contour meets the face at the usable width *)
Lemma face_meeting rho : wellformed rho ->
  eval rho g_z2 = rho "usable_width" / 2 /\ eval rho g_y2 = 0 /\
  eval (upd rho "z" (eval rho g_z2)) f_flank_contour_line = 0 /\ eval (upd rho "z" (eval rho g_z2)) f_face_contour_line = 0.
Proof.
  intro W. repeat split; try reflexivity.
  - apply (flank_at_z2 rho W).
  - apply (face_at_z2 rho W).
Qed.

Lemma centre_vertex rho : eval rho g_z9 = 0 /\ eval rho g_y9 = rho "depth" - rho "indent".
Proof. split; reflexivity. Qed.
