(* Facts about the roll surface and spline groove models of Surface.v *)
From PyrollLib Require Import Surface.
From Coq Require Import Lra Lia Field.

(* ================= real part ================= *)
Open Scope R_scope.

Lemma surf_highpoint Rmax y : y <= Rmax -> surf_y Rmax y 0 = y.
Proof.
  intro H. unfold surf_y. replace ((Rmax - y) ^ 2 - 0 ^ 2) with ((Rmax - y) ^ 2) by ring.
  rewrite sqrt_pow2 by lra. ring.
Qed.

Lemma surf_revolution Rmax y x : x ^ 2 <= (Rmax - y) ^ 2 -> (Rmax - surf_y Rmax y x) ^ 2 + x ^ 2 = (Rmax - y) ^ 2.
Proof.
  intro H. unfold surf_y. replace (Rmax - (Rmax - sqrt ((Rmax - y) ^ 2 - x ^ 2))) with (sqrt ((Rmax - y) ^ 2 - x ^ 2)) by ring.
  rewrite pow2_sqrt by lra. ring.
Qed.

Lemma surf_even Rmax y x : surf_y Rmax y (- x) = surf_y Rmax y x.
Proof. unfold surf_y. replace ((- x) ^ 2) with (x ^ 2) by ring. reflexivity. Qed.

(* deeper into the contour (larger y) the surface lies higher at every x: the grid preserves the contour's order *)
Lemma surf_below_axis Rmax y x : x ^ 2 <= (Rmax - y) ^ 2 -> surf_y Rmax y x <= Rmax.
Proof. intro H. unfold surf_y. pose proof (sqrt_pos ((Rmax - y) ^ 2 - x ^ 2)). lra. Qed.

Lemma xgrid_antisymmetric rmin t : map Ropp (rev (xgrid rmin (0 :: t))) = xgrid rmin (0 :: t).
Proof.
  unfold xgrid. cbn [rev tl]. set (g := fun p => rmin * sin p).
  assert (G : forall l, map Ropp (map g l) = map g (map Ropp l)).
  { induction l as [|a l IH]; cbn [map]; [reflexivity|]. rewrite IH. f_equal. unfold g. rewrite sin_neg. ring. }
  rewrite <- map_rev, G. f_equal.
  rewrite rev_app_distr, map_app, <- map_rev, rev_app_distr, rev_involutive. cbn [rev app].
  rewrite map_map. rewrite (map_ext (fun x => - - x) (fun x => x)) by (intro; apply Ropp_involutive). rewrite map_id.
  rewrite map_app. cbn [map]. rewrite Ropp_0, <- app_assoc. reflexivity.
Qed.

Section Bilin.
  Variables x0 x1 z0 z1 v00 v01 v10 v11 : R.
  Hypothesis Hx : x0 <> x1.
  Hypothesis Hz : z0 <> z1.

  Lemma bilin_00 : bilin x0 x1 z0 z1 v00 v01 v10 v11 x0 z0 = v00.
  Proof. unfold bilin. field. split; lra. Qed.
  Lemma bilin_01 : bilin x0 x1 z0 z1 v00 v01 v10 v11 x0 z1 = v01.
  Proof. unfold bilin. field. split; lra. Qed.
  Lemma bilin_10 : bilin x0 x1 z0 z1 v00 v01 v10 v11 x1 z0 = v10.
  Proof. unfold bilin. field. split; lra. Qed.
  Lemma bilin_11 : bilin x0 x1 z0 z1 v00 v01 v10 v11 x1 z1 = v11.
  Proof. unfold bilin. field. split; lra. Qed.

  (* mirrored cell with mirrored corner values: same value at the mirrored point (rolling direction) *)
  Lemma bilin_mirror_x x z : bilin (- x1) (- x0) z0 z1 v10 v11 v00 v01 (- x) z = bilin x0 x1 z0 z1 v00 v01 v10 v11 x z.
  Proof. unfold bilin. field. repeat split; lra. Qed.
  Lemma bilin_mirror_z x z : bilin x0 x1 (- z1) (- z0) v01 v00 v11 v10 x (- z) = bilin x0 x1 z0 z1 v00 v01 v10 v11 x z.
  Proof. unfold bilin. field. repeat split; lra. Qed.
  (* on a cell edge only the two corner values of that edge matter: neighbouring cells agree there (continuity) *)
  Lemma bilin_edge_x0 z : bilin x0 x1 z0 z1 v00 v01 v10 v11 x0 z = v00 + (v01 - v00) * ((z - z0) / (z1 - z0)).
  Proof. unfold bilin. field. split; lra. Qed.
End Bilin.

