(* Running a method's effects in source order gives what UnitTree.update gives, for every admissible order; adopting before
   releasing does not (refutation witness). *)
From PyrollLib Require Import UnitTree UnitFacts UnitEffects.
From Coq Require Import String.

Lemma set_kids_set_par s q l u p : set_kids (set_par s u p) q l = set_par (set_kids s q l) u p.
Proof. reflexivity. Qed.

Lemma set_kids_detach D : forall s q l, set_kids (detach s D) q l = detach (set_kids s q l) D.
Proof.
  induction D as [|u D IH]; intros s q l; [reflexivity|].
  unfold detach in *. cbn [fold_left]. rewrite IH. rewrite set_kids_set_par. reflexivity.
Qed.
Lemma set_kids_attach A : forall s o q l, set_kids (attach s o A) q l = attach (set_kids s q l) o A.
Proof.
  induction A as [|u A IH]; intros s o q l; [reflexivity|].
  unfold attach in *. cbn [fold_left]. rewrite IH. rewrite set_kids_set_par. reflexivity.
Qed.

Lemma effs_eqb_eq a : forall b, effs_eqb a b = true -> a = b.
Proof.
  induction a as [|x r IH]; intros [|y t]; cbn [effs_eqb]; intros H; try discriminate; [reflexivity|].
  apply andb_prop in H. destruct H as [H1 H2]. rewrite (IH t H2).
  destruct x, y; cbn in H1; try discriminate; reflexivity.
Qed.

Theorem effects_as_update (effs : list effect) (s : st) (q : uid) (l' D A : list uid) :
  effects_ok effs = true ->
  apply_effects effs s q l' D A
  = update s q l' (if has EDetach effs then D else []) (if has EAttach effs then A else []).
Proof.
  unfold effects_ok. intros H. apply existsb_exists in H. destruct H as [x [Hin Heq]].
  apply effs_eqb_eq in Heq. subst x.
  cbn [ok_orders In] in Hin.
  repeat (destruct Hin as [Hin|Hin]; [subst effs|]); try contradiction;
    unfold apply_effects, update; cbn [fold_left apply_effect has existsb effect_eqb orb];
    repeat (rewrite set_kids_detach || rewrite set_kids_attach); reflexivity.
Qed.

(* a regenerated method table that passes the check: every method behaves as the model's update with the model's flags *)
Theorem methods_as_modelled (gen : list (string * list effect)) :
  methods_ok gen = true ->
  forall name effs, In (name, effs) gen ->
  exists d a, flags_of name model_flags = Some (d, a) /\
    forall s q l' D A, apply_effects effs s q l' D A = update s q l' (if d then D else []) (if a then A else []).
Proof.
  unfold methods_ok. intros H name effs Hin. apply andb_prop in H. destruct H as [H _].
  rewrite forallb_forall in H. specialize (H _ Hin). unfold method_ok in H. cbn [fst snd] in H.
  destruct (flags_of name model_flags) as [[d a]|]; [|discriminate].
  apply andb_prop in H. destruct H as [H Ha]. apply andb_prop in H. destruct H as [Hok Hd].
  exists d, a. split; [reflexivity|]. intros s q l' D A.
  rewrite (effects_as_update effs s q l' D A Hok).
  apply Bool.eqb_prop in Hd. apply Bool.eqb_prop in Ha. rewrite Hd, Ha. reflexivity.
Qed.

(* adopt-then-release is NOT the model: a unit that stays listed across a slice assignment ends up without parent, and the
   consistency invariant is lost *)
Definition overlap_state : st := fst (run init [NewUnit 1 KPass 1; NewUnit 2 KTransport 2; Construct 10 [1; 2] 10]).
Lemma adopt_before_release_refuted :
  let s' := apply_effects [EAttach; EList; EDetach] overlap_state 10 [1] [1; 2] [1] in
  Inv overlap_state /\ In 1 (kids_of s' 10) /\ par_of s' 1 = None /\
  par_of (update overlap_state 10 [1] [1; 2] [1]) 1 = Some 10.
Proof.
  split; [apply (run_inv [NewUnit 1 KPass 1; NewUnit 2 KTransport 2; Construct 10 [1; 2] 10] init inv_init)|].
  - vm_compute. repeat match goal with |- _ /\ _ => split end; try reflexivity; try exact I;
      try (repeat constructor; cbn; intuition discriminate).
  - vm_compute. split; [left; reflexivity|]. split; reflexivity.
Qed.
