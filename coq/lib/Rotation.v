(* Model of the entry-rotation decision of roll passes (C14):
   BaseRollPass.rotation = first non-None of (detect_already_rotated, auto_rotation), the walk over
   Unit.prev, the truthiness test in rotator_factory.  Flat sequences only.  No proofs here. *)
From Coq Require Export List ZArith Bool Arith.
Export ListNotations.

(* explicit value of roll_pass.rotation given by the user *)
Inductive setting : Type := SUnset | STrue | SFalse | SZero | SAngle (a : Z).   (* SAngle a with a <> 0 *)

Inductive unit : Type := UPass (s : setting) | UTransport | URotator (a : Z) | UOther.

(* value of the hook roll_pass.rotation *)
Inductive rot : Type := RTrue | RFalse | RNum (a : Z).

(* detect_already_rotated: walk self.prev, self.prev.prev, ... (units before the pass, nearest first) *)
Fixpoint detect (before_rev : list unit) : bool :=
  match before_rev with
  | [] => true                           (* IndexError: first unit *)
  | UPass _ :: _ => true
  | URotator _ :: _ => false
  | _ :: r => detect r
  end.

Definition rotation (auto in_sequence : bool) (before_rev : list unit) (s : setting) : rot :=
  match s with
  | STrue => RTrue | SFalse => RFalse | SZero => RNum 0 | SAngle a => RNum a
  | SUnset =>
      if (auto && in_sequence)%bool then (if detect before_rev then RTrue else RFalse)
      else (if auto then RTrue else RFalse)     (* auto_rotation: the global switch *)
  end.

(* rotator_factory: `if roll_pass.rotation:`;  Some None = rule-based angle, Some (Some a) = exactly a *)
Definition entry_rotator (r : rot) : option (option Z) :=
  match r with
  | RTrue => Some None
  | RFalse => None
  | RNum a => if Z.eqb a 0 then None else Some (Some a)
  end.

(* rotation hook of every pass of a flat sequence, in order *)
Fixpoint rotations_from (auto : bool) (before_rev : list unit) (l : list unit) : list rot :=
  match l with
  | [] => []
  | UPass s :: r => rotation auto true before_rev s :: rotations_from auto (UPass s :: before_rev) r
  | u :: r => rotations_from auto (u :: before_rev) r
  end.
Definition rotations (auto : bool) (l : list unit) : list rot := rotations_from auto [] l.

(* comparison with the implementation *)
Definition rot_eqb (a b : rot) : bool :=
  match a, b with RTrue, RTrue | RFalse, RFalse => true | RNum x, RNum y => Z.eqb x y | _, _ => false end.
Fixpoint rots_eqb (a b : list rot) : bool :=
  match a, b with [], [] => true | x :: r, y :: s => (rot_eqb x y && rots_eqb r s)%bool | _, _ => false end.
Fixpoint rmismatches (cases : list (bool * list unit * list rot)) (i : nat) : list nat :=
  match cases with
  | [] => []
  | (au, l, e) :: r => let rest := rmismatches r (S i) in if rots_eqb (rotations au l) e then rest else i :: rest
  end.
