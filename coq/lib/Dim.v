(* Verified dimensional analysis of Expr terms (C11): [dim G e] computes the exponent of length of e when every
   variable p has exponent G p; [dim_sound]: scaling every variable by k^(G p) scales the value by k^(dim).
   Homogeneity of a regenerated formula is then decided by vm_compute of [dim]. *)
From PyrollLib Require Import Expr.
From Coq Require Import QArith Qreals Rpower Lra Ascii.
Open Scope R_scope.

(* DAny: the value is identically zero (the literal 0), compatible with every dimension *)
Inductive dimv : Type := DAny | DQ (q : Q).

Definition unify (a b : dimv) : option dimv :=
  match a, b with
  | DAny, x | x, DAny => Some x
  | DQ x, DQ y => if Qeq_bool x y then Some (DQ x) else None
  end.
Definition need0 (a : dimv) : option dimv :=
  match a with DAny => Some (DQ 0) | DQ x => if Qeq_bool x 0 then Some (DQ 0) else None end.

Definition denv := string -> option Q.

Fixpoint dim (G : denv) (e : expr) : option dimv :=
  match e with
  | Var p => match G p with Some q => Some (DQ q) | None => None end
  | CstZ z => if Z.eqb z 0 then Some DAny else Some (DQ 0)
  | CstQ _ _ | CPi => Some (DQ 0)
  | Add a b | Sub a b | Min a b | Max a b =>
      match dim G a, dim G b with Some x, Some y => unify x y | _, _ => None end
  | Mul a b =>
      match dim G a, dim G b with
      | Some DAny, Some _ | Some _, Some DAny => Some DAny
      | Some (DQ x), Some (DQ y) => Some (DQ (x + y))
      | _, _ => None end
  | Div a b =>
      match dim G a, dim G b with
      | Some DAny, Some (DQ _) => Some DAny
      | Some (DQ x), Some (DQ y) => Some (DQ (x - y))
      | _, _ => None end
  | Neg a | Abs a => dim G a
  | Sqrt a => match dim G a with Some DAny => Some DAny | Some (DQ x) => Some (DQ (x * (1 # 2))) | None => None end
  | PowN a n => match dim G a with
                | Some DAny => match n with O => Some (DQ 0) | _ => Some DAny end
                | Some (DQ x) => Some (DQ (x * inject_Z (Z.of_nat n))) | None => None end
  | Sin a | Cos a | Tan a | Asin a | Acos a | Atan a | Ln a | Log2 a | Exp a =>
      match dim G a with Some x => need0 x | None => None end
  end.

Definition scale (k : R) (G : denv) (rho : env) : env :=
  fun p => match G p with Some q => Rpower k (Q2R q) * rho p | None => rho p end.

Definition sound_at (k : R) (G : denv) (rho : env) (e : expr) (d : dimv) : Prop :=
  match d with
  | DAny => eval rho e = 0 /\ eval (scale k G rho) e = 0
  | DQ q => eval (scale k G rho) e = Rpower k (Q2R q) * eval rho e
  end.

Lemma Rpower_0' k : 0 < k -> Rpower k (Q2R 0) = 1.
Proof. intro H. replace (Q2R 0) with 0 by (unfold Q2R; cbn; lra). apply Rpower_O. assumption. Qed.

Lemma Qeq_bool_R x y : Qeq_bool x y = true -> Q2R x = Q2R y.
Proof. intro H. apply Qeq_eqR. apply Qeq_bool_eq. assumption. Qed.

Lemma unify_sound k G rho a b x y d (f : R -> R -> R) :
  0 < k -> unify x y = Some d ->
  (forall c u v, 0 < c -> f (c * u) (c * v) = c * f u v) -> f 0 0 = 0 ->
  (forall u, f u 0 = f u 0) ->
  sound_at k G rho a x -> sound_at k G rho b y ->
  match d with
  | DAny => f (eval rho a) (eval rho b) = 0 /\ f (eval (scale k G rho) a) (eval (scale k G rho) b) = 0
  | DQ q => f (eval (scale k G rho) a) (eval (scale k G rho) b) = Rpower k (Q2R q) * f (eval rho a) (eval rho b)
  end.
Proof.
  intros Hk U Hom Z0 _ Sa Sb.
  assert (P : forall q, 0 < Rpower k (Q2R q)) by (intro q; unfold Rpower; apply exp_pos).
  destruct x as [|x], y as [|y]; cbn in U.
  - inversion U; subst. destruct Sa as [A1 A2], Sb as [B1 B2]. rewrite A1, A2, B1, B2. split; exact Z0.
  - inversion U; subst. destruct Sa as [A1 A2]. cbn in Sb. rewrite A1, A2, Sb.
    replace 0 with (Rpower k (Q2R y) * 0) at 1 by ring. apply Hom. apply P.
  - inversion U; subst. destruct Sb as [B1 B2]. cbn in Sa. rewrite B1, B2, Sa.
    replace 0 with (Rpower k (Q2R x) * 0) at 1 by ring. apply Hom. apply P.
  - destruct (Qeq_bool x y) eqn:E; [|discriminate]. inversion U; subst. cbn in Sa, Sb. rewrite Sa, Sb.
    rewrite <- (Qeq_bool_R x y E). apply Hom. apply P.
Qed.

Lemma need0_sound k G rho a x d (f : R -> R) :
  0 < k -> need0 x = Some d -> sound_at k G rho a x ->
  d = DQ 0 /\ f (eval (scale k G rho) a) = f (eval rho a).
Proof.
  intros Hk N S. destruct x as [|x]; cbn in N.
  - inversion N. split; [reflexivity|]. destruct S as [A1 A2]. rewrite A1, A2. reflexivity.
  - destruct (Qeq_bool x 0) eqn:E; [|discriminate]. inversion N. split; [reflexivity|]. cbn in S. rewrite S.
    rewrite (Qeq_bool_R x 0 E), Rpower_0' by assumption. f_equal. ring.
Qed.

Theorem dim_sound k G rho : 0 < k -> forall e dv, dim G e = Some dv -> sound_at k G rho e dv.
Proof.
  intro Hk.
  assert (P : forall q, 0 < Rpower k (Q2R q)) by (intro q; unfold Rpower; apply exp_pos).
  induction e; intros dv H; cbn [dim] in H.
  - (* Var *) destruct (G p) as [q|] eqn:E; [|discriminate]. inversion H; subst. cbn. unfold scale. rewrite E. reflexivity.
  - (* CstZ *) destruct (Z.eqb_spec z 0); inversion H; subst; cbn.
    + split; reflexivity.
    + rewrite Rpower_0' by assumption. ring.
  - inversion H; subst. cbn. rewrite Rpower_0' by assumption. ring.
  - inversion H; subst. cbn. rewrite Rpower_0' by assumption. ring.
  - (* Add *) destruct (dim G e1) as [x|] eqn:E1; [|discriminate]. destruct (dim G e2) as [y|] eqn:E2; [|discriminate].
    unfold sound_at; cbn [eval]. apply (unify_sound k G rho e1 e2 x y dv Rplus Hk H); [intros; ring | ring | reflexivity | apply IHe1; reflexivity | apply IHe2; reflexivity].
  - (* Sub *) destruct (dim G e1) as [x|] eqn:E1; [|discriminate]. destruct (dim G e2) as [y|] eqn:E2; [|discriminate].
    unfold sound_at; cbn [eval]. apply (unify_sound k G rho e1 e2 x y dv Rminus Hk H); [intros; ring | ring | reflexivity | apply IHe1; reflexivity | apply IHe2; reflexivity].
  - (* Mul *) destruct (dim G e1) as [x|] eqn:E1; [|discriminate]. destruct (dim G e2) as [y|] eqn:E2; [|destruct x; discriminate].
    specialize (IHe1 x eq_refl). specialize (IHe2 y eq_refl).
    destruct x as [|x], y as [|y]; inversion H; subst; cbn [sound_at eval] in *.
    + destruct IHe1 as [A1 A2]. rewrite A1, A2. split; ring.
    + destruct IHe1 as [A1 A2]. rewrite A1, A2. split; ring.
    + destruct IHe2 as [B1 B2]. rewrite B1, B2. split; ring.
    + rewrite IHe1, IHe2, Q2R_plus, Rpower_plus. ring.
  - (* Div *) destruct (dim G e1) as [x|] eqn:E1; [|discriminate]. destruct (dim G e2) as [y|] eqn:E2; [|destruct x; discriminate].
    specialize (IHe1 x eq_refl). specialize (IHe2 y eq_refl).
    destruct x as [|x], y as [|y]; inversion H; subst; cbn [sound_at eval] in *.
    + destruct IHe1 as [A1 A2]. rewrite A1, A2. unfold Rdiv. split; ring.
    + rewrite IHe1, IHe2, Q2R_minus. unfold Rminus. rewrite Rpower_plus, Rpower_Ropp. unfold Rdiv. rewrite Rinv_mult. ring.
  - (* Neg *) specialize (IHe dv H). destruct dv; cbn [sound_at eval] in *.
    + destruct IHe as [A1 A2]. rewrite A1, A2. split; ring.
    + rewrite IHe. ring.
  - (* Sqrt *) destruct (dim G e) as [x|] eqn:E; [|discriminate]. specialize (IHe x eq_refl).
    destruct x as [|x]; inversion H; subst; cbn [sound_at eval] in *.
    + destruct IHe as [A1 A2]. rewrite A1, A2, sqrt_0. split; reflexivity.
    + rewrite IHe. rewrite sqrt_mult_alt by (apply Rlt_le, P). f_equal.
      rewrite Q2R_mult. replace (Q2R (1 # 2)) with (/ 2) by (unfold Q2R; cbn; lra).
      rewrite <- Rpower_sqrt by apply P. rewrite Rpower_mult. reflexivity.
  - (* Abs *) specialize (IHe dv H). destruct dv; cbn [sound_at eval] in *.
    + destruct IHe as [A1 A2]. rewrite A1, A2, Rabs_R0. split; reflexivity.
    + rewrite IHe, Rabs_mult. f_equal. apply Rabs_pos_eq. apply Rlt_le, P.
  - (* PowN *) destruct (dim G e) as [x|] eqn:E; [|discriminate]. specialize (IHe x eq_refl).
    destruct x as [|x].
    + destruct n as [|n]; inversion H; subst; cbn [sound_at eval] in *.
      * rewrite Rpower_0' by assumption. cbn. ring.
      * destruct IHe as [A1 A2]. rewrite A1, A2. cbn. split; ring.
    + inversion H; subst. cbn [sound_at eval] in *. rewrite IHe, Rpow_mult_distr. f_equal.
      rewrite Q2R_mult, <- Rpower_mult. unfold inject_Z, Q2R. cbn [Qnum Qden].
      replace (IZR (Z.of_nat n) * / IZR (Z.pos 1)) with (INR n) by (rewrite INR_IZR_INZ; cbn; field).
      symmetry. apply Rpower_pow. apply P.
  - (* Sin *) destruct (dim G e) as [x|] eqn:E; [|discriminate]. destruct (need0_sound k G rho e x dv sin Hk H (IHe x eq_refl)) as [D F].
    subst dv. cbn. rewrite F, Rpower_0' by assumption. ring.
  - destruct (dim G e) as [x|] eqn:E; [|discriminate]. destruct (need0_sound k G rho e x dv cos Hk H (IHe x eq_refl)) as [D F].
    subst dv. cbn. rewrite F, Rpower_0' by assumption. ring.
  - destruct (dim G e) as [x|] eqn:E; [|discriminate]. destruct (need0_sound k G rho e x dv tan Hk H (IHe x eq_refl)) as [D F].
    subst dv. cbn. rewrite F, Rpower_0' by assumption. ring.
  - destruct (dim G e) as [x|] eqn:E; [|discriminate]. destruct (need0_sound k G rho e x dv asin Hk H (IHe x eq_refl)) as [D F].
    subst dv. cbn. rewrite F, Rpower_0' by assumption. ring.
  - destruct (dim G e) as [x|] eqn:E; [|discriminate]. destruct (need0_sound k G rho e x dv acos Hk H (IHe x eq_refl)) as [D F].
    subst dv. cbn. rewrite F, Rpower_0' by assumption. ring.
  - destruct (dim G e) as [x|] eqn:E; [|discriminate]. destruct (need0_sound k G rho e x dv atan Hk H (IHe x eq_refl)) as [D F].
    subst dv. cbn. rewrite F, Rpower_0' by assumption. ring.
  - destruct (dim G e) as [x|] eqn:E; [|discriminate]. destruct (need0_sound k G rho e x dv ln Hk H (IHe x eq_refl)) as [D F].
    subst dv. cbn. rewrite F, Rpower_0' by assumption. ring.
  - destruct (dim G e) as [x|] eqn:E; [|discriminate]. destruct (need0_sound k G rho e x dv (fun u => ln u / ln 2) Hk H (IHe x eq_refl)) as [D F].
    subst dv. cbn. rewrite F, Rpower_0' by assumption. ring.
  - destruct (dim G e) as [x|] eqn:E; [|discriminate]. destruct (need0_sound k G rho e x dv exp Hk H (IHe x eq_refl)) as [D F].
    subst dv. cbn. rewrite F, Rpower_0' by assumption. ring.
  - (* Min *) destruct (dim G e1) as [x|] eqn:E1; [|discriminate]. destruct (dim G e2) as [y|] eqn:E2; [|discriminate].
    unfold sound_at; cbn [eval]. apply (unify_sound k G rho e1 e2 x y dv Rmin Hk H); [| | reflexivity | apply IHe1; reflexivity | apply IHe2; reflexivity].
    + intros c u v Hc. unfold Rmin. destruct (Rle_dec (c * u) (c * v)) as [A|A], (Rle_dec u v) as [B|B]; try reflexivity; exfalso.
      * apply B. apply Rmult_le_reg_l with c; assumption.
      * apply A. apply Rmult_le_compat_l; lra.
    + unfold Rmin. destruct (Rle_dec 0 0); reflexivity.
  - (* Max *) destruct (dim G e1) as [x|] eqn:E1; [|discriminate]. destruct (dim G e2) as [y|] eqn:E2; [|discriminate].
    unfold sound_at; cbn [eval]. apply (unify_sound k G rho e1 e2 x y dv Rmax Hk H); [| | reflexivity | apply IHe1; reflexivity | apply IHe2; reflexivity].
    + intros c u v Hc. apply RmaxRmult. lra.
    + unfold Rmax. destruct (Rle_dec 0 0); reflexivity.
Qed.

(* ---- dimension environments from a table keyed by the last path component ---- *)
Open Scope string_scope.
(* "in_profile.cross_section.bounds[3]" -> "bounds";  "contact_lines.geoms[1].width" -> "width" *)
Fixpoint last_seg (s : string) (cur : string) (skip : bool) : string :=
  match s with
  | EmptyString => cur
  | String c r =>
      if skip then last_seg r cur (negb (Ascii.eqb c "]"%char))
      else if Ascii.eqb c "."%char then last_seg r "" false
      else if Ascii.eqb c "["%char then last_seg r cur true
      else last_seg r (cur ++ String c "") false
  end.
Fixpoint tlookup (t : list (string * Q)) (n : string) : option Q :=
  match t with [] => None | (k, v) :: r => if String.eqb k n then Some v else tlookup r n end.
Definition denv_of (t : list (string * Q)) : denv := fun p => tlookup t (last_seg p "" false).

Definition compat (d : dimv) (q : Q) : bool := match d with DAny => true | DQ x => Qeq_bool x q end.

(* an implementation is homogeneous of the dimension of its hook (opaque bodies are not judged) *)
Definition impl_ok (t : list (string * Q)) (i : impl) : bool :=
  match i_body i with
  | None => true
  | Some e => match dim (denv_of t) e, tlookup t (i_hook i) with
              | Some d, Some q => compat d q
              | _, _ => false
              end
  end.

Theorem impl_ok_sound t i e q k rho :
  0 < k -> impl_ok t i = true -> i_body i = Some e -> tlookup t (i_hook i) = Some q ->
  eval (scale k (denv_of t) rho) e = Rpower k (Q2R q) * eval rho e.
Proof.
  intros Hk OK B T. unfold impl_ok in OK. rewrite B, T in OK.
  destruct (dim (denv_of t) e) as [d|] eqn:D; [|discriminate].
  pose proof (dim_sound k (denv_of t) rho Hk e d D) as S. destruct d as [|x]; cbn in OK, S.
  - destruct S as [A1 A2]. rewrite A1, A2. ring.
  - rewrite S. rewrite (Qeq_bool_R x q OK). reflexivity.
Qed.

Lemma forallb_impl_ok t (exc : impl -> bool) l :
  forallb (fun i => (exc i || impl_ok t i)%bool) l = true ->
  forall i, In i l -> exc i = false -> impl_ok t i = true.
Proof.
  intros H i I X. rewrite forallb_forall in H. specialize (H i I). rewrite X in H. exact H.
Qed.

Lemma close_scale_free k p o c : 0 < k ->
  (Rabs (k * c - k * o) <= Rabs (k * o) * p <-> Rabs (c - o) <= Rabs o * p).
Proof.
  intro Hk. replace (k * c - k * o) with (k * (c - o)) by ring.
  rewrite !Rabs_mult, (Rabs_pos_eq k) by lra. rewrite Rmult_assoc. split; intro H.
  - apply Rmult_le_reg_l with k; assumption.
  - apply Rmult_le_compat_l; lra.
Qed.
