(* Clipping a polygon (vertex list, closed implicitly) against a vertical strip: Sutherland-Hodgman, over Q.
   Model of what clip_by_rect(poly, -w/2, -inf, w/2, inf) does to the polygon of a pass opening
   (pyroll/core/roll_pass/hookimpls/helpers.py, pyroll/core/profile/profile.py); tied to shapely by the correspondence
   run of C08 (bounds and area).  No proofs here. *)
From Coq Require Export QArith Qabs Qminmax List Bool.
Export ListNotations.
Open Scope Q_scope.

Definition qpt : Type := (Q * Q)%type.

(* intersection of the segment p q with the vertical line x = c (only used when p and q lie on different sides) *)
Definition cross_x (c : Q) (p q : qpt) : qpt := (c, snd p + (c - fst p) * ((snd q - snd p) / (fst q - fst p))).

(* keep the side where `inside` holds: one Sutherland-Hodgman pass over the cyclic edge list *)
Definition sh_edge (inside : qpt -> bool) (c : Q) (p q : qpt) : list qpt :=
  if inside q then (if inside p then [] else [cross_x c p q]) ++ [q]
  else (if inside p then [cross_x c p q] else []).

Fixpoint sh_walk (inside : qpt -> bool) (c : Q) (prev : qpt) (l : list qpt) : list qpt :=
  match l with
  | [] => []
  | q :: rest => sh_edge inside c prev q ++ sh_walk inside c q rest
  end.

Definition sh_clip (inside : qpt -> bool) (c : Q) (l : list qpt) : list qpt :=
  match l with [] => [] | p0 :: _ => sh_walk inside c (last l p0) l end.

Definition le_side (c : Q) (p : qpt) : bool := Qle_bool (fst p) c.       (* x <= c *)
Definition ge_side (c : Q) (p : qpt) : bool := Qle_bool c (fst p).       (* x >= c *)

Definition clip_le (c : Q) (l : list qpt) : list qpt := sh_clip (le_side c) c l.
Definition clip_ge (c : Q) (l : list qpt) : list qpt := sh_clip (ge_side c) c l.

(* clip_by_rect(poly, -w/2, -inf, w/2, inf) *)
Definition clip_strip (w : Q) (l : list qpt) : list qpt := clip_ge (- (w / 2)) (clip_le (w / 2) l).

Definition xs (l : list qpt) : list Q := map fst l.
Definition ys (l : list qpt) : list Q := map snd l.
Definition qmin_l (d : Q) (l : list Q) : Q := fold_left Qmin l d.
Definition qmax_l (d : Q) (l : list Q) : Q := fold_left Qmax l d.
Definition min_of (l : list Q) : Q := match l with [] => 0 | a :: t => qmin_l a t end.
Definition max_of (l : list Q) : Q := match l with [] => 0 | a :: t => qmax_l a t end.
Definition width_of (l : list qpt) : Q := max_of (xs l) - min_of (xs l).

(* shoelace area *)
Fixpoint shoe (prev : qpt) (l : list qpt) : Q :=
  match l with [] => 0 | q :: rest => (fst prev * snd q - fst q * snd prev) + shoe q rest end.
Definition area2 (l : list qpt) : Q := match l with [] => 0 | p0 :: _ => shoe (last l p0) l end.     (* twice the signed area *)

(* correspondence: polygon, width -> bounds and area of the implementation's result *)
Record clip_case := { cc_poly : list qpt; cc_w : Q; cc_empty : bool; cc_minx : Q; cc_maxx : Q; cc_miny : Q; cc_maxy : Q; cc_area : Q }.
Definition near (a b : Q) : bool := Qle_bool (Qabs (a - b)) (1 # 1000000000).
Definition clip_agrees (c : clip_case) : bool :=
  let r := clip_strip (cc_w c) (cc_poly c) in
  match r with
  | [] => cc_empty c
  | _ => if Qeq_bool (area2 r) 0 then cc_empty c else      (* a degenerate remainder (the polygon only touches the strip) is no polygon *)
         negb (cc_empty c) && near (min_of (xs r)) (cc_minx c) && near (max_of (xs r)) (cc_maxx c) &&
         near (min_of (ys r)) (cc_miny c) && near (max_of (ys r)) (cc_maxy c) && near (Qabs (area2 r) / 2) (cc_area c)
  end.
Fixpoint clip_mismatches (cs : list clip_case) (i : nat) : list nat :=
  match cs with [] => [] | c :: rest => (if clip_agrees c then [] else [i]) ++ clip_mismatches rest (S i) end.
