(* Shallow copies of hook hosts (HookHost.__copy__): the copy takes over the explicit and the remembered values
   of its source and is an instance of its own from then on. *)
From Coq Require Import List Arith Bool Lia.
From PyrollLib Require Import HookMachine.
Import ListNotations.

Section Copy.
Variable V : Type.

Definition own (src : obj) (kv : key2 * V) : bool := Nat.eqb (fst (fst kv)) src.
Definition moved (ob src : obj) (l : list (key2 * V)) : list (key2 * V) :=
  map (fun kv => ((ob, snd (fst kv)), snd kv)) (filter (own src) l).

Lemma key2_eqb_spec a b : key2_eqb a b = true <-> a = b.
Proof.
  destruct a as [a1 a2], b as [b1 b2]. unfold key2_eqb. cbn [fst snd].
  rewrite andb_true_iff, !Nat.eqb_eq. split; [intros [-> ->]; reflexivity | intro E; inversion E; auto].
Qed.

Lemma key2_eqb_false a b : a <> b -> key2_eqb a b = false.
Proof. intro N. destruct (key2_eqb a b) eqn:E; [apply key2_eqb_spec in E; contradiction | reflexivity]. Qed.

Lemma alookup_app (l1 l2 : list (key2 * V)) k :
  alookup key2_eqb (l1 ++ l2) k = match alookup key2_eqb l1 k with Some v => Some v | None => alookup key2_eqb l2 k end.
Proof.
  induction l1 as [|[k' v] r IH]; cbn [app alookup]; [reflexivity|].
  destruct (key2_eqb k' k); [reflexivity | exact IH].
Qed.

Lemma key2_eqb_pair a b c d : key2_eqb (a, b) (c, d) = (Nat.eqb a c && Nat.eqb b d)%bool.
Proof. reflexivity. Qed.

(* the moved entries answer for the copy exactly as the source's entries answer for the source *)
Lemma alookup_moved_copy ob src (l : list (key2 * V)) h :
  alookup key2_eqb (moved ob src l) (ob, h) = alookup key2_eqb l (src, h).
Proof.
  unfold moved. induction l as [|[[o' h'] v] r IH]; cbn [filter map alookup]; [reflexivity|].
  unfold own at 1. cbn [fst snd]. rewrite (key2_eqb_pair o' h' src h).
  destruct (Nat.eqb_spec o' src) as [E|N]; cbn [andb].
  - cbn [map alookup fst snd]. rewrite (key2_eqb_pair ob h' ob h), Nat.eqb_refl. cbn [andb].
    destruct (Nat.eqb h' h); [reflexivity | exact IH].
  - exact IH.
Qed.

(* and they answer for nobody else *)
Lemma alookup_moved_other ob src (l : list (key2 * V)) o h : o <> ob -> alookup key2_eqb (moved ob src l) (o, h) = None.
Proof.
  intro N. unfold moved. induction (filter (own src) l) as [|[[o' h'] v] r IH]; cbn [map alookup]; [reflexivity|].
  cbn [fst snd]. rewrite (key2_eqb_pair ob h' o h). destruct (Nat.eqb_spec ob o); [congruence|]. cbn [andb]. exact IH.
Qed.
End Copy.

Section Step.
Variable mro : cls -> list cls.
Variable S_ : sem.

Definition fresh_obj (st : state) (ob : obj) : Prop :=
  (forall h, alookup key2_eqb (dict st) (ob, h) = None) /\ (forall h, alookup key2_eqb (cache st) (ob, h) = None).

Lemma copy_step_dict fuel st ob src : dict (fst (step mro S_ fuel st (CopyObj ob src))) = moved value ob src (dict st) ++ dict st.
Proof. reflexivity. Qed.
Lemma copy_step_cache fuel st ob src : cache (fst (step mro S_ fuel st (CopyObj ob src))) = moved value ob src (cache st) ++ cache st.
Proof. reflexivity. Qed.
Lemma copy_step_cls fuel st ob src : ocls (fst (step mro S_ fuel st (CopyObj ob src))) = (ob, cls_of st src) :: ocls st.
Proof. reflexivity. Qed.

(* b = copy.copy(a): b answers like a did, for explicit and for remembered values; every other object is untouched *)
Theorem copy_takes_over fuel st ob src : fresh_obj st ob ->
  let st' := fst (step mro S_ fuel st (CopyObj ob src)) in
  (forall h, alookup key2_eqb (dict st') (ob, h) = alookup key2_eqb (dict st) (src, h)) /\
  (forall h, alookup key2_eqb (cache st') (ob, h) = alookup key2_eqb (cache st) (src, h)) /\
  (forall o h, o <> ob -> alookup key2_eqb (dict st') (o, h) = alookup key2_eqb (dict st) (o, h)) /\
  (forall o h, o <> ob -> alookup key2_eqb (cache st') (o, h) = alookup key2_eqb (cache st) (o, h)) /\
  cls_of st' ob = cls_of st src.
Proof.
  intros [F1 F2] st'. subst st'. rewrite copy_step_dict, copy_step_cache. repeat split.
  - intro h. rewrite alookup_app, alookup_moved_copy.
    destruct (alookup key2_eqb (dict st) (src, h)); [reflexivity | apply F1].
  - intro h. rewrite alookup_app, alookup_moved_copy.
    destruct (alookup key2_eqb (cache st) (src, h)); [reflexivity | apply F2].
  - intros o h N. rewrite alookup_app, alookup_moved_other by exact N. reflexivity.
  - intros o h N. rewrite alookup_app, alookup_moved_other by exact N. reflexivity.
  - unfold cls_of at 1. rewrite copy_step_cls. cbn [alookup]. rewrite Nat.eqb_refl. reflexivity.
Qed.

Lemma alookup_aset_other {V} (l : list (key2 * V)) k k' v : k' <> k -> alookup key2_eqb (aset key2_eqb l k' v) k = alookup key2_eqb l k.
Proof.
  intro N. induction l as [|[k0 v0] r IH]; cbn [aset alookup].
  - rewrite (key2_eqb_false k' k N). reflexivity.
  - destruct (key2_eqb k0 k') eqn:E; cbn [alookup].
    + apply key2_eqb_spec in E. subst k0. rewrite (key2_eqb_false k' k N). reflexivity.
    + destruct (key2_eqb k0 k); [reflexivity | exact IH].
Qed.

Lemma alookup_adel_other {V} (l : list (key2 * V)) k k' : k' <> k -> alookup key2_eqb (adel key2_eqb l k') k = alookup key2_eqb l k.
Proof.
  intro N. induction l as [|[k0 v0] r IH]; cbn [adel alookup]; [reflexivity|].
  destruct (key2_eqb k0 k') eqn:E; cbn [alookup].
  - apply key2_eqb_spec in E. subst k0. rewrite (key2_eqb_false k' k N). reflexivity.
  - destruct (key2_eqb k0 k); [reflexivity | exact IH].
Qed.

Lemma alookup_filter_other {V} (l : list (key2 * V)) o ob h : o <> ob ->
  alookup key2_eqb (filter (fun kv => negb (Nat.eqb (fst (fst kv)) ob)) l) (o, h) = alookup key2_eqb l (o, h).
Proof.
  intro N. induction l as [|[[o0 h0] v0] r IH]; cbn [filter alookup fst]; [reflexivity|].
  destruct (Nat.eqb_spec o0 ob) as [E|E]; cbn [negb alookup].
  - subst o0. rewrite key2_eqb_false; [exact IH | intro X; inversion X; congruence].
  - destruct (key2_eqb (o0, h0) (o, h)); [reflexivity | exact IH].
Qed.

(* what is assigned, deleted or cleared on one instance afterwards does not show on any other instance (original or copy alike) *)
Theorem edits_stay_on_their_instance fuel st ob h v o h' : o <> ob ->
  let sa := fst (step mro S_ fuel st (Assign ob h v)) in
  let sd := fst (step mro S_ fuel st (Delete ob h)) in
  let sc := fst (step mro S_ fuel st (ClearCache ob)) in
  alookup key2_eqb (dict sa) (o, h') = alookup key2_eqb (dict st) (o, h') /\ cache sa = cache st /\
  alookup key2_eqb (dict sd) (o, h') = alookup key2_eqb (dict st) (o, h') /\ cache sd = cache st /\
  alookup key2_eqb (cache sc) (o, h') = alookup key2_eqb (cache st) (o, h') /\ dict sc = dict st.
Proof.
  intro N. cbn [step fst]. unfold set_dict, set_cache. cbn [dict cache].
  assert (K : (ob, h) <> (o, h')) by (intro E; inversion E; congruence).
  repeat split.
  - apply alookup_aset_other. exact K.
  - apply alookup_adel_other. exact K.
  - apply alookup_filter_other. exact N.
Qed.

End Step.
