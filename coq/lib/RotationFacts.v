(* Theorems about the entry-rotation model (C14). *)
From PyrollLib Require Import Rotation.
From Coq Require Import Lia.

(* units strictly between two consecutive passes: no pass among them *)
Definition no_pass (l : list unit) : Prop := forall u, In u l -> match u with UPass _ => False | _ => True end.
Fixpoint count_rotators (l : list unit) : nat :=
  match l with [] => 0 | URotator _ :: r => S (count_rotators r) | _ :: r => count_rotators r end.

Lemma detect_between (mid_rev : list unit) p rest : no_pass mid_rev ->
  detect (mid_rev ++ UPass p :: rest) = Nat.eqb (count_rotators mid_rev) 0.
Proof.
  induction mid_rev as [|u m IH]; intro N; cbn [app detect count_rotators]; [reflexivity|].
  assert (Nm : no_pass m) by (intros x Hx; apply N; right; assumption).
  pose proof (N u (or_introl eq_refl)) as Hu. destruct u; try contradiction; cbn [detect count_rotators].
  - apply IH; assumption.
  - reflexivity.
  - apply IH; assumption.
Qed.

Definition turns_by_entry (r : rot) : nat := match entry_rotator r with Some _ => 1 | None => 0 end.

(* EXACTLY ONCE: automatic rotation on, the second pass left to the automatism, at most one explicit rotator
   between the two passes (any number of transports / other units around it): the number of turns between the
   passes - explicit rotators plus the entry rotation of the second pass - is one *)
Theorem exactly_once (mid_rev : list unit) p rest :
  no_pass mid_rev -> count_rotators mid_rev <= 1 ->
  count_rotators mid_rev + turns_by_entry (rotation true true (mid_rev ++ UPass p :: rest) SUnset) = 1.
Proof.
  intros N C. cbn [rotation andb]. rewrite detect_between by assumption.
  destruct (count_rotators mid_rev) as [|[|k]]; cbn; lia.
Qed.

(* ... by the rotator if there is one (then the pass does not turn), otherwise by the pass *)
Theorem rotator_present_pass_does_not_turn (mid_rev : list unit) p rest :
  no_pass mid_rev -> count_rotators mid_rev >= 1 ->
  rotation true true (mid_rev ++ UPass p :: rest) SUnset = RFalse.
Proof.
  intros N C. cbn [rotation andb]. rewrite detect_between by assumption.
  destruct (count_rotators mid_rev); [lia | reflexivity].
Qed.

(* explicit settings are applied exactly *)
Theorem explicit_settings auto inseq before :
  entry_rotator (rotation auto inseq before SFalse) = None /\
  entry_rotator (rotation auto inseq before SZero) = None /\
  entry_rotator (rotation auto inseq before STrue) = Some None /\
  (forall a, a <> 0%Z -> entry_rotator (rotation auto inseq before (SAngle a)) = Some (Some a)).
Proof.
  repeat split. intros a H. cbn. destruct (Z.eqb_spec a 0); [contradiction | reflexivity].
Qed.

(* automatic rotation disabled globally: a pass left unset never turns the workpiece *)
Theorem global_off inseq before : entry_rotator (rotation false inseq before SUnset) = None.
Proof. destruct inseq; reflexivity. Qed.

(* stand-alone pass (no parent): the global switch decides *)
Theorem standalone auto before : rotation auto false before SUnset = if auto then RTrue else RFalse.
Proof. destruct auto; reflexivity. Qed.
