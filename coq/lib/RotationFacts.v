(* Theorems about the entry-rotation model (C14). *)
From PyrollLib Require Import Rotation.
From Coq Require Import Lia.

(* units strictly between two consecutive passes: no pass among them *)
Definition no_pass (l : list unit) : Prop := forall u, In u l -> match u with UPass _ => False | _ => True end.
Fixpoint count_rotators (l : list unit) : nat :=
  match l with [] => 0 | URotator _ :: r => S (count_rotators r) | _ :: r => count_rotators r end.

Lemma detect_between (mid_rev : list unit) p rest : no_pass mid_rev ->
  detect (mid_rev ++ UPass p :: rest) = Nat.eqb (count_rotators mid_rev) 0.
Proof.
  induction mid_rev as [|u m IH]; intro N; cbn [app detect count_rotators]; [reflexivity|].
  assert (Nm : no_pass m) by (intros x Hx; apply N; right; assumption).
  pose proof (N u (or_introl eq_refl)) as Hu. destruct u; try contradiction; cbn [detect count_rotators].
  - apply IH; assumption.
  - reflexivity.
  - apply IH; assumption.
Qed.

Definition turns_by_entry (r : rot) : nat := match entry_rotator r with Some _ => 1 | None => 0 end.

(* EXACTLY ONCE: automatic rotation on, the second pass left to the automatism, at most one explicit rotator
   between the two passes (any number of transports / other units around it): the number of turns between the
   passes - explicit rotators plus the entry rotation of the second pass - is one *)
Theorem exactly_once (mid_rev : list unit) p rest :
  no_pass mid_rev -> count_rotators mid_rev <= 1 ->
  count_rotators mid_rev + turns_by_entry (rotation true true (mid_rev ++ UPass p :: rest) SUnset) = 1.
Proof.
  intros N C. cbn [rotation andb]. rewrite detect_between by assumption.
  destruct (count_rotators mid_rev) as [|[|k]]; cbn; lia.
Qed.

(* ... by the rotator if there is one (then the pass does not turn), otherwise by the pass *)
Theorem rotator_present_pass_does_not_turn (mid_rev : list unit) p rest :
  no_pass mid_rev -> count_rotators mid_rev >= 1 ->
  rotation true true (mid_rev ++ UPass p :: rest) SUnset = RFalse.
Proof.
  intros N C. cbn [rotation andb]. rewrite detect_between by assumption.
  destruct (count_rotators mid_rev); [lia | reflexivity].
Qed.

(* explicit settings are applied exactly *)
Theorem explicit_settings auto inseq before :
  entry_rotator (rotation auto inseq before SFalse) = None /\
  entry_rotator (rotation auto inseq before SZero) = None /\
  entry_rotator (rotation auto inseq before STrue) = Some None /\
  (forall a, a <> 0%Z -> entry_rotator (rotation auto inseq before (SAngle a)) = Some (Some a)).
Proof.
  repeat split. intros a H. cbn. destruct (Z.eqb_spec a 0); [contradiction | reflexivity].
Qed.

(* automatic rotation disabled globally: a pass left unset never turns the workpiece *)
Theorem global_off inseq before : entry_rotator (rotation false inseq before SUnset) = None.
Proof. destruct inseq; reflexivity. Qed.

(* stand-alone pass (no parent): the global switch decides *)
Theorem standalone auto before : rotation auto false before SUnset = if auto then RTrue else RFalse.
Proof. destruct auto; reflexivity. Qed.

(* THE STATED ANGLE OF AN EXPLICIT ROTATOR IS IRRELEVANT to the decision: two arrangements that differ only in the angles stated on
   their rotators (0, 90, 180, -90, ... : a rotator stated as 0 is a rotator) give the same rotation value for every pass *)
Definition unit_shape (a b : unit) : bool :=
  match a, b with
  | UPass s, UPass t => match s, t with
                        | SUnset, SUnset | STrue, STrue | SFalse, SFalse | SZero, SZero => true
                        | SAngle x, SAngle y => Z.eqb x y
                        | _, _ => false end
  | UTransport, UTransport | UOther, UOther => true
  | URotator _, URotator _ => true
  | _, _ => false
  end.
Fixpoint same_shape (a b : list unit) : bool :=
  match a, b with [], [] => true | x :: r, y :: t => (unit_shape x y && same_shape r t)%bool | _, _ => false end.

Lemma detect_shape a : forall b, same_shape a b = true -> detect a = detect b.
Proof.
  induction a as [|x r IH]; intros [|y t] H; cbn [same_shape] in H; try discriminate; [reflexivity|].
  apply andb_prop in H. destruct H as [Hx Hr].
  destruct x, y; cbn [unit_shape] in Hx; try discriminate; cbn [detect]; try reflexivity; apply IH; assumption.
Qed.

Lemma pass_shape_eq s t : unit_shape (UPass s) (UPass t) = true -> s = t.
Proof.
  destruct s, t; cbn; intro H; try discriminate; try reflexivity.
  apply Z.eqb_eq in H. subst. reflexivity.
Qed.

Lemma rotations_from_shape auto l : forall l' b b', same_shape l l' = true -> same_shape b b' = true ->
  rotations_from auto b l = rotations_from auto b' l'.
Proof.
  induction l as [|x r IH]; intros [|y t] b b' H Hb; cbn [same_shape] in H; try discriminate; [reflexivity|].
  apply andb_prop in H. destruct H as [Hx Hr].
  destruct x as [s| |a|], y as [s'| |a'|]; cbn [unit_shape] in Hx; try discriminate; cbn [rotations_from].
  - pose proof (pass_shape_eq s s' Hx) as E. subst s'. f_equal.
    + unfold rotation. destruct s; try reflexivity. rewrite (detect_shape b b' Hb). reflexivity.
    + apply IH; [assumption|]. cbn [same_shape]. rewrite Hb. cbn [unit_shape].
      destruct s; cbn; try reflexivity. rewrite Z.eqb_refl. reflexivity.
  - apply IH; [assumption|]. cbn [same_shape unit_shape]. rewrite Hb. reflexivity.
  - apply IH; [assumption|]. cbn [same_shape unit_shape]. rewrite Hb. reflexivity.
  - apply IH; [assumption|]. cbn [same_shape unit_shape]. rewrite Hb. reflexivity.
Qed.

Theorem rotator_angle_irrelevant auto l l' : same_shape l l' = true -> rotations auto l = rotations auto l'.
Proof. intro H. unfold rotations. apply rotations_from_shape; [assumption | reflexivity]. Qed.

Example rotator_angle_irrelevant_example :
  rotations true [UPass SUnset; URotator 0; UTransport; UPass SUnset] = rotations true [UPass SUnset; URotator 90; UTransport; UPass SUnset]
  /\ rotations true [UPass SUnset; URotator 0; UTransport; UPass SUnset] = [RTrue; RFalse].
Proof. split; reflexivity. Qed.
