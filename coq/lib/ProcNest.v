(* Processors are units like any other (C18): a factory answers with nothing or with a processor UNIT of some class; solving that unit runs the
   registrations of ITS class around its own work, with the same walk - also when the product belongs to the class the factory is registered on.
   A factory is a table from the nesting depth of the unit it is asked for to its answer (what it answers may depend on the unit), default: nothing.
   Model of Unit.solve / init_solve of pyroll/core/unit/unit.py on top of Processors.walk.   No proofs here. *)
From PyrollLib Require Export Processors.

Inductive answer : Type := ANone | AProc (c : cls) (mark : pid).
Record nfactory : Type := { nf_id : nat; nf_ans : list (nat * answer) }.
Definition ans (f : nfactory) (d : nat) : answer := match alookup (nf_ans f) d with Some a => a | None => ANone end.

Record nst : Type := { nmros : list (cls * list cls); npre : list (cls * list nfactory); npost : list (cls * list nfactory) }.
Definition nlst (l : list (cls * list nfactory)) (c : cls) : list nfactory := match alookup l c with Some x => x | None => [] end.
Definition nmro_of (s : nst) (c : cls) : list cls := match alookup (nmros s) c with Some m => m | None => [] end.
Definition nwalk (s : nst) (which : list (cls * list nfactory)) (c : cls) : list nfactory :=
  flat_map (fun k => nlst which k) (rev (nmro_of s c)).

(* what solving one unit of class c at nesting depth d does: (factories asked, as (id, depth of the unit they were asked for), in order;
   marks left on the profile before the unit's own work; marks left after it).  fuel = Python's recursion limit. *)
Definition asks := list (nat * nat).
Definition result := option (asks * list pid * list pid).

(* one chain (pre or post) of the unit at depth d; `rec c'` solves a processor unit of class c' one level deeper *)
Fixpoint chain_with (rec : cls -> result) (d : nat) (fs : list nfactory) : option (asks * list pid) :=
  match fs with
  | [] => Some ([], [])
  | fa :: r =>
      let here := match ans fa d with
                  | ANone => Some ([], [])
                  | AProc c' m => match rec c' with
                                  | None => None
                                  | Some (a, pm, qm) => Some (a, pm ++ [m] ++ qm)     (* its pre-processors, its own work, its post-processors *)
                                  end
                  end in
      match here, chain_with rec d r with
      | Some (a1, m1), Some (a2, m2) => Some ((nf_id fa, d) :: a1 ++ a2, m1 ++ m2)
      | _, _ => None
      end
  end.

Fixpoint nsolve (fuel : nat) (s : nst) (c : cls) (d : nat) : result :=
  match fuel with
  | 0 => None
  | S f =>
      let rec := fun c' => nsolve f s c' (S d) in
      match chain_with rec d (nwalk s (npre s) c), chain_with rec d (nwalk s (npost s) c) with
      | Some (a1, m1), Some (a2, m2) => Some (a1 ++ a2, m1, m2)
      | _, _ => None
      end
  end.

(* the factories asked for the unit at depth d itself *)
Definition own_asks (d : nat) (a : asks) : list nat := map fst (filter (fun x => Nat.eqb (snd x) d) a).

(* the re-entrancy guard of a seeded change: a factory whose own product is being solved is not asked again (skipped, without being called) *)
Fixpoint gchain_with (rec : nat -> cls -> result) (running : list nat) (d : nat) (fs : list nfactory) : option (asks * list pid) :=
  match fs with
  | [] => Some ([], [])
  | fa :: r =>
      if existsb (Nat.eqb (nf_id fa)) running then gchain_with rec running d r else
      let here := match ans fa d with
                  | ANone => Some ([], [])
                  | AProc c' m => match rec (nf_id fa) c' with
                                  | None => None
                                  | Some (a, pm, qm) => Some (a, pm ++ [m] ++ qm)
                                  end
                  end in
      match here, gchain_with rec running d r with
      | Some (a1, m1), Some (a2, m2) => Some ((nf_id fa, d) :: a1 ++ a2, m1 ++ m2)
      | _, _ => None
      end
  end.
Fixpoint nsolve_guarded (fuel : nat) (running : list nat) (s : nst) (c : cls) (d : nat) : result :=
  match fuel with
  | 0 => None
  | S f =>
      let rec := fun id c' => nsolve_guarded f (id :: running) s c' (S d) in
      match gchain_with rec running d (nwalk s (npre s) c), gchain_with rec running d (nwalk s (npost s) c) with
      | Some (a1, m1), Some (a2, m2) => Some (a1 ++ a2, m1, m2)
      | _, _ => None
      end
  end.

(* comparison with recorded observations: (state, class, fuel) -> asked (id, depth) list, pre marks, post marks *)
Fixpoint pairs_eqb (a b : list (nat * nat)) : bool :=
  match a, b with [], [] => true | (x, y) :: r, (u, v) :: t => (Nat.eqb x u && Nat.eqb y v && pairs_eqb r t)%bool | _, _ => false end.
Definition ncase := (nst * cls * (asks * list pid * list pid))%type.
Definition ncase_ok (k : ncase) : bool :=
  let '(s, c, (a, p, q)) := k in
  match nsolve 200 s c 0 with
  | Some (a', p', q') => (pairs_eqb a a' && leqb p p' && leqb q q')%bool
  | None => false
  end.
Fixpoint nmismatches (cases : list ncase) (i : nat) : list nat :=
  match cases with [] => [] | k :: r => (if ncase_ok k then [] else [i]) ++ nmismatches r (S i) end.
