(* Theorems about the processor model (C18). *)
From PyrollLib Require Import Processors.

Lemma alookup_aset {V} (l : list (cls * V)) k v k' :
  alookup (aset l k v) k' = if Nat.eqb k k' then Some v else alookup l k'.
Proof.
  induction l as [|[k0 v0] l IH]; cbn.
  - destruct (Nat.eqb k k'); reflexivity.
  - destruct (Nat.eqb_spec k0 k); cbn.
    + subst k0. destruct (Nat.eqb_spec k k'); reflexivity.
    + destruct (Nat.eqb_spec k0 k'); [subst; destruct (Nat.eqb_spec k k'); congruence | exact IH].
Qed.

Lemma lst_aset l k v k' : lst (aset l k v) k' = if Nat.eqb k k' then v else lst l k'.
Proof. unfold lst. rewrite alookup_aset. destruct (Nat.eqb k k'); reflexivity. Qed.

(* abstract registration logs: (class, factory) in registration order; defining a class (again) starts
   it with empty lists *)
Definition entry := (cls * factory)%type.
Definition eo (e : entry) : cls := fst e.
Definition ef (e : entry) : factory := snd e.
Definition on (c : cls) (log : list entry) : list factory := map ef (filter (fun e => Nat.eqb (eo e) c) log).

Definition log_pre_step (log : list entry) (o : op) : list entry :=
  match o with
  | NewClass c _ => filter (fun e => negb (Nat.eqb (eo e) c)) log
  | RegPre c f => log ++ [(c, f)]
  | _ => log
  end.
Definition log_post_step (log : list entry) (o : op) : list entry :=
  match o with
  | NewClass c _ => filter (fun e => negb (Nat.eqb (eo e) c)) log
  | RegPost c f => log ++ [(c, f)]
  | _ => log
  end.

Definition Inv (s : st) (lp lq : list entry) : Prop :=
  (forall c, lst (pre s) c = on c lp) /\ (forall c, lst (post s) c = on c lq).

Lemma on_app c log e : on c (log ++ [e]) = on c log ++ (if Nat.eqb (eo e) c then [ef e] else []).
Proof. unfold on. rewrite filter_app, map_app. cbn [filter]. destruct (Nat.eqb (eo e) c); reflexivity. Qed.

Lemma on_filter_other c d log : on c (filter (fun e => negb (Nat.eqb (eo e) d)) log) = if Nat.eqb d c then [] else on c log.
Proof.
  unfold on. induction log as [|e r IH]; cbn [filter map]; [destruct (Nat.eqb d c); reflexivity|].
  destruct (Nat.eqb_spec (eo e) d) as [E|NE]; cbn [negb].
  - rewrite IH. destruct (Nat.eqb_spec d c); [reflexivity|]. rewrite E. destruct (Nat.eqb_spec d c); [contradiction|reflexivity].
  - cbn [filter]. destruct (Nat.eqb_spec (eo e) c) as [E2|NE2]; cbn [map]; rewrite IH.
    + destruct (Nat.eqb_spec d c); [subst; contradiction | reflexivity].
    + reflexivity.
Qed.

Theorem step_inv s lp lq o : Inv s lp lq -> Inv (fst (step s o)) (log_pre_step lp o) (log_post_step lq o).
Proof.
  intros [P Q]. destruct o; unfold Inv; cbn [step fst log_pre_step log_post_step pre post].
  - split; intro k; rewrite lst_aset, on_filter_other; destruct (Nat.eqb c k); auto.
  - split; [|assumption]. intro k. rewrite lst_aset, on_app. unfold eo, ef. cbn [fst snd].
    destruct (Nat.eqb_spec c k); [subst; rewrite P; reflexivity | rewrite app_nil_r; apply P].
  - split; [assumption|]. intro k. rewrite lst_aset, on_app. unfold eo, ef. cbn [fst snd].
    destruct (Nat.eqb_spec c k); [subst; rewrite Q; reflexivity | rewrite app_nil_r; apply Q].
  - split; assumption.
Qed.

Theorem run_inv ops : forall s lp lq, Inv s lp lq ->
  Inv (fst (run s ops)) (fold_left log_pre_step ops lp) (fold_left log_post_step ops lq).
Proof.
  induction ops as [|o r IH]; intros s lp lq I; cbn [run fold_left]; [exact I|].
  pose proof (step_inv s lp lq o I) as I1. destruct (step s o) as [s1 x]. cbn [fst] in I1.
  specialize (IH s1 _ _ I1). destruct (run s1 r) as [s2 xs]. exact IH.
Qed.

Lemma inv_init : Inv init [] [].
Proof. split; intro c; reflexivity. Qed.

(* the order in which processors run: base classes first (reversed MRO), registration order within a class,
   factories returning nothing skipped; pre before post *)
Definition spec_walk (m : list cls) (log : list entry) : list factory := flat_map (fun k => on k log) (rev m).

Theorem solve_order s lp lq c : Inv s lp lq ->
  solve_obs s c =
  let a := procs (spec_walk (mro_of s c) lp) in
  let b := procs (spec_walk (mro_of s c) lq) in
  {| o_calls := a ++ b; o_in := a; o_out := a; o_ret := a ++ b |}.
Proof.
  intros [P Q]. unfold solve_obs, walk, spec_walk.
  assert (E1 : flat_map (fun k => lst (pre s) k) (rev (mro_of s c)) = flat_map (fun k => on k lp) (rev (mro_of s c)))
    by (apply flat_map_ext; intro k; apply P).
  assert (E2 : flat_map (fun k => lst (post s) k) (rev (mro_of s c)) = flat_map (fun k => on k lq) (rev (mro_of s c)))
    by (apply flat_map_ext; intro k; apply Q).
  rewrite E1, E2. reflexivity.
Qed.

(* scope: a registration applies to exactly the class it was made on and the classes having it in their MRO -
   whenever they were defined *)
Theorem walk_scope m log f : In f (spec_walk m log) <-> exists k, In k m /\ In (k, f) log.
Proof.
  unfold spec_walk. rewrite in_flat_map. split.
  - intros [k [Hk X]]. apply in_rev in Hk. unfold on in X. apply in_map_iff in X. destruct X as [[k' f'] [E X]].
    unfold ef in E. cbn in E. subst f'. apply filter_In in X. destruct X as [X Y]. unfold eo in Y. cbn in Y. apply Nat.eqb_eq in Y. subst k'. exists k. tauto.
  - intros [k [Hk X]]. exists k. split; [apply -> in_rev; assumption|]. unfold on. apply in_map_iff. exists (k, f).
    split; [reflexivity|]. apply filter_In. split; [assumption | unfold eo; cbn; apply Nat.eqb_refl].
Qed.

Lemma procs_app a b : procs (a ++ b) = procs a ++ procs b.
Proof. induction a as [|f a IH]; cbn; [reflexivity|]. destruct (f_ret f); cbn; rewrite IH; reflexivity. Qed.

(* post-processors affect only the returned profile: what the unit keeps as its own outgoing state carries the
   pre-processors' marks only, whatever is registered as post-processor *)
Theorem post_frame s c : o_out (solve_obs s c) = o_in (solve_obs s c) /\
  o_ret (solve_obs s c) = o_out (solve_obs s c) ++ procs (walk s (post s) c).
Proof. split; reflexivity. Qed.
