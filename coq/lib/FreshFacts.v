From PyrollLib Require Import Fresh.
From Coq Require Import Lia.

Lemma length_write h i v : length (write h i v) = length h.
Proof. revert i. induction h as [|c t IH]; intro i; [reflexivity|]. destruct i; cbn [write length]; [reflexivity | rewrite IH; reflexivity]. Qed.

Lemma firstn_write h i v n : n <= i -> firstn n (write h i v) = firstn n h.
Proof.
  revert i n. induction h as [|c t IH]; intros i n L; [destruct i; reflexivity|].
  destruct i; [assert (n = 0) by lia; subst; reflexivity|]. destruct n; [reflexivity|]. cbn [write firstn]. f_equal. apply IH. lia.
Qed.

(* invariant: the original cells are untouched, and every name that is only ever bound freshly (w.r.t. the whole program q) points to a new cell *)
Definition Good (h0 : cells) (q : list stmt) (s : cells * venv) : Prop :=
  length h0 <= length (fst s) /\ firstn (length h0) (fst s) = h0 /\
  forall x a, binds_fresh_only q x = true -> vlookup (snd s) x = Some a -> length h0 <= a.

Lemma binds_fresh_only_in q x y f : binds_fresh_only q x = true -> In (SBind y f) q -> y = x -> f = true.
Proof.
  intros B I E. unfold binds_fresh_only in B. rewrite forallb_forall in B. specialize (B _ I). cbn in B. subst y. rewrite String.eqb_refl in B. exact B.
Qed.

Lemma step_good h0 q pick val k s c : In c q -> discipline q = true -> Good h0 q s -> Good h0 q (step pick val k s c).
Proof.
  intros Ic D [L [F V]]. destruct s as [h e]. cbn [fst snd] in *. destruct c as [x [|]|x]; cbn [step].
  - (* fresh bind *) repeat split; cbn [fst snd].
    + rewrite app_length. lia.
    + rewrite firstn_app. replace (length h0 - length h) with 0 by lia. cbn [firstn]. rewrite app_nil_r. exact F.
    + intros y a B H. cbn [vlookup] in H. destruct (String.eqb x y); [inversion H; subst; lia | apply (V y a B H)].
  - (* aliasing bind *) repeat split; cbn [fst snd]; [exact L | exact F|].
    intros y a B H. cbn [vlookup] in H. destruct (String.eqb x y) eqn:E; [|apply (V y a B H)].
    apply String.eqb_eq in E. pose proof (binds_fresh_only_in q y x false B Ic E). discriminate.
  - (* mutation *) destruct (vlookup e x) as [a|] eqn:Lk; [|repeat split; assumption].
    assert (B : binds_fresh_only q x = true).
    { unfold discipline in D. rewrite forallb_forall in D. apply (D _ Ic). }
    pose proof (V x a B Lk) as Ha. repeat split; cbn [fst snd].
    + rewrite length_write. exact L.
    + rewrite firstn_write by exact Ha. exact F.
    + exact V.
Qed.

Lemma run_good h0 q pick val p : (forall c, In c p -> In c q) -> discipline q = true -> forall k s, Good h0 q s -> Good h0 q (run pick val k s p).
Proof.
  intros Sub D. induction p as [|c rest IH]; intros k s G; [exact G|]. cbn [run].
  apply IH; [intros c' I; apply Sub; right; exact I|]. apply step_good; [apply Sub; left; reflexivity | exact D | exact G].
Qed.

(* a function that keeps the discipline never changes an object that existed before it ran, whatever its aliasing binds refer to *)
Theorem discipline_protects_existing_objects p pick val h0 :
  discipline p = true -> firstn (length h0) (fst (run pick val 0 (h0, []) p)) = h0.
Proof.
  intro D. assert (G : Good h0 p (h0, [])) by (repeat split; cbn [fst snd]; [lia | apply firstn_all | intros x a _ H; discriminate]).
  destruct (run_good h0 p pick val p (fun c I => I) D 0 _ G) as [_ [F _]]. exact F.
Qed.

(* and the discipline is necessary in the model: the seeded shape (bind to an existing value, then add) overwrites it *)
Example undisciplined_overwrites : fst (run (fun _ => 0) (fun _ => 7) 0 ([1; 2], []) [SBind "t" false; SMutate "t"]) = [7; 2].
Proof. reflexivity. Qed.
