(* Executable model of pyroll/core/hooks.py (Hook, HookFunction, HookHost) for C01, C02, C07, C16.
   - registrations live in six per-(class, hook) stores exactly like Hook._first_wrappers ... ;
   - resolution order = tier-major, MRO-minor, reversed registration order (functions_gen);
   - Hook.__get__: explicit (callables invoked) > remembered > computed-and-remembered with the
     None / non-finite / RecursionError handling;
   - HookFunction.__call__: cycle flag handed to the implementation, wrapper protocol;
   - recursion on explicit fuel: exhaustion is the model of RecursionError.
   The record [sem] holds the two behaviours that were repaired in /repo (restore of the cycle flag,
   wrapper's inner chain) so that both the pinned and the repaired semantics can be run.
   No proofs here. *)
From Coq Require Export List ZArith Bool Arith.
Export ListNotations.

Definition cls := nat.
Definition hook := nat.
Definition obj := nat.
Definition iid := nat.

Inductive exn : Type := EAttr | EValue | EType | EKey | EZeroDiv | ECustom | ERecursion | ESyntax.

Inductive value : Type :=
| VNone | VInt (z : Z) | VBool (b : bool) | VInf | VNaN
| VOpq (n : nat)                  (* strings, sets, geometry objects: finiteness is meaningless *)
| VList (l : list value)          (* flat numeric lists / arrays *)
| VFn0 (r : value) | VFn1 (r : value).   (* lambda: r   /   lambda self: r *)

Inductive outcome : Type := Val (v : value) | Exn (e : exn).

Definition is_none (v : value) : bool := match v with VNone => true | _ => false end.

Definition scalar_nonfinite (v : value) : bool := match v with VInf | VNaN => true | _ => false end.
Definition nonfinite (v : value) : bool :=
  match v with VInf | VNaN => true | VList l => existsb scalar_nonfinite l | _ => false end.

(* Python's + on the values the generator produces *)
Definition as_num (v : value) : option (option Z) :=   (* Some (Some z) finite, Some None = inf *)
  match v with VInt z => Some (Some z) | VBool b => Some (Some (if b then 1 else 0))%Z | VInf => Some None | _ => None end.
Definition py_add (a b : value) : outcome :=
  match a, b with
  | VNaN, (VInt _ | VBool _ | VInf | VNaN) | (VInt _ | VBool _ | VInf), VNaN => Val VNaN
  | _, _ =>
    match as_num a, as_num b with
    | Some (Some x), Some (Some y) => Val (VInt (x + y))
    | Some None, Some _ | Some _, Some None => Val VInf
    | _, _ => Exn EType
    end
  end.

Inductive oref : Type := OSelf | OObj (o : obj).
Inductive haskind : Type := HasSet | HasCached | HasSetOrCached | HasValue.

Inductive prog : Type :=
| PConst (v : value)
| PRaise (e : exn)
| PRead (o : oref) (h : hook)
| PAdd (a b : prog)
| PIfCycle (a b : prog)
| PIfHas (k : haskind) (o : oref) (h : hook) (a b : prog)
| PTry (a b : prog)            (* try: a  except AttributeError: b *)
| PSeq (a b : prog).           (* evaluate a, discard its value, then b *)

Inductive postop : Type := PoId | PoAdd (z : Z) | PoConst (v : value) | PoIsNone | PoRaise (e : exn) | PoYield2
  | PoPre (e : exn).     (* the wrapper raises e BEFORE its yield: the rest of the chain is never asked *)

Inductive ibody : Type :=
| Plain (p : prog)
| Wrapper (guarded : bool) (post : postop).   (* def w(self, cycle): [if cycle: return None]; x = yield; return post(x) *)

Record impl : Type := { i_owner : cls; i_hook : hook; i_tier : nat (* 0 first, 1 normal, 2 last *);
                        i_wrapper : bool; i_body : ibody }.

(* store index: wrappers 0..2 (first, normal, last), plain 3..5 *)
Definition store_ix (i : impl) : nat := (if i_wrapper i then 0 else 3) + i_tier i.

Definition key3 := (cls * hook * nat)%type.
Definition key3_eqb (a b : key3) : bool :=
  let '(c1, h1, t1) := a in let '(c2, h2, t2) := b in (Nat.eqb c1 c2 && Nat.eqb h1 h2 && Nat.eqb t1 t2)%bool.
Definition key2 := (obj * hook)%type.
Definition key2_eqb (a b : key2) : bool := (Nat.eqb (fst a) (fst b) && Nat.eqb (snd a) (snd b))%bool.

Fixpoint alookup {K V} (eqb : K -> K -> bool) (l : list (K * V)) (k : K) : option V :=
  match l with [] => None | (k', v) :: r => if eqb k' k then Some v else alookup eqb r k end.
(* Python dict assignment: replace in place, else append at the end (insertion order) *)
Fixpoint aset {K V} (eqb : K -> K -> bool) (l : list (K * V)) (k : K) (v : V) : list (K * V) :=
  match l with [] => [(k, v)] | (k', v') :: r => if eqb k' k then (k', v) :: r else (k', v') :: aset eqb r k v end.
Fixpoint adel {K V} (eqb : K -> K -> bool) (l : list (K * V)) (k : K) : list (K * V) :=
  match l with [] => [] | (k', v') :: r => if eqb k' k then r else (k', v') :: adel eqb r k end.

Fixpoint remove_first (x : iid) (l : list iid) : list iid :=
  match l with [] => [] | y :: r => if Nat.eqb x y then r else y :: remove_first x r end.

Record state : Type := {
  stores : list (key3 * list iid);      (* Hook._first_wrappers ... of the Hook object of (class, hook) *)
  impls : list (iid * impl);            (* every HookFunction ever created *)
  dict : list (key2 * value);           (* instance.__dict__ *)
  cache : list (key2 * value);          (* instance.__cache__ , insertion ordered *)
  cyc : list iid;                       (* HookFunction.cycle = True *)
  ocls : list (obj * cls);
  trace : list iid;                     (* implementations invoked, most recent first *)
  inget : bool }.                       (* Hook._read_depth > 0: some read is computing a value further up the stack *)

Definition store_of (st : state) (k : key3) : list iid :=
  match alookup key3_eqb (stores st) k with Some l => l | None => [] end.

Record sem : Type := { restore_flag : bool; wrapper_inner_from_instance : bool }.
Definition sem_fixed : sem := {| restore_flag := true; wrapper_inner_from_instance := true |}.
Definition sem_pinned : sem := {| restore_flag := false; wrapper_inner_from_instance := false |}.

Section Machine.
Variable mro : cls -> list cls.
Variable S_ : sem.

(* Hook.functions of class c: tier-major, MRO-minor, latest registration first *)
Definition functions (st : state) (c : cls) (h : hook) : list iid :=
  flat_map (fun t => flat_map (fun s => rev (store_of st (s, h, t))) (mro c)) [0; 1; 2; 3; 4; 5].

Definition set_cache (st : state) (c : list (key2 * value)) : state :=
  {| stores := stores st; impls := impls st; dict := dict st; cache := c; cyc := cyc st; ocls := ocls st; trace := trace st; inget := inget st |}.
Definition set_cyc (st : state) (c : list iid) : state :=
  {| stores := stores st; impls := impls st; dict := dict st; cache := cache st; cyc := c; ocls := ocls st; trace := trace st; inget := inget st |}.
Definition push_trace (st : state) (i : iid) : state :=
  {| stores := stores st; impls := impls st; dict := dict st; cache := cache st; cyc := cyc st; ocls := ocls st; trace := i :: trace st; inget := inget st |}.
Definition set_inget (st : state) (b : bool) : state :=
  {| stores := stores st; impls := impls st; dict := dict st; cache := cache st; cyc := cyc st; ocls := ocls st; trace := trace st; inget := b |}.
Definition set_dict (st : state) (d : list (key2 * value)) : state :=
  {| stores := stores st; impls := impls st; dict := d; cache := cache st; cyc := cyc st; ocls := ocls st; trace := trace st; inget := inget st |}.

Definition flagged (st : state) (i : iid) : bool := existsb (Nat.eqb i) (cyc st).
Definition cls_of (st : state) (o : obj) : cls := match alookup Nat.eqb (ocls st) o with Some c => c | None => 0 end.
Definition the_obj (self : obj) (r : oref) : obj := match r with OSelf => self | OObj o => o end.

Definition apply_post (p : postop) (x : value) : outcome :=
  match p with
  | PoId => Val x
  | PoAdd z => py_add x (VInt z)
  | PoConst v => Val v
  | PoIsNone => Val (VBool (is_none x))
  | PoRaise e => Exn e
  | PoYield2 => Exn ESyntax
  | PoPre e => Exn e
  end.

(* Hook.__get__ on an instance, given the function that computes Hook.get_result.
   A RecursionError (fuel exhaustion) coming out of the computation is turned into AttributeError only by the OUTERMOST read on the
   stack (Hook._read_depth == 1); a read nested in another read's computation lets it pass, so that no handler half-way up the stack
   (has_value, try/except AttributeError in an implementation) can turn a runaway recursion into a value. *)
Definition read_with (gr : state -> obj -> cls -> hook -> state * outcome)
           (st : state) (o : obj) (h : hook) : state * outcome :=
  match match alookup key2_eqb (dict st) (o, h) with Some VNone | None => None | Some v => Some v end with
  | Some (VFn0 r) | Some (VFn1 r) => (st, Val r)
  | Some v => (st, Val v)
  | None =>
    match match alookup key2_eqb (cache st) (o, h) with Some VNone | None => None | Some v => Some v end with
    | Some v => (st, Val v)
    | None =>
      let was := inget st in
      let '(st0, r) := gr (set_inget st true) o (cls_of st o) h in
      let st1 := set_inget st0 was in
      match r with
      | Exn ERecursion => (st1, Exn (if was then ERecursion else EAttr))
      | Exn e => (st1, Exn e)
      | Val VNone => (st1, Exn EAttr)
      | Val v => if nonfinite v then (st1, Exn EValue)
                 else (set_cache st1 (aset key2_eqb (cache st1) (o, h) v), Val v)
      end
    end
  end.

Definition has_with (gr : state -> obj -> cls -> hook -> state * outcome)
           (k : haskind) (st : state) (o : obj) (h : hook) : state * outcome :=
  let hs := match alookup key2_eqb (dict st) (o, h) with Some _ => true | None => false end in
  let hc := match alookup key2_eqb (cache st) (o, h) with Some _ => true | None => false end in
  match k with
  | HasSet => (st, Val (VBool hs))
  | HasCached => (st, Val (VBool hc))
  | HasSetOrCached => (st, Val (VBool (hs || hc)))
  | HasValue =>                               (* hasattr: only AttributeError means False *)
    let '(st1, r) := read_with gr st o h in
    match r with Val _ => (st1, Val (VBool true)) | Exn EAttr => (st1, Val (VBool false)) | Exn e => (st1, Exn e) end
  end.

(* body of a plain implementation, run for instance o with the flag value cy handed in *)
Fixpoint exec (gr : state -> obj -> cls -> hook -> state * outcome) (o : obj)
         (p : prog) (cy : bool) (st : state) {struct p} : state * outcome :=
  match p with
  | PConst v => (st, Val v)
  | PRaise e => (st, Exn e)
  | PRead r h' => read_with gr st (the_obj o r) h'
  | PAdd a b =>
      let '(st1, ra) := exec gr o a cy st in
      match ra with
      | Exn e => (st1, Exn e)
      | Val va => let '(st2, rb) := exec gr o b cy st1 in
                  match rb with Exn e => (st2, Exn e) | Val vb => (st2, py_add va vb) end
      end
  | PIfCycle a b => if cy then exec gr o a cy st else exec gr o b cy st
  | PIfHas k r h' a b =>
      let '(st1, t) := has_with gr k st (the_obj o r) h' in
      match t with
      | Val (VBool true) => exec gr o a cy st1
      | Val _ => exec gr o b cy st1
      | Exn e => (st1, Exn e)
      end
  | PTry a b =>
      let '(st1, ra) := exec gr o a cy st in
      match ra with Exn EAttr => exec gr o b cy st1 | _ => (st1, ra) end
  | PSeq a b =>
      let '(st1, ra) := exec gr o a cy st in
      match ra with Exn e => (st1, Exn e) | Val _ => exec gr o b cy st1 end
  end.

Definition pre_raise (p : postop) : option exn := match p with PoPre e => Some e | _ => None end.

Definition after_call (st1 : state) (i : iid) : list iid :=     (* the finally block *)
  if restore_flag S_ then remove_first i (cyc st1) else filter (fun j => negb (Nat.eqb i j)) (cyc st1).

(* HookFunction.__call__ for instance o, reached from the Hook object of class c *)
Definition call (gr : state -> obj -> cls -> hook -> state * outcome) (o : obj) (c : cls) (h : hook)
           (i : iid) (st : state) : state * outcome :=
  match alookup Nat.eqb (impls st) i with
  | None => (st, Exn EType)
  | Some im =>
    let was := flagged st i in
    let st0 := push_trace (set_cyc st (i :: cyc st)) i in
    let '(st1, r) :=
      match i_body im with
      | Plain p => exec gr o p was st0
      | Wrapper guarded post =>
          if (guarded && was)%bool then (st0, Val VNone)
          else match pre_raise post with Some e => (st0, Exn e) | None =>
            let cin := if wrapper_inner_from_instance S_ then c else i_owner im in
            let '(sti, ri) := gr st0 o cin h in
            match ri with
            | Exn e => (sti, Exn e)
            | Val x => (sti, apply_post post x)
            end end
      end in
    (set_cyc st1 (after_call st1 i), r)
  end.

(* Hook.get_result: first result that is not None *)
Fixpoint scan (gr : state -> obj -> cls -> hook -> state * outcome) (o : obj) (c : cls) (h : hook)
         (l : list iid) (st : state) {struct l} : state * outcome :=
  match l with
  | [] => (st, Val VNone)
  | i :: rest =>
      let '(st1, r) := call gr o c h i st in
      match r with
      | Val VNone => scan gr o c h rest st1
      | _ => (st1, r)
      end
  end.

(* Hook.get_result(instance) of the Hook object of class c, with fuel n *)
Fixpoint get_result (n : nat) (st : state) (o : obj) (c : cls) (h : hook) {struct n} : state * outcome :=
  match n with
  | 0 => (st, Exn ERecursion)
  | S m => scan (get_result m) o c h (functions st c h) st
  end.

Definition read (n : nat) (st : state) (o : obj) (h : hook) : state * outcome :=
  read_with (get_result n) st o h.

(* HookHost.reevaluate_cache: recompute exactly the remembered names, in insertion order, storing
   whatever get_result yields (even None), with the registrations of that moment *)
Fixpoint reeval_keys (n : nat) (st : state) (o : obj) (ks : list key2) : state * outcome :=
  match ks with
  | [] => (st, Val VNone)
  | (o', h) :: r =>
      if Nat.eqb o' o then
        let '(st1, res) := get_result n st o (cls_of st o) h in
        match res with
        | Exn e => (st1, Exn e)
        | Val v => reeval_keys n (set_cache st1 (aset key2_eqb (cache st1) (o, h) v)) o r
        end
      else reeval_keys n st o r
  end.

(* HookHost.evaluate_and_set_hooks restricted to the given root hooks (no fallback) *)
Fixpoint eval_roots (n : nat) (st : state) (o : obj) (hs : list hook) : state * outcome :=
  match hs with
  | [] => (st, Val VNone)
  | h :: r =>
      let '(st1, res) := get_result n st o (cls_of st o) h in
      match res with
      | Exn e => (st1, Exn e)
      | Val VNone => (st1, Exn EAttr)
      | Val v => eval_roots n (set_dict st1 (aset key2_eqb (dict st1) (o, h) v)) o r
      end
  end.

Inductive op : Type :=
| Register (i : iid) (im : impl)          (* Cls.hook(...)(f) on the Hook object of i_owner *)
| Remove (i : iid)                        (* i.hook.remove_function(i) (what `with` does) *)
| RemoveVia (c : cls) (i : iid)           (* c.hook.remove_function(i): only c's own stores *)
| Touch (c : cls) (h : hook)              (* getattr(c, h): lazily creates the per-subclass Hook *)
| NewObj (o : obj) (c : cls)
| CopyObj (o src : obj)             (* o = copy.copy(src): same class, explicit and remembered values copied into containers of its own *)
| Read (o : obj) (h : hook)
| Assign (o : obj) (h : hook) (v : value)
| Delete (o : obj) (h : hook)
| Reeval (o : obj)
| ClearCache (o : obj)
| EvalRoot (o : obj) (hs : list hook)
| Has (k : haskind) (o : obj) (h : hook)
| Functions (c : cls) (h : hook).         (* observe Hook.functions *)

Inductive obs : Type := ODone | OOut (r : outcome) | OList (l : list iid).

Definition with_stores (st : state) (s : list (key3 * list iid)) (im : list (iid * impl)) : state :=
  {| stores := s; impls := im; dict := dict st; cache := cache st; cyc := cyc st; ocls := ocls st; trace := trace st; inget := inget st |}.

Definition remove_from_hook (st : state) (c : cls) (h : hook) (i : iid) : state :=
  with_stores st
    (fold_left (fun s t => match alookup key3_eqb s (c, h, t) with
                           | Some l => aset key3_eqb s (c, h, t) (remove_first i l) | None => s end)
               [0; 1; 2; 3; 4; 5] (stores st))
    (impls st).

Definition step (fuel : nat) (st : state) (o : op) : state * obs :=
  match o with
  | Register i im =>
      let k := (i_owner im, i_hook im, store_ix im) in
      (with_stores st (aset key3_eqb (stores st) k (store_of st k ++ [i])) ((i, im) :: impls st), ODone)
  | Remove i =>
      match alookup Nat.eqb (impls st) i with
      | Some im => (remove_from_hook st (i_owner im) (i_hook im) i, ODone)
      | None => (st, ODone) end
  | RemoveVia c i =>
      match alookup Nat.eqb (impls st) i with
      | Some im => (remove_from_hook st c (i_hook im) i, ODone)
      | None => (st, ODone) end
  | Touch _ _ => (st, ODone)
  | NewObj ob c =>
      ({| stores := stores st; impls := impls st; dict := dict st; cache := cache st; cyc := cyc st;
          ocls := (ob, c) :: ocls st; trace := trace st; inget := inget st |}, ODone)
  | CopyObj ob src =>
      let own (kv : key2 * value) := Nat.eqb (fst (fst kv)) src in
      let moved (l : list (key2 * value)) := map (fun kv => ((ob, snd (fst kv)), snd kv)) (filter own l) in
      ({| stores := stores st; impls := impls st; dict := moved (dict st) ++ dict st; cache := moved (cache st) ++ cache st;
          cyc := cyc st; ocls := (ob, cls_of st src) :: ocls st; trace := trace st; inget := inget st |}, ODone)
  | Read ob h => let '(st1, r) := read fuel st ob h in (st1, OOut r)
  | Assign ob h v => (set_dict st (aset key2_eqb (dict st) (ob, h) v), ODone)
  | Delete ob h => (set_dict st (adel key2_eqb (dict st) (ob, h)), ODone)
  | Reeval ob => let '(st1, r) := reeval_keys fuel st ob (map fst (cache st)) in
                 (st1, match r with Exn e => OOut (Exn e) | Val _ => ODone end)
  | ClearCache ob => (set_cache st (filter (fun kv => negb (Nat.eqb (fst (fst kv)) ob)) (cache st)), ODone)
  | EvalRoot ob hs => let '(st1, r) := eval_roots fuel st ob hs in
                      (st1, match r with Exn e => OOut (Exn e) | Val _ => ODone end)
  | Has k ob h => let '(st1, r) := has_with (get_result fuel) k st ob h in (st1, OOut r)
  | Functions c h => (st, OList (functions st c h))
  end.

Fixpoint run (fuel : nat) (st : state) (ops : list op) : state * list obs :=
  match ops with
  | [] => (st, [])
  | o :: r => let '(st1, x) := step fuel st o in let '(st2, xs) := run fuel st1 r in (st2, x :: xs)
  end.

End Machine.

Definition init : state :=
  {| stores := []; impls := []; dict := []; cache := []; cyc := []; ocls := []; trace := []; inget := false |}.
