(* Deep-embedded real arithmetic: the target language of the translator (tools/py2coq).
   One definition serves algebraic theorems (cbn [eval]; field), the dimensional analysis of
   Dim.v and evaluation at sample points.  No proofs here (models never import proofs). *)
From Coq Require Export Reals String List ZArith QArith.
Export ListNotations.
Open Scope R_scope.

Inductive expr : Type :=
| Var (p : string)                     (* attribute path, e.g. "in_profile.cross_section.area" *)
| CstZ (z : Z)
| CstQ (n : Z) (d : positive)          (* decimal literal n/d *)
| CPi
| Add (a b : expr) | Sub (a b : expr) | Mul (a b : expr) | Div (a b : expr)
| Neg (a : expr) | Sqrt (a : expr) | Abs (a : expr) | PowN (a : expr) (n : nat)
| Sin (a : expr) | Cos (a : expr) | Tan (a : expr)
| Asin (a : expr) | Acos (a : expr) | Atan (a : expr)
| Ln (a : expr) | Log2 (a : expr) | Exp (a : expr)
| Min (a b : expr) | Max (a b : expr).

Definition env := string -> R.

Fixpoint eval (rho : env) (e : expr) : R :=
  match e with
  | Var p => rho p
  | CstZ z => IZR z
  | CstQ n d => IZR n / IZR (Zpos d)
  | CPi => PI
  | Add a b => eval rho a + eval rho b
  | Sub a b => eval rho a - eval rho b
  | Mul a b => eval rho a * eval rho b
  | Div a b => eval rho a / eval rho b
  | Neg a => - eval rho a
  | Sqrt a => sqrt (eval rho a)
  | Abs a => Rabs (eval rho a)
  | PowN a n => (eval rho a) ^ n
  | Sin a => sin (eval rho a)
  | Cos a => cos (eval rho a)
  | Tan a => tan (eval rho a)
  | Asin a => asin (eval rho a)
  | Acos a => acos (eval rho a)
  | Atan a => atan (eval rho a)
  | Ln a => ln (eval rho a)
  | Log2 a => ln (eval rho a) / ln 2
  | Exp a => exp (eval rho a)
  | Min a b => Rmin (eval rho a) (eval rho b)
  | Max a b => Rmax (eval rho a) (eval rho b)
  end.

(* Guards of hook implementations: conjunctions of atoms whose truth is supplied from outside
   (has_set("x"), hasattr(self,"x"), "c" in classifiers, not cycle, ...). *)
Inductive gatom : Type :=
| GAtom (kind : string) (arg : string)        (* positive atom *)
| GNot (kind : string) (arg : string).

Definition genv := string -> string -> bool.

Definition gatom_eval (g : genv) (a : gatom) : bool :=
  match a with GAtom k x => g k x | GNot k x => negb (g k x) end.

Definition guard_eval (g : genv) (l : list gatom) : bool := forallb (gatom_eval g) l.

(* One hook implementation as the translator sees it. body = None: outside the arithmetic
   fragment (geometry, sets, navigation) - such an implementation is opaque to the theorems. *)
Record impl : Type := {
  i_owner : string; i_hook : string; i_name : string;
  i_tryfirst : bool; i_trylast : bool; i_wrapper : bool; i_cycle : bool;
  i_guard : list gatom;
  i_body : option expr }.

(* Value of a chain of implementations (already in resolution order) under rho / g:
   first implementation whose guard holds.  Opaque bodies make the chain's value unknown. *)
Inductive cres : Type := CVal (r : R) | CNone | COpaque.

Fixpoint resolve (rho : env) (g : genv) (ch : list impl) : cres :=
  match ch with
  | [] => CNone
  | i :: rest =>
      if guard_eval g (i_guard i) then
        match i_body i with Some e => CVal (eval rho e) | None => COpaque end
      else resolve rho g rest
  end.
