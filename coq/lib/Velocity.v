(* Model of the array passes of PassSequence.solve_velocities_backward / _forward (C19), over Q
   (executable for the correspondence run) with the flux theorems. *)
From Coq Require Export List QArith.
From Coq Require Import Qfield Lia.
Export ListNotations.
Open Scope Q_scope.

(* for i in range(len(A) - 2, -1, -1): v[i] = v[i + 1] * A[i + 1] / A[i] *)
Fixpoint backward (vs As : list Q) : list Q :=
  match vs, As with
  | v :: vr, a :: ar =>
      match backward vr ar, ar with
      | v1 :: r, a1 :: _ => (v1 * a1 / a) :: v1 :: r
      | _, _ => vs
      end
  | _, _ => vs
  end.

(* for i in range(1, len(A)): v[i] = v[i - 1] * A[i - 1] / A[i] *)
Fixpoint forward_from (vp ap : Q) (vs As : list Q) : list Q :=
  match vs, As with
  | _ :: vr, a :: ar => let v := vp * ap / a in v :: forward_from v a vr ar
  | _, _ => vs
  end.
Definition forward (vs As : list Q) : list Q :=
  match vs, As with v0 :: vr, a0 :: ar => v0 :: forward_from v0 a0 vr ar | _, _ => vs end.

Definition flux_all (vs As : list Q) (f : Q) : Prop :=
  forall i, (i < length vs)%nat -> nth i vs 0 * nth i As 0 == f.

Definition all_nonzero (As : list Q) : Prop := forall a, In a As -> ~ a == 0.

Lemma backward_cons v vr a ar :
  backward (v :: vr) (a :: ar) =
  match backward vr ar, ar with v1 :: r, a1 :: _ => (v1 * a1 / a) :: v1 :: r | _, _ => v :: vr end.
Proof. reflexivity. Qed.

Lemma backward_length : forall vs As, length (backward vs As) = length vs.
Proof.
  induction vs as [|v vr IH]; intro As; [reflexivity|]. destruct As as [|a ar]; [reflexivity|]. rewrite backward_cons.
  specialize (IH ar). destruct (backward vr ar) as [|v1 r] eqn:E; [reflexivity|]. destruct ar as [|a1 ar']; [reflexivity|].
  cbn [length] in *. lia.
Qed.

(* after the backward pass every pass carries the flux of the last one, whose velocity is untouched *)
Theorem backward_flux : forall vs As, length vs = length As -> vs <> [] -> all_nonzero As ->
  flux_all (backward vs As) As (last vs 0 * last As 0) /\ last (backward vs As) 0 == last vs 0.
Proof.
  induction vs as [|v vr IH]; intros As L NE NZ; [congruence|].
  destruct As as [|a ar]; [discriminate|]. cbn [length] in L. injection L as L.
  destruct vr as [|v' vr'].
  - destruct ar; [|discriminate]. cbn. split; [|reflexivity]. intros i Hi. destruct i; [cbn; reflexivity | cbn in Hi; lia].
  - destruct ar as [|a1 ar']; [discriminate|].
    assert (NZ' : all_nonzero (a1 :: ar')) by (intros x Hx; apply NZ; right; assumption).
    destruct (IH (a1 :: ar') L ltac:(discriminate) NZ') as [F Lst].
    rewrite backward_cons. pose proof (backward_length (v' :: vr') (a1 :: ar')) as BL.
    destruct (backward (v' :: vr') (a1 :: ar')) as [|v1 r] eqn:E; [cbn in BL; lia|].
    change (last (v :: v' :: vr') 0) with (last (v' :: vr') 0). change (last (a :: a1 :: ar') 0) with (last (a1 :: ar') 0).
    split.
    + intros i Hi. destruct i as [|i].
      * cbn [nth]. pose proof (F 0%nat ltac:(cbn; lia)) as F0. cbn [nth] in F0. rewrite <- F0.
        assert (Na : ~ a == 0) by (apply NZ; left; reflexivity). field. assumption.
      * cbn [nth]. apply (F i). cbn [length] in *. lia.
    + change (last (v1 * a1 / a :: v1 :: r) 0) with (last (v1 :: r) 0). exact Lst.
Qed.

Lemma forward_from_flux : forall vs As vp ap, length vs = length As -> all_nonzero As ->
  forall i, (i < length vs)%nat -> nth i (forward_from vp ap vs As) 0 * nth i As 0 == vp * ap.
Proof.
  induction vs as [|v vr IH]; intros As vp ap L NZ i Hi; [cbn in Hi; lia|].
  destruct As as [|a ar]; [discriminate|]. cbn [forward_from]. injection L as L.
  assert (Na : ~ a == 0) by (apply NZ; left; reflexivity).
  destruct i as [|i]; cbn [nth].
  - field. assumption.
  - rewrite (IH ar (vp * ap / a) a L (fun x Hx => NZ x (or_intror Hx)) i ltac:(cbn in Hi; lia)). field. assumption.
Qed.

(* after the forward pass every pass carries the flux of the first one, whose velocity is untouched *)
Theorem forward_flux : forall vs As, length vs = length As -> vs <> [] -> all_nonzero As ->
  flux_all (forward vs As) As (hd 0 vs * hd 0 As) /\ hd 0 (forward vs As) == hd 0 vs.
Proof.
  intros vs As L NE NZ. destruct vs as [|v0 vr]; [congruence|]. destruct As as [|a0 ar]; [discriminate|].
  cbn [forward hd]. split; [|reflexivity]. intros i Hi. destruct i as [|i]; cbn [nth]; [reflexivity|].
  injection L as L. apply forward_from_flux; try assumption.
  - intros x Hx. apply NZ. right. assumption.
  - cbn [length] in Hi. assert (E : length (forward_from v0 a0 vr ar) = length vr).
    { clear. revert ar v0 a0. induction vr as [|v vr IH]; intros ar v0 a0; [reflexivity|]. destruct ar; [reflexivity|]. cbn. f_equal. apply IH. }
    lia.
Qed.

(* comparison for the correspondence run *)
Fixpoint qlist_eqb (a b : list Q) : bool :=
  match a, b with [], [] => true | x :: r, y :: s => (Qeq_bool x y && qlist_eqb r s)%bool | _, _ => false end.
Fixpoint vmismatches (cases : list (bool * list Q * list Q * list Q)) (i : nat) : list nat :=
  match cases with
  | [] => []
  | (fw, vs, As, e) :: r =>
      let rest := vmismatches r (S i) in
      if qlist_eqb (if fw then forward vs As else backward vs As) e then rest else i :: rest
  end.
